"""Demo for change 1 (SMMapSet.read): reads many generated .sm texts, both as one
string and as a list of lines, and prints a sha256 digest over a canonical dump of
everything that comes out (or of the exception type raised)."""
import hashlib
import logging
import random
from dataclasses import fields

from reamber.sm.SMMapSet import SMMapSet
from reamber.sm.SMMapSetMeta import SMMapSetMeta

logging.disable(logging.CRITICAL)
random.seed(20261001)

CHART_TYPES = [
    ("dance-threepanel", 3), ("dance-single", 4), ("dance-couple", 4),
    ("pump-single", 5), ("dance-solo", 6), ("kb7-single", 7),
    ("dance-double", 8), ("pnm-nine", 9), ("techno-double8", 16),
]
ROWS = [4, 8, 12, 16, 24, 32, 48, 64, 96, 192]
SINGLES = "1MLFK"
OUT = []


def emit(*a):
    OUT.append(" ".join(str(x) for x in a))


def gen_measure(keys, rows, open_heads, density):
    out = []
    for _ in range(rows):
        row = []
        for k in range(keys):
            if random.random() > density:
                row.append("0")
            elif open_heads[k]:
                row.append("3")
                open_heads[k] = False
            else:
                c = random.choice(SINGLES + "24")
                if c in "24":
                    open_heads[k] = True
                row.append(c)
        out.append("".join(row))
    return out


def gen_chart(keys, n_measures, messy):
    open_heads = [False] * keys
    measures = []
    for _ in range(n_measures):
        rows = random.choice(ROWS)
        measures.append(gen_measure(keys, rows, open_heads, random.choice([0.0, 0.05, 0.2])))
    # close whatever is still held
    if any(open_heads):
        measures.append(
            ["".join("3" if h else "0" for h in open_heads)] + ["0" * keys] * 3
        )
    text = []
    for i, m in enumerate(measures):
        if messy and random.random() < 0.5:
            text.append("  // measure %d; with: odd, chars #NOTES: in it" % i)
        for r in m:
            if messy and random.random() < 0.1:
                text.append("")
            if messy and random.random() < 0.1:
                text.append("   " + r + "  // tail comment, ; :")
            elif messy and random.random() < 0.1:
                text.append("\t" + r + " ")
            else:
                text.append(r)
        if i != len(measures) - 1:
            text.append(",")
    return "\n".join(text)


def gen_bpms():
    n = random.choice([1, 1, 2, 3, 5])
    beats = sorted(random.sample(range(1, 48 * 40), n - 1))
    if random.random() < 0.5:  # keep changes on whole measures half of the time
        beats = sorted({(b // 192 + 1) * 192 for b in beats})
    beats = [0] + beats
    items = ["%s=%s" % (repr(b / 48) if b % 48 else "%d.000" % (b // 48),
                        random.choice(["120", "150.5", "87.25", "200.000", "60", "333"]))
             for b in beats]
    if random.random() < 0.2:
        random.shuffle(items)
    return items


HEADER_TAGS = [
    ("#TITLE", ["Song", "  padded title ", "", "a:b:c"]),
    ("#SUBTITLE", ["sub", ""]),
    ("#ARTIST", ["art", "x # y"]),
    ("#TITLETRANSLIT", ["tt"]),
    ("#SUBTITLETRANSLIT", ["stt"]),
    ("#ARTISTTRANSLIT", ["att"]),
    ("#GENRE", ["g"]),
    ("#CREDIT", ["c"]),
    ("#BANNER", ["bn.png"]),
    ("#BACKGROUND", ["bg.jpg"]),
    ("#LYRICSPATH", ["ly.lrc"]),
    ("#CDTITLE", ["cd.gif"]),
    ("#MUSIC", ["m.mp3"]),
    ("#SAMPLESTART", ["12.5", "0"]),
    ("#SAMPLELENGTH", ["10", "26.000"]),
    ("#DISPLAYBPM", ["*", "120-180"]),
    ("#SELECTABLE", ["YES", "NO", "yes"]),
    ("#BGCHANGES", ["", "1.0=a=b"]),
    ("#FGCHANGES", [""]),
    ("#UNKNOWNTAG", ["whatever"]),
]


def gen_file(n_charts, messy, with_offset=True, bpm_first=False):
    tags = [(t, random.choice(v)) for t, v in HEADER_TAGS if random.random() < 0.7]
    random.shuffle(tags)
    timing = []
    if with_offset:
        timing.append(("#OFFSET", random.choice(["0", "-0.635", "1.25", "0.000", "-12.3456"])))
    timing.append(("#BPMS", (",\n" if messy else ",").join(gen_bpms())))
    if bpm_first:
        timing.reverse()
    tags = tags + timing
    parts = []
    for t, v in tags:
        if messy and random.random() < 0.2:
            parts.append("// a comment; before: a tag, #NOTES: no")
        parts.append("%s:%s;" % (t, v) + ("  // trailing" if messy and random.random() < 0.2 else ""))
        if messy and random.random() < 0.2:
            parts.append("")
    for _ in range(n_charts):
        ct, keys = random.choice(CHART_TYPES)
        if messy:
            parts.append("//------%s[%d Hard]------" % (ct, keys))
        parts.append("#NOTES:")
        parts.append("     %s:" % ct)
        parts.append("     %s:" % random.choice(["", "desc", "K. Ward"]))
        parts.append("     %s:" % random.choice(["Beginner", "Easy", "Hard", "Edit"]))
        parts.append("     %d:" % random.randint(1, 20))
        parts.append("     %s:" % random.choice(["0,0,0,0,0", "0.1,0.2,0.3,0.4,0.5", "1,2,3,4,5,6,7"]))
        parts.append(gen_chart(keys, random.choice([1, 2, 3, 6]), messy))
        parts.append(";")
        if messy and random.random() < 0.5:
            parts.append("")
    return "\n".join(parts)


def dump_tl(name, tl):
    df = tl.df
    emit(" ", name, type(tl).__name__, list(df.columns), [str(t) for t in df.dtypes],
         type(df.index).__name__, list(df.index))
    for row in df.values.tolist():
        emit("   ", [repr(x) for x in row])


def dump_ms(ms):
    emit("type", type(ms).__name__)
    for f in fields(SMMapSetMeta):
        emit(" meta", f.name, repr(getattr(ms, f.name)))
    emit(" n_maps", len(ms.maps))
    for i, m in enumerate(ms.maps):
        emit(" map", i, type(m).__name__, repr(m.chart_type), repr(m.description),
             repr(m.difficulty), repr(m.difficulty_val), repr(m.groove_radar))
        emit(" objs keys", list(m.objs.keys()))
        for k, tl in m.objs.items():
            dump_tl(k, tl)


def run(label, arg):
    emit("CASE", label, type(arg).__name__)
    before = list(arg) if isinstance(arg, list) else arg
    try:
        ms = SMMapSet.read(arg)
    except Exception as e:
        emit(" RAISED", type(e).__name__)
    else:
        dump_ms(ms)
    emit(" input unchanged", arg == before, hashlib.sha256(repr(arg).encode()).hexdigest())


cases = []
for i in range(16):
    cases.append(("clean%d" % i, gen_file(random.choice([1, 1, 2, 3, 5]), False)))
for i in range(16):
    cases.append(("messy%d" % i, gen_file(random.choice([1, 2, 3, 4]), True)))
cases.append(("nocharts", gen_file(0, False)))
cases.append(("nocharts_messy", gen_file(0, True)))
cases.append(("nooffset", gen_file(2, False, with_offset=False)))
cases.append(("bpm_before_offset", gen_file(2, True, bpm_first=True)))
cases.append(("nobpms", "#TITLE:x;\n#OFFSET:0;\n#NOTES:\ndance-single:\n:\nEasy:\n1:\n0,0,0,0,0:\n1000\n0000\n0000\n0000\n;"))
cases.append(("empty", ""))
cases.append(("only_comment", "// nothing here; at all"))
cases.append(("no_semicolon_end", "#OFFSET:0;#BPMS:0=120;#NOTES:dance-single::Easy:1:0,0,0,0,0:\n1000\n0200\n0300\n000M"))
cases.append(("one_line", "#TITLE:a;#OFFSET:-1;#BPMS:0=100,4=200;#NOTES:dance-single:d:Hard:9:0,0,0,0,0:1000\n0100\n0010\n0001,\n1111\n0000\n0000\n0000;#NOTES:dance-solo:d:Easy:2:0,0,0,0,0:100000\n010000\n001000\n00000K;"))
cases.append(("notes_in_comment_only", "#OFFSET:0;#BPMS:0=120; // #NOTES: not a chart\n#TITLE:t;"))
cases.append(("crlf", gen_file(2, False).replace("\n", "\r\n")))
cases.append(("bad_first_bpm", "#OFFSET:0;#BPMS:1=120;#NOTES:dance-single::Easy:1:0,0,0,0,0:\n1000\n0000\n0000\n0000;"))
cases.append(("orphan_tail", "#OFFSET:0;#BPMS:0=120;#NOTES:dance-single::Easy:1:0,0,0,0,0:\n3000\n0000\n0000\n0000;"))
cases.append(("open_head", "#OFFSET:0;#BPMS:0=120;#NOTES:dance-single::Easy:1:0,0,0,0,0:\n2000\n0000\n0000\n0000;"))
cases.append(("short_chart_header", "#OFFSET:0;#BPMS:0=120;#NOTES:dance-single:Easy:\n1000\n0000\n0000\n0000;"))

for label, text in cases:
    run(label + "/str", text)
    run(label + "/lines", text.split("\n"))
    if label.startswith("messy"):
        run(label + "/keepends", text.splitlines(keepends=True))
run("tuple_input", ("#OFFSET:0;", "#BPMS:0=120;"))
run("list_of_one", ["#OFFSET:0;#BPMS:0=120;#TITLE:q;"])
run("empty_list", [])

dump = "\n".join(OUT)
print("DIGEST", hashlib.sha256(dump.encode("utf8")).hexdigest())
