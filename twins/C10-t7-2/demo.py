"""Demo for C10 refactorings: exercises the timing engine broadly and prints
one line ``DIGEST <sha256>`` over a canonical text dump of every result.

Run:  cd /tmp/wt7/C10 && PYTHONPATH=/tmp/wt7/C10 /venv/bin/python demo.py
"""
import hashlib
import io
import logging
import random
import sys
import warnings
from copy import deepcopy
from fractions import Fraction

import numpy as np

warnings.simplefilter("ignore")

from reamber.algorithms.timing.TimingMap import TimingMap
from reamber.algorithms.timing.utils.BpmChangeOffset import BpmChangeOffset
from reamber.algorithms.timing.utils.BpmChangeSnap import BpmChangeSnap
from reamber.algorithms.timing.utils.Snapper import Snapper, snap as snap_fn
from reamber.algorithms.timing.utils.bpm_changes_offset_to_snap import (
    bpm_changes_offset_to_snap,
)
from reamber.algorithms.timing.utils.from_bpm_changes_snap import from_bpm_changes_snap
from reamber.algorithms.timing.utils.snap import Snap
from reamber.base.Bpm import Bpm
from reamber.base.lists.BpmList import BpmList
from reamber.osu.OsuBpm import OsuBpm
from reamber.osu.lists.OsuBpmList import OsuBpmList

random.seed(20261001)
OUT = []

# capture logging output (from_bpm_changes_snap warns when it reseats)
LOG = io.StringIO()
_handler = logging.StreamHandler(LOG)
_handler.setFormatter(logging.Formatter("%(levelname)s:%(message)s"))
logging.getLogger().handlers[:] = [_handler]
logging.getLogger().setLevel(logging.WARNING)


def canon(x):
    """Canonical text of a value INCLUDING its type."""
    if isinstance(x, np.ndarray):
        return "ndarray(dtype=%s,shape=%s,[%s])" % (
            x.dtype,
            x.shape,
            ",".join(canon(v) for v in x.tolist())
            if x.dtype == object
            else ",".join(canon(v) for v in x.ravel()),
        )
    if isinstance(x, Snap):
        return "Snap(%s|%s|%s)" % (canon(x.measure), canon(x.beat), canon(x.metronome))
    if isinstance(x, BpmChangeOffset):
        return "BCO(%s|%s|%s)" % (canon(x.bpm), canon(x.metronome), canon(x.offset))
    if isinstance(x, BpmChangeSnap):
        return "BCS(%s|%s|%s)" % (canon(x.bpm), canon(x.metronome), canon(x.snap))
    if isinstance(x, TimingMap):
        return "TM(%s)" % canon(x.bpm_changes_offset)
    if isinstance(x, (list, tuple)):
        return "%s[%s]" % (type(x).__name__, ",".join(canon(v) for v in x))
    if isinstance(x, (float, np.floating)):
        return "%s:%s" % (type(x).__name__, float(x).hex() if x == x else "nan")
    return "%s:%r" % (type(x).__name__, x)


def emit(tag, fn):
    LOG.seek(0)
    LOG.truncate()
    try:
        res = canon(fn())
    except Exception as e:  # exception TYPE and message are part of the dump
        res = "RAISED %s: %s" % (type(e).__name__, e)
    OUT.append("%s => %s || log=%r" % (tag, res, LOG.getvalue()))


# --------------------------------------------------------------------------
# 1. Snapper tables + Snapper.snap
# --------------------------------------------------------------------------
def table(sn):
    return [
        (a.dtype.str, a.shape, a.strides, a.flags["C_CONTIGUOUS"], a.tobytes().hex())
        for a in (sn.val, sn.num, sn.den)
    ]


DIVISION_SETS = [
    None,
    (1,),
    (2,),
    (1, 2),
    (3,),
    (4,),
    (1, 2, 3, 4),
    [4, 8, 16],
    (6, 12),
    (5, 7),
    (48,),
    (96, 1),
    [1, 2, 3, 4, 5, 6, 7, 8, 9, 12, 16, 32, 64, 96],
    (192,),
    np.array([3, 9, 27]),
    (),
    [],
    (0,),
]
for _ in range(12):
    DIVISION_SETS.append(
        tuple(random.randint(1, 64) for _ in range(random.randint(1, 5)))
    )

SNAPPERS = []
for k, divs in enumerate(DIVISION_SETS):
    def mk(divs=divs):
        return Snapper() if divs is None else Snapper(divisions=divs)

    emit("snapper-table %d %r" % (k, divs), lambda: [repr(t) for t in table(mk())])
    try:
        SNAPPERS.append((k, mk()))
    except Exception:
        pass

SNAP_VALUES = [
    0, 1, 2, 7, 0.0, 1.0, 0.5, 0.25, 0.75, 1 / 3, 2 / 3, 0.1, 0.2, 0.3, 0.999999999,
    0.9999, 0.9948, 0.99479, 1e-12, 1e-3, 1 / 192, 1 / 192 + 1e-9, 1 / 192 - 1e-9,
    0.5 - 1 / 192, 0.5 + 1 / 192, 3.5, 17.3333333333, 123456.0625, -0.25, -1e-13,
    -3.7, Fraction(1, 3), Fraction(7, 5), Fraction(-2, 7), Fraction(95, 96),
    Fraction(191, 192), np.float64(0.625), np.float64(2.6666666666666665),
    np.float64(-0.125), np.int64(3), float("nan"), float("inf"),
]
for _ in range(80):
    d = random.choice([1, 2, 3, 4, 5, 6, 7, 8, 9, 12, 16, 24, 32, 48, 64, 96, 192])
    n = random.randint(0, 4 * d)
    SNAP_VALUES.append(n / d)
    SNAP_VALUES.append(n / d + random.uniform(-1, 1) / 400)
    SNAP_VALUES.append(np.float64(n / d + random.uniform(-1, 1) / 4000))
# exact midpoints between neighbouring grid values (tie handling)
_d = Snapper()
for i in range(0, len(_d.val) - 1, 37):
    SNAP_VALUES.append((_d.val[i] + _d.val[i + 1]) / 2)
    SNAP_VALUES.append(float((_d.val[i] + _d.val[i + 1]) / 2) + 5)

for k, sn in SNAPPERS:
    vals = SNAP_VALUES if k in (0, 12) else SNAP_VALUES[:60]
    for j, v in enumerate(vals):
        emit("snap %d %d %s" % (k, j, canon(v)), lambda: sn.snap(v))
        if k == 0:
            # idempotence on the snapped value
            emit("snap-idem %d" % j, lambda: sn.snap(sn.snap(v)))
for j, v in enumerate(SNAP_VALUES[:40]):
    emit("snap_fn default %d" % j, lambda: snap_fn(v))
    emit("snap_fn (1,2,3,4) %d" % j, lambda: snap_fn(v, (1, 2, 3, 4)))
    emit("snap_fn [4,8,16] %d" % j, lambda: snap_fn(v, [4, 8, 16]))


# --------------------------------------------------------------------------
# 2. TimingMap: offsets / snaps / beats on generated tempo lists
# --------------------------------------------------------------------------
SN = Snapper()
BPMS = [60, 90, 120, 150, 174.5, 200, 222.22, 300, 1000, 60000, 0.5, 33.3333]


def gen_bcs(n, const_metro=None, float_metro=False, on_measure=True):
    """Tempo changes as (bpm, metronome, snap) with the first at 0.0."""
    bcs = []
    measure = 0
    for i in range(n):
        metro = const_metro or random.randint(1, 8)
        if float_metro:
            metro = float(metro)
        bpm = random.choice(BPMS) if random.random() < 0.7 else random.uniform(20, 400)
        if i == 0 or on_measure:
            beat = 0
        else:
            beat = Fraction(random.randint(0, 4 * int(metro) - 1), 4)
            if beat >= metro:
                beat = Fraction(0)
        bcs.append(BpmChangeSnap(bpm, metro, Snap(measure, beat, metro)))
        measure += random.randint(0 if i else 1, 6) if random.random() < 0.9 else 0
        if i == 0 and measure == 0:
            measure = 1
    return bcs


def rand_snap(last_measure, metro=None):
    den = random.choice([1, 2, 3, 4, 6, 8, 12, 16])
    m = random.randint(0, int(last_measure) + 3)
    b = Fraction(random.randint(0, 8 * den - 1), den)
    return Snap(m, b, metro)


def tm_case(tag, tm, n_queries, const_metro):
    bco = tm.bpm_changes_offset
    before = canon(bco)
    emit(tag + " bcs", lambda: tm.bpm_changes_snap())
    emit(tag + " bco-after-bcs", lambda: bco)
    bcs_s = tm.bpm_changes_snap()
    last_measure = bcs_s[-1].snap.measure
    first, last = bco[0].offset, bco[-1].offset

    # --- snap queries (unsorted, duplicates, on tempo changes) ---
    q = [rand_snap(last_measure) for _ in range(n_queries)]
    q += [deepcopy(b.snap) for b in random.sample(bcs_s, min(3, len(bcs_s)))]
    q += random.sample(q, min(3, len(q)))  # duplicates (same objects)
    random.shuffle(q)
    q_before = canon(q)
    emit(tag + " offsets", lambda: tm.offsets(q))
    emit(tag + " offsets-input-unchanged", lambda: canon(q) == q_before)
    emit(tag + " offsets-sorted", lambda: tm.offsets(sorted(q)))
    emit(tag + " offsets-1", lambda: tm.offsets(q[:1]))
    emit(tag + " offsets-empty", lambda: tm.offsets([]))
    emit(tag + " offsets-tuple", lambda: tm.offsets(tuple(q[:4])))

    # --- offset queries ---
    span = (last - first) + 5 * 60000 / min(b.bpm for b in bco) + 10
    o = [first + random.random() * span for _ in range(n_queries)]
    o += [b.offset for b in random.sample(bco, min(3, len(bco)))]
    o += [first, last, first + span]
    # on-grid times: go through offsets() of on-grid snaps
    try:
        o += list(tm.offsets(q[:6]))
    except Exception:
        pass
    o += random.sample(o, 3)
    random.shuffle(o)
    o_before = list(o)
    emit(tag + " snaps", lambda: tm.snaps(o, SN))
    emit(tag + " snaps-input-unchanged", lambda: o == o_before)
    emit(tag + " snaps-ndarray", lambda: tm.snaps(np.array(o), SN))
    emit(tag + " snaps-ints", lambda: tm.snaps([int(x) + 1 + int(abs(first)) for x in o[:7]], SN))
    emit(tag + " snaps-1", lambda: tm.snaps(o[:1], SN))
    emit(tag + " snaps-empty", lambda: tm.snaps([], SN))
    emit(tag + " snaps-coarse", lambda: tm.snaps(o[:9], Snapper((1, 2, 3, 4))))
    # round trip ms -> snap -> ms
    emit(tag + " roundtrip", lambda: tm.offsets(list(tm.snaps(o, SN))))
    # queries before the first tempo change (out of domain: only exception type)
    emit(tag + " snaps-early", lambda: tm.snaps(o[:3] + [first - 1.0], SN))
    emit(tag + " snaps-early-only", lambda: tm.snaps([first - 1000.0], SN))
    emit(tag + " active-by-offset", lambda: [tm.get_active_bpm_by_offset(x) for x in o[:5]])
    emit(tag + " active-by-snap", lambda: [tm.get_active_bpm_by_snap(x) for x in q[:5]])
    if const_metro:
        emit(tag + " beats", lambda: tm.beats(o, SN))
        emit(tag + " beats-sorted", lambda: tm.beats(sorted(o), SN))
        emit(tag + " beats-empty", lambda: tm.beats([], SN))
        emit(tag + " beats-1", lambda: tm.beats(o[:1], SN))
    else:
        emit(tag + " beats-mixed", lambda: tm.beats(o, SN))
    emit(tag + " bco-final", lambda: (canon(bco) == before, bco))


case = 0
for n in [1, 1, 2, 2, 3, 3, 4, 5, 6, 8, 12, 20]:
    for const_metro in (None, 4, 3):
        for init in (0, -1234.5, 250.125):
            if random.random() < 0.45 and n > 2:
                continue
            case += 1
            float_metro = case % 4 == 0
            bcs = gen_bcs(n, const_metro, float_metro)
            tag = "tm%03d n=%d metro=%s init=%s fm=%s" % (case, n, const_metro, init, float_metro)
            emit(tag + " from_snap", lambda: from_bpm_changes_snap(init, bcs, False))
            try:
                tm = from_bpm_changes_snap(init, bcs, False)
            except Exception:
                continue
            # rebuild from a SHUFFLED offset list through the public constructor
            bco = deepcopy(tm.bpm_changes_offset)
            random.shuffle(bco)
            emit(tag + " from_offset", lambda: TimingMap.from_bpm_changes_offset(bco))
            emit(tag + " from_offset-sorted-in-place", lambda: bco)
            tm_case(tag, tm, 14, const_metro)

# hand-made edge cases: ties in offsets, tempo change straddling, tiny gaps
EDGE = [
    [BpmChangeOffset(60000, 4, 0)],
    [BpmChangeOffset(120, 4, 0), BpmChangeOffset(240, 4, 0)],
    [BpmChangeOffset(120, 4, 100), BpmChangeOffset(60, 3, 2100), BpmChangeOffset(90, 3, 2100)],
    [BpmChangeOffset(120, 4, -500), BpmChangeOffset(120, 4, -500 + 2000), BpmChangeOffset(180, 5, 9500)],
    [BpmChangeOffset(200, 4, 5000), BpmChangeOffset(100, 4, 0), BpmChangeOffset(150, 4, 2500)],
    [BpmChangeOffset(150, 4.0, 0.0), BpmChangeOffset(75, 4.0, 1600.0), BpmChangeOffset(300, 4.0, 1600.5)],
    [BpmChangeOffset(np.float64(150), np.float64(4), np.float64(10)), BpmChangeOffset(np.float64(75), np.float64(3), np.float64(3210))],
    [],
]
for k, bco in enumerate(EDGE):
    tag = "edge%d" % k
    emit(tag + " ctor", lambda: TimingMap.from_bpm_changes_offset(bco))
    try:
        tm = TimingMap.from_bpm_changes_offset(bco)
        tm.bpm_changes_snap()
    except Exception as e:
        emit(tag + " bcs", lambda: tm.bpm_changes_snap())
        emit(tag + " snaps", lambda: tm.snaps([0.0], SN))
        emit(tag + " offsets", lambda: tm.offsets([Snap(0, 0, 4)]))
        continue
    metros = {b.metronome for b in bco}
    tm_case(tag, tm, 10, 4 if len(metros) == 1 else None)
    emit(tag + " reseat", lambda: tm.reseat())
    emit(tag + " fn bcs", lambda: bpm_changes_offset_to_snap(list(reversed(bco)), SN))

# --------------------------------------------------------------------------
# 3. from_bpm_changes_snap: reseat on / off, unsorted input, bad first bpm
# --------------------------------------------------------------------------
for k in range(40):
    n = random.choice([1, 2, 2, 3, 4, 6, 9])
    bcs = gen_bcs(n, random.choice([None, 4]), k % 5 == 0, on_measure=(k % 2 == 0))
    random.shuffle(bcs)
    if k % 7 == 3:
        bcs.append(bcs[0])  # aliased element
    if k % 11 == 5:
        bcs = [b for b in bcs if not (b.snap.measure == 0 and b.snap.beat == 0)]
    init = random.choice([0, -100.25, 1500, 3.0e5])
    before = canon(bcs)
    tag = "fbs%02d" % k
    emit(tag + " reseat=False", lambda: from_bpm_changes_snap(init, bcs, False))
    emit(tag + " reseat=True", lambda: from_bpm_changes_snap(init, bcs, True))
    emit(tag + " default", lambda: from_bpm_changes_snap(init, bcs))
    emit(tag + " static", lambda: TimingMap.from_bpm_changes_snap(init, bcs))
    emit(tag + " input-unchanged", lambda: canon(bcs) == before)
    emit(tag + " input", lambda: bcs)
emit("fbs empty", lambda: from_bpm_changes_snap(0, []))
emit("fbs empty noreseat", lambda: from_bpm_changes_snap(0, [], False))
emit("fbs tuple", lambda: type(from_bpm_changes_snap(0, [BpmChangeSnap(120, 4, Snap(0, 0, 4))])).__name__)

# --------------------------------------------------------------------------
# 4. BpmList.to_timing_map
# --------------------------------------------------------------------------
for k in range(12):
    n = random.choice([1, 2, 3, 5, 8])
    offs = sorted(random.uniform(-500, 60000) for _ in range(n))
    if k % 3 == 0:
        random.shuffle(offs)
    rows = [(o, random.choice(BPMS), random.randint(1, 8)) for o in offs]
    bl = BpmList([Bpm(o, b, m) for o, b, m in rows])
    ol = OsuBpmList([OsuBpm(o, b, m) for o, b, m in rows])
    for name, lst in (("BpmList", bl), ("OsuBpmList", ol)):
        tag = "ttm%02d %s" % (k, name)
        df_before = lst.df.to_csv() + repr(lst.df.dtypes.to_dict())
        emit(tag, lambda: lst.to_timing_map())
        emit(tag + " snaps", lambda: lst.to_timing_map().snaps(sorted(offs)[::-1] + [max(offs) + 777.7], SN))
        emit(tag + " unchanged", lambda: lst.df.to_csv() + repr(lst.df.dtypes.to_dict()) == df_before)
emit("ttm empty", lambda: BpmList([]).to_timing_map())

dump = "\n".join(OUT)
if "--dump" in sys.argv:
    sys.stdout.write(dump + "\n")
print("DIGEST", hashlib.sha256(dump.encode()).hexdigest())
