"""Demo for refactoring 1 (full_ln): digest over a broad set of charts."""
import hashlib
import random
import warnings
from pathlib import Path

import numpy as np
import pandas as pd

from reamber.algorithms.generate import full_ln
from reamber.base.Map import Map
from reamber.base.lists.BpmList import BpmList
from reamber.base.lists.notes.HitList import HitList
from reamber.base.lists.notes.HoldList import HoldList
from reamber.osu import OsuMap
from reamber.quaver import QuaMap
from reamber.sm import SMMapSet
from reamber.bms.BMSMap import BMSMap

random.seed(1501)
np.random.seed(1501)
OUT = []


def dump_df(tag, df):
    OUT.append(f"{tag} cols={list(df.columns)!r} dtypes={[str(t) for t in df.dtypes]!r}")
    OUT.append(f"{tag} index={df.index.tolist()!r}")
    OUT.append(f"{tag} values={df.values.tolist()!r}")


def dump_map(tag, m):
    for name, lst in m.objs.items():
        dump_df(f"{tag}.{name}", lst.df)


def run(tag, m, *args, **kwargs):
    with warnings.catch_warnings(record=True) as w:
        warnings.simplefilter("always")
        try:
            out = full_ln(m, *args, **kwargs)
        except Exception as e:  # noqa
            OUT.append(f"{tag} RAISED {type(e).__name__}")
        else:
            OUT.append(f"{tag} type={type(out).__name__}")
            dump_map(tag + ".out", out)
    OUT.append(f"{tag} warnings={sorted(x.category.__name__ for x in w)!r}")
    # the input must not have been modified
    dump_map(tag + ".in_after", m)


def permuted(m, how):
    m = m.deepcopy()
    for name, lst in list(m.objs.items()):
        df = lst.df
        if how == "shuffle":
            df = df.sample(frac=1, random_state=random.randrange(10**6))
        elif how == "reverse":
            df = df.sort_values("offset", ascending=False, kind="stable")
        elif how == "shuffle_reset":
            df = df.sample(frac=1, random_state=random.randrange(10**6)).reset_index(drop=True)
        m.objs[name] = type(lst)(df)
    return m


def random_base_map(n_hits, n_holds, keys, grid, int_offsets=False):
    """Unsorted construction with many ties (coarse grid)"""
    m = Map()
    cast = int if int_offsets else float
    if n_hits:
        m.hits = HitList.from_dict(
            dict(
                offset=[cast(random.randrange(0, 40) * grid) for _ in range(n_hits)],
                column=[random.randrange(keys) for _ in range(n_hits)],
            )
        )
    if n_holds:
        m.holds = HoldList.from_dict(
            dict(
                offset=[cast(random.randrange(0, 40) * grid) for _ in range(n_holds)],
                column=[random.randrange(keys) for _ in range(n_holds)],
                length=[cast(random.choice([0, 1, 50, 99, 100, 101, 250, 1000])) for _ in range(n_holds)],
            )
        )
    m.bpms = BpmList.from_dict(dict(offset=[0.0, 1000.0], bpm=[120.0, 240.0]))
    return m


# ---- 1. generated base maps: sizes incl. empty, key counts, ties, int offsets
case = 0
for n_hits, n_holds in [(0, 0), (1, 0), (0, 1), (2, 0), (0, 2), (5, 5), (30, 0), (0, 30), (40, 25), (120, 60)]:
    for keys in (1, 4, 7, 10):
        for grid in (50, 125, 250):
            case += 1
            m = random_base_map(n_hits, n_holds, keys, grid, int_offsets=(case % 5 == 0))
            gap, thres = random.choice(
                [(150, 100), (0, 0), (150, 0), (0, 100), (-50, 10), (50, -10), (125.5, 99.5), (1e9, 1), (250, 250)]
            )
            run(f"gen{case}", m, gap, thres)
            if case % 3 == 0:
                run(f"gen{case}.default", m)
            if case % 4 == 0:
                # append without sort / concatenation
                m2 = m.deepcopy()
                m2.hits = m2.hits.append(m.hits).append(HitList.from_dict(dict(offset=[-100.0, 1e6], column=[0, 0])))
                m2.holds = m2.holds.append(m.holds.sorted(reverse=True))
                run(f"gen{case}.appended", m2, gap, thres)

# ---- 2. special values
m = Map()
m.hits = HitList.from_dict(dict(offset=[0.0, -0.0, 300.0, 300.0, -500.0, 1e12], column=[0, 0, 1, 1, 2, 2]))
m.holds = HoldList.from_dict(dict(offset=[300.0, 0.0, 700.0], column=[1, 0, 2], length=[0.0, -20.0, float("inf")]))
for gap, thres in [(0, 0), (150, 100), (float("nan"), 100), (150, float("nan")), (float("inf"), 0), (float("-inf"), 0)]:
    run(f"special gap={gap!r} thres={thres!r}", m, gap, thres)
m = Map()
m.hits = HitList.from_dict(dict(offset=[0.0, float("nan"), 500.0, float("inf")], column=[0, 0, 0, 0]))
m.holds = HoldList.from_dict(dict(offset=[float("nan"), 250.0], column=[0, 0], length=[float("nan"), 100.0]))
run("nan_offsets", m)
run("nan_offsets_rev", permuted(m, "reverse"))
# duplicated row labels after concatenation without ignore_index
m = Map()
m.hits = HitList(pd.concat([HitList.from_dict(dict(offset=[900.0, 0.0], column=[0, 1])).df] * 2))
m.holds = HoldList(pd.concat([HoldList.from_dict(dict(offset=[400.0], column=[1], length=[30.0])).df] * 3))
run("dup_labels", m)
# float columns
m = Map()
m.hits = HitList(pd.DataFrame(dict(offset=[0.0, 400.0, 100.0], column=[1.0, 1.0, 0.0])))
run("float_columns", m)

# ---- 3. fixture charts of every format, in several row orders
RSC = Path("rsc/maps")
fixtures = {
    "osu": OsuMap.read_file(RSC / "osu/Gravity.osu"),
    "osu_ln": OsuMap.read_file(RSC / "osu/LNDan14.osu"),
    "qua": QuaMap.read_file(RSC / "qua/CarryMeAway.qua"),
    "sm": SMMapSet.read_file(RSC / "sm/Escapes.sm")[0],
    "bms": BMSMap.read_file(RSC / "bms/coldBreath.bme"),
}
for name, m in fixtures.items():
    run(f"fx.{name}", m)
    for how in ("shuffle", "reverse", "shuffle_reset"):
        run(f"fx.{name}.{how}", permuted(m, how), 150, 100)
    run(f"fx.{name}.gap0", permuted(m, "shuffle"), 0, 0)

text = "\n".join(OUT)
import sys
print("LINES", len(OUT), "RAISED", sum(" RAISED " in x for x in OUT), file=sys.stderr)
print("DIGEST", hashlib.sha256(text.encode("utf8")).hexdigest())
