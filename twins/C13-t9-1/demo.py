"""Demo for change 1 (Map.rate).

Rates charts / mapsets of all five games (sample files, slices of them with
empty / unsorted / duplicated lists, synthetic base maps) by many rates and
dumps results, inputs afterwards, compositions, exceptions and write/read
round trips canonically.  Prints one line ``DIGEST <sha256>``.
"""
import hashlib
import random
import warnings
from fractions import Fraction
from pathlib import Path

import numpy as np
import pandas as pd

warnings.simplefilter("ignore")
import logging
import os

logging.disable(logging.CRITICAL)

from reamber.base.Bpm import Bpm
from reamber.base.Hit import Hit
from reamber.base.Hold import Hold
from reamber.base.Map import Map
from reamber.base.MapSet import MapSet
from reamber.base.lists.BpmList import BpmList
from reamber.base.lists.notes.HitList import HitList
from reamber.base.lists.notes.HoldList import HoldList
from reamber.bms.BMSMap import BMSMap
from reamber.o2jam import O2JMapSet
from reamber.osu import OsuMap
from reamber.quaver import QuaMap
from reamber.sm import SMMapSet

random.seed(1313)
MAPS = Path(__file__).resolve().parent
if not (MAPS / "rsc").exists():
    MAPS = Path.cwd()
MAPS = MAPS / "rsc" / "maps"

OUT = []


def emit(*parts):
    OUT.append(" | ".join(str(p) for p in parts))


def fmt(v):
    if isinstance(v, (float, np.floating)):
        return type(v).__name__ + ":" + repr(float(v))
    if isinstance(v, (int, np.integer)) and not isinstance(v, (bool, np.bool_)):
        return type(v).__name__ + ":" + repr(int(v))
    if isinstance(v, pd.DataFrame):
        return dump_df(v)
    if isinstance(v, dict):
        return "{" + ",".join(f"{fmt(k)}=>{fmt(x)}" for k, x in v.items()) + "}"
    if isinstance(v, (list, tuple)):
        return type(v).__name__ + "[" + ",".join(fmt(x) for x in v) + "]"
    return type(v).__name__ + ":" + repr(v)


def dump_df(df):
    rows = [
        "cols=" + repr(list(df.columns)),
        "dtypes=" + repr([str(t) for t in df.dtypes]),
        "index=" + repr(list(df.index)) + ":" + str(df.index.dtype),
    ]
    for c in df.columns:
        rows.append(str(c) + "=" + ",".join(fmt(x) for x in df[c].tolist()))
    return "DF<" + ";".join(rows) + ">"


def dump_map(m):
    rows = ["MAP " + type(m).__name__]
    rows.append("objkeys=" + repr(list(m.objs.keys())))
    for k, v in m.objs.items():
        rows.append(k + ":" + type(v).__name__ + ":" + dump_df(v.df))
    for k, v in vars(m).items():
        if k != "objs":
            rows.append(k + "=" + fmt(v))
    return "\n".join(rows)


def dump_set(ms):
    rows = ["SET " + type(ms).__name__ + " n=" + str(len(ms.maps))]
    for k, v in vars(ms).items():
        if k != "maps":
            rows.append(k + "=" + fmt(v))
    for m in ms.maps:
        rows.append(dump_map(m))
    return "\n".join(rows)


def dump(x):
    return dump_set(x) if isinstance(x, MapSet) else dump_map(x)


def h(text):
    return hashlib.sha256(text.encode("utf8", "backslashreplace")).hexdigest()


# --------------------------------------------------------------------- charts
def sub(tl, lo, hi, shuffle=False, dup=False):
    """A slice of a list, optionally shuffled (unsorted) / with tied rows"""
    df = tl.df.iloc[lo:hi]
    if dup and len(df):
        df = pd.concat([df, df.iloc[: max(1, len(df) // 3)]])
    if shuffle and len(df):
        df = df.sample(frac=1, random_state=random.randrange(10**6))
    return type(tl)(df.reset_index(drop=True))


def variants(m, tag):
    """Yields variants of a map with empty / short / unsorted lists"""
    yield tag + "/full", m
    keys = list(m.objs.keys())
    for i in range(3):
        v = m.deepcopy()
        for k in keys:
            tl = v.objs[k]
            n = len(tl)
            mode = random.choice(["empty", "head", "mid", "shuffle", "dup"])
            if k == "bpms" and mode == "empty" and i != 2:
                mode = "head"
            if mode == "empty":
                v.objs[k] = sub(tl, 0, 0)
            elif mode == "head":
                v.objs[k] = sub(tl, 0, min(n, random.randint(1, 6)))
            elif mode == "mid":
                a = random.randint(0, max(0, n - 1))
                v.objs[k] = sub(tl, a, a + random.randint(1, 8))
            elif mode == "shuffle":
                v.objs[k] = sub(tl, 0, min(n, 12), shuffle=True)
            else:
                v.objs[k] = sub(tl, 0, min(n, 9), shuffle=True, dup=True)
        yield f"{tag}/var{i}", v
    # everything but the bpms empty
    v = m.deepcopy()
    for k in keys:
        if k != "bpms":
            v.objs[k] = sub(v.objs[k], 0, 0)
    v.objs["bpms"] = sub(v.objs["bpms"], 0, 1)
    yield tag + "/onlybpm", v


def synthetic_base(n_hits, n_holds, n_bpms):
    m = Map()
    m.hits = HitList(
        [
            Hit(offset=random.choice([-500, 0, 125.5, 1000, 1000, 3e5]) + i, column=random.randint(0, 9))
            for i in range(n_hits)
        ]
    )
    m.holds = HoldList(
        [
            Hold(
                offset=random.uniform(-1e3, 1e5),
                column=random.randint(0, 17),
                length=random.choice([0, 1, 33.3, 5000]),
            )
            for _ in range(n_holds)
        ]
    )
    m.bpms = BpmList(
        [
            Bpm(offset=i * 1000.0 - 250, bpm=random.choice([60, 120.5, 200, 1e-3, 9999]))
            for i in range(n_bpms)
        ]
    )
    return m


charts = []  # (tag, chart, kind)

osu_files = ["Gravity.osu", "AvengerHitsoundFile.osu", "Escapes.osu", "LNDan14.osu"]
for f in osu_files:
    m = OsuMap.read_file((MAPS / "osu" / f).as_posix())
    for tag, v in variants(m, "osu/" + f):
        charts.append((tag, v, "osu"))
# osu with no preview point and with int / float preview point
m = OsuMap.read_file((MAPS / "osu" / "Caravan.osu").as_posix())
for pv in (-1, 0, 12345, 999.5):
    v = next(iter(variants(m, "x")))[1].deepcopy()
    v.preview_time = pv
    for k in v.objs:
        v.objs[k] = sub(v.objs[k], 0, 5)
    charts.append((f"osu/Caravan/pv{pv}", v, "osu"))
charts.append(("osu/blank", OsuMap(), "osu-nowrite"))

for f in ["CarryMeAway.qua", "NeuroCloud.qua"]:
    m = QuaMap.read_file((MAPS / "qua" / f).as_posix())
    for tag, v in variants(m, "qua/" + f):
        charts.append((tag, v, "qua"))

for f in ["coldBreath.bme", "take.bms"]:
    m = BMSMap.read_file(MAPS / "bms" / f)
    for tag, v in variants(m, "bms/" + f):
        charts.append((tag, v, "bms"))

for f in ["Escapes.sm", "Gravity.sm", "ICFITU.sm"]:
    ms = SMMapSet.read_file((MAPS / "sm" / f).as_posix())
    charts.append(("sm/" + f, ms, "sm"))
    for tag, v in variants(ms[0], "sm/" + f + "/map0"):
        charts.append((tag, v, "map"))
    short = ms.deepcopy()
    short.maps = [v for _, v in list(variants(ms[0], "s"))[1:3]]
    for sm in short.maps:
        # all maps of a set share the timing of the first to be writable
        sm.objs["bpms"] = short.maps[0].objs["bpms"]
        sm.objs["stops"] = short.maps[0].objs["stops"]
    charts.append(("sm/" + f + "/short", short, "sm-nowrite"))
    none_off = short.deepcopy()
    none_off.offset = None
    charts.append(("sm/" + f + "/offset-none", none_off, "sm-nowrite"))
empty_sm = SMMapSet.read_file((MAPS / "sm" / "Escapes.sm").as_posix())
empty_sm.maps = []
charts.append(("sm/nomaps", empty_sm, "sm-nowrite"))

for f in ["o2ma178.ojn", "o2ma120.ojn"]:
    ms = O2JMapSet.read_file((MAPS / "o2jam" / f).as_posix())
    charts.append(("o2j/" + f, ms, "set"))
    for tag, v in variants(ms[1], "o2j/" + f + "/map1"):
        charts.append((tag, v, "map"))

for i, (a, b, c) in enumerate(
    [(0, 0, 0), (0, 0, 1), (5, 0, 1), (0, 4, 2), (7, 7, 3), (1, 1, 1), (30, 12, 5), (3, 0, 0)]
):
    charts.append((f"base/{i}", synthetic_base(a, b, c), "map"))
charts.append(("baseset/0", MapSet([synthetic_base(3, 2, 1), synthetic_base(0, 0, 1)]), "set"))
charts.append(("baseset/empty", MapSet([]), "set"))

RATES = [
    1,
    1.0,
    2,
    0.5,
    1.1,
    1 / 3,
    0.75,
    np.float64(1.25),
    np.float32(1.5),
    np.int64(3),
    1e-6,
    1e6,
    True,
]
ODD = [0, 0.0, -1.5, "2", None, Fraction(3, 2), [2], float("nan"), float("inf")]


def call(tag, fn):
    try:
        res = fn()
    except BaseException as e:  # noqa
        emit(tag, "RAISED", type(e).__name__)
        return None
    return res


def readback(kind, rated):
    if kind == "osu":
        return OsuMap.read(rated.write())
    if kind == "qua":
        return QuaMap.read(rated.write())
    if kind == "bms":
        lines = rated.write().decode("shift_jis", "replace").split("\r\n")
        return BMSMap.read([line.strip() for line in lines])
    if kind == "sm":
        return SMMapSet.read(rated.write())
    return None


def written(kind, rated):
    if kind == "osu":
        return "\n".join(rated.write())
    if kind == "qua":
        return rated.write()
    if kind == "bms":
        w = rated.write()
        return w.hex() if isinstance(w, (bytes, bytearray)) else repr(w)
    if kind == "sm":
        return rated.write()
    return None


n_cases = 0
for tag, chart, kind in charts:
    big = "/full" in tag or kind in ("sm", "set") and "/" in tag
    rates = random.sample(RATES, 3) if big else random.sample(RATES, 6)
    if 1 not in rates:
        rates.append(1)
    before = dump(chart)
    emit("CHART", tag, kind, h(before))
    for r in rates:
        n_cases += 1
        t = f"{tag} rate={r!r}"
        res = call(t, lambda: chart.rate(r))
        if res is None:
            continue
        emit(t, "type", type(res).__name__, "same-object", res is chart)
        emit(t, "result", h(dump(res)))
        emit(t, "input-untouched", dump(chart) == before, h(dump(chart)))
        if kind in ("osu", "qua", "bms", "sm"):
            w = call(t + " write", lambda: written(kind, res))
            if w is not None:
                emit(t, "written", h(w))
            rb = call(t + " readback", lambda: readback(kind, res))
            if rb is not None:
                emit(t, "readback", h(dump(rb)))
    # composition
    a, b = random.sample([2, 0.5, 1.1, 0.75, 1 / 3, 4], 2)
    t = f"{tag} compose {a!r},{b!r}"
    res = call(t, lambda: chart.rate(a).rate(b))
    if res is not None:
        emit(t, h(dump(res)))
    res = call(t + " direct", lambda: chart.rate(a * b))
    if res is not None:
        emit(t + " direct", h(dump(res)))
    # out-of-domain rates: exception types must be the same
    if not big:
        for r in random.sample(ODD, 4):
            n_cases += 1
            t = f"{tag} odd-rate={r!r}"
            res = call(t, lambda: chart.rate(r))
            if res is not None:
                emit(t, "result", h(dump(res)))
            emit(t, "input-untouched", dump(chart) == before)

# Full (unhashed) dumps of a few small results, so dtype / label changes show
for tag, chart, kind in charts:
    if tag.startswith("base/") or tag.endswith("/onlybpm") or "pv" in tag:
        emit("FULL", tag, dump(chart.rate(1.1)))

# keyword call forms and the stack afterwards
m = synthetic_base(4, 3, 2)
emit("kw", dump(m.rate(by=2)))
r = m.rate(2)
emit("stack-after", dump_df(r.stack()._stacked))
r.stack().offset += 1
emit("stack-after-mutation", dump(r), dump(m))

emit("cases", n_cases, "charts", len(charts))
if os.environ.get("DEMO_DUMP"):
    Path(os.environ["DEMO_DUMP"]).write_text("\n".join(OUT), encoding="utf8", errors="backslashreplace")
print("DIGEST", h("\n".join(OUT)))
