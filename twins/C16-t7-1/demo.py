import hashlib
import importlib
import pkgutil
import random
import warnings

import numpy as np
import pandas as pd

import reamber
from reamber.base.lists.TimedList import TimedList
from reamber.base.lists.notes.HoldList import HoldList

for _m in pkgutil.walk_packages(reamber.__path__, "reamber."):
    try:
        importlib.import_module(_m.name)
    except Exception:  # optional sub-packages
        pass

OUT = []


def emit(*parts):
    OUT.append(" | ".join(str(p) for p in parts))


def subclasses(c):
    out = set()
    for s in c.__subclasses__():
        out.add(s)
        out |= subclasses(s)
    return out


LIST_CLASSES = [TimedList] + sorted(
    (c for c in subclasses(TimedList) if c.__module__.startswith("reamber.")),
    key=lambda c: (c.__module__, c.__qualname__),
)


def _instantiable(c):
    try:
        c([])
        return True
    except TypeError:  # abstract list classes
        return False


ABSTRACT = [c.__name__ for c in LIST_CLASSES if not _instantiable(c)]
LIST_CLASSES = [c for c in LIST_CLASSES if _instantiable(c)]


def rv(v):
    """canonical text of one value, with its type"""
    if isinstance(v, float) and v != v:
        return f"{type(v).__name__}:nan"
    return f"{type(v).__name__}:{v!r}"


def dump_series(s):
    if not isinstance(s, pd.Series):
        return rv(s)
    return (
        f"Series(name={s.name!r}, dtype={s.dtype}, index={[rv(i) for i in s.index]}, "
        f"values={[rv(v) for v in s.tolist()]})"
    )


def dump_df(df):
    if not isinstance(df, pd.DataFrame):
        return rv(df)
    cols = [rv(c) for c in df.columns]
    dts = [str(d) for d in df.dtypes]
    idx = [rv(i) for i in df.index]
    rows = [[rv(v) for v in df.iloc[i].tolist()] for i in range(len(df))]
    percol = [[rv(v) for v in df.iloc[:, j].tolist()] for j in range(df.shape[1])]
    return f"DF(cols={cols}, dtypes={dts}, index={type(df.index).__name__}{idx}, rows={rows}, percol={percol})"


def dump_list(tl):
    if isinstance(tl, TimedList):
        try:
            return f"{type(tl).__name__}<{dump_df(tl.df)}>"
        except Exception as e:
            return f"{type(tl).__name__}<!{type(e).__name__}:{e}>"
    return dump_any(tl)


def dump_item(it):
    from reamber.base.Series import Series

    if isinstance(it, Series):
        return f"{type(it).__name__}<{dump_series(it.data)}>"
    return dump_any(it)


def dump_any(x):
    from reamber.base.Series import Series

    if isinstance(x, TimedList):
        return dump_list(x)
    if isinstance(x, Series):
        return dump_item(x)
    if isinstance(x, pd.DataFrame):
        return dump_df(x)
    if isinstance(x, pd.Series):
        return dump_series(x)
    if isinstance(x, np.ndarray):
        return f"ndarray({x.dtype}, {[rv(v) for v in x.tolist()]})"
    if isinstance(x, (tuple, list)):
        return f"{type(x).__name__}[{', '.join(dump_any(v) for v in x)}]"
    return rv(x)


def run(label, fn, *inputs_to_recheck):
    """run fn, record result or exception and warnings, then the inputs afterwards"""
    with warnings.catch_warnings(record=True) as w:
        warnings.simplefilter("always")
        try:
            res = fn()
            if hasattr(res, "__next__"):
                res = list(res)
            text = dump_any(res)
        except Exception as e:  # noqa
            res = None
            text = f"RAISED {type(e).__name__}: {e}"
    ws = sorted(f"{x.category.__name__}:{x.message}" for x in w)
    emit(label, text, f"warnings={ws}")
    for k, inp in enumerate(inputs_to_recheck):
        emit(label, f"input{k}-after", dump_any(inp))
    return res


OFFSETS = [-1000.0, -0.5, 0.0, 0.0, 0.25, 1.0, 1.0, 1.5, 100.0, 1000.0, 2500.75, 1e6]


def rand_value(rng, name, dtype, default):
    if name == "offset":
        return rng.choice(OFFSETS)
    if name == "length":
        return rng.choice([0.0, 0.5, 1.0, 100.0, 250.25, -50.0, 1000.0])
    if dtype == "float":
        return rng.choice([0.0, 0.5, 1.0, 4.0, 120.0, 187.5, -3.0])
    if dtype == "int":
        return rng.randint(-1, 9)
    if dtype == "bool":
        return rng.random() < 0.5
    if isinstance(default, bytes):
        return rng.choice([b"", b"0A", b"ZZ"])
    if isinstance(default, list):
        return [f"k{rng.randint(0, 3)}" for _ in range(rng.randint(0, 2))]
    return rng.choice(["", "a.wav", "b.ogg"])


def rand_kwargs(rng, item_cls):
    return {k: rand_value(rng, k, t, d) for k, (t, d) in item_cls._props.items()}


def rand_items(rng, list_cls, n):
    ic = list_cls._item_class()
    return [ic(**rand_kwargs(rng, ic)) for _ in range(n)]


def rand_list(rng, list_cls, n):
    if n == 0:
        return list_cls([])
    return list_cls(rand_items(rng, list_cls, n))


def digest():
    emit("abstract list classes", ABSTRACT)
    emit("list classes", [c.__name__ for c in LIST_CLASSES])
    h = hashlib.sha256("\n".join(OUT).encode("utf-8")).hexdigest()
    print(f"DIGEST {h}")


def generic_ops(rng, tag, tl):
    """One random operation on a list; returns the resulting list (or the same)."""
    is_hold = isinstance(tl, HoldList)
    op = rng.choice(
        ["sorted", "sorted_r", "slice", "after", "before", "between", "append", "append_s", "mask"]
    )
    off = rng.choice(OFFSETS)
    off2 = rng.choice(OFFSETS)
    inc = rng.choice([True, False])
    inc2 = rng.choice([True, False, (True, False), (False, True), (True, True), (False, False)])
    if op == "sorted":
        return op, run(f"{tag}:{op}", lambda: tl.sorted(), tl)
    if op == "sorted_r":
        return op, run(f"{tag}:{op}", lambda: tl.sorted(reverse=True), tl)
    if op == "slice":
        a = rng.choice([None, 0, 1, 2, -1, -2, 5])
        b = rng.choice([None, 0, 1, 3, -1, 10])
        c = rng.choice([None, None, 1, 2, -1])
        return op, run(f"{tag}:{op}[{a}:{b}:{c}]", lambda: tl[a:b:c], tl)
    if op == "after":
        if is_hold:
            it = rng.choice([True, False])
            return op, run(f"{tag}:{op}({off},{inc},tail={it})", lambda: tl.after(off, inc, include_tail=it), tl)
        return op, run(f"{tag}:{op}({off},{inc})", lambda: tl.after(off, inc), tl)
    if op == "before":
        if is_hold:
            ih = rng.choice([True, False])
            return op, run(f"{tag}:{op}({off},{inc},head={ih})", lambda: tl.before(off, inc, include_head=ih), tl)
        return op, run(f"{tag}:{op}({off},{inc})", lambda: tl.before(off, inc), tl)
    if op == "between":
        lo, hi = min(off, off2), max(off, off2)
        if is_hold:
            ih = rng.choice([True, False])
            it = rng.choice([True, False])
            return op, run(
                f"{tag}:{op}({lo},{hi},{inc2},{ih},{it})",
                lambda: tl.between(lo, hi, inc2, include_head=ih, include_tail=it),
                tl,
            )
        return op, run(f"{tag}:{op}({lo},{hi},{inc2})", lambda: tl.between(lo, hi, inc2), tl)
    if op in ("append", "append_s"):
        kind = rng.choice(["item", "list", "series", "df"])
        extra = rand_items(rng, type(tl), rng.randint(1, 3))
        if kind == "item":
            val = extra[0]
        elif kind == "list":
            val = type(tl)(extra)
        elif kind == "series":
            val = extra[0].data
        else:
            val = type(tl)(extra).df
        return op, run(f"{tag}:{op}:{kind}", lambda: tl.append(val, sort=(op == "append_s")), tl, val)
    if op == "mask":
        return op, run(f"{tag}:{op}", lambda: tl[tl.offset != off], tl)


def observe(tag, tl):
    """All read-only observations of a list."""
    run(f"{tag}:dump", lambda: tl)
    run(f"{tag}:len", lambda: len(tl))
    n = len(tl) if isinstance(tl, TimedList) and hasattr(tl, "_df") else 0
    for i in [0, 1, -1, n - 1, n, -n - 1, np.int64(0), np.int32(-1)]:
        run(f"{tag}:getitem[{i!r}]", lambda: tl[i])
    run(f"{tag}:iter", lambda: list(tl))
    run(f"{tag}:first", lambda: tl.first_offset())
    run(f"{tag}:last", lambda: tl.last_offset())
    run(f"{tag}:first_last", lambda: tl.first_last_offset())
    run(f"{tag}:offset", lambda: tl.offset)
    run(f"{tag}:to_numpy", lambda: tl.to_numpy().tolist())


def common_walk(seed, sizes=(0, 1, 4, 9), steps=4):
    rng = random.Random(seed)
    for lc in LIST_CLASSES:
        for n in sizes:
            tag = f"{lc.__name__}/n{n}"
            tl = run(f"{tag}:build", lambda: rand_list(rng, lc, n))
            observe(tag, tl)
            cur = tl
            for s in range(steps):
                op, res = generic_ops(rng, f"{tag}/s{s}", cur)
                if isinstance(res, TimedList):
                    cur = res
                observe(f"{tag}/s{s}:{op}", cur)
            # declared fields: empty(n), from_dict
            e = run(f"{tag}:empty", lambda: lc.empty(n))
            observe(f"{tag}:empty", e)
            recs = [rand_kwargs(rng, lc._item_class()) for _ in range(n)]
            fd = run(f"{tag}:from_dict-records", lambda: lc.from_dict(recs), recs)
            observe(f"{tag}:from_dict-records", fd)
            cols = {"offset": [r["offset"] for r in recs]}
            fd2 = run(f"{tag}:from_dict-partial", lambda: lc.from_dict(cols), cols)
            observe(f"{tag}:from_dict-partial", fd2)
            run(f"{tag}:from_dict-bad", lambda: lc.from_dict({"offset": [1.0], "nope": [2]}))


def main():
    random.seed(1601)
    common_walk(1601)
    rng = random.Random(16011)
    from reamber.base.Timed import Timed
    from reamber.base.Bpm import Bpm
    from reamber.base.Hit import Hit
    from reamber.base.Hold import Hold

    junk_pool = [1, 2.5, "x", None, (1, 2), [3], {"offset": 1}, b"b", object, pd.Series({"offset": 1.0}),
                 np.float64(3.0), True]
    for lc in LIST_CLASSES:
        ic = lc._item_class()
        tag = f"ctor/{lc.__name__}"
        # empty list, single item, list of items, another list, a frame
        run(f"{tag}:[]", lambda: lc([]))
        one = ic(**rand_kwargs(rng, ic))
        observe(f"{tag}:single", run(f"{tag}:single", lambda: lc(one), one))
        for n in (1, 2, 3, 7):
            items = rand_items(rng, lc, n)
            keep = list(items)
            tl = run(f"{tag}:items{n}", lambda: lc(items), items)
            emit(f"{tag}:items{n}:same-objects", len(items) == len(keep) and all(a is b for a, b in zip(items, keep)))
            observe(f"{tag}:items{n}", tl)
            run(f"{tag}:from-list{n}", lambda: lc(tl), tl)
            emit(f"{tag}:from-list{n}:shares-df", lc(tl).df is tl.df)
            run(f"{tag}:from-df{n}", lambda: lc(tl.df), tl)
            emit(f"{tag}:from-df{n}:shares-df", lc(tl.df).df is tl.df)
            # ordered insertions of junk at random places: the first 5 bad types are reported
            for nbad in (1, 2, 5, 6, 9):
                mixed = list(items)
                for _ in range(nbad):
                    mixed.insert(rng.randint(0, len(mixed)), rng.choice(junk_pool))
                before = list(mixed)
                run(f"{tag}:mixed{n}+{nbad}", lambda: lc(mixed))
                emit(f"{tag}:mixed{n}+{nbad}:input-same", len(mixed) == len(before) and all(a is b for a, b in zip(mixed, before)))
            only_bad = [rng.choice(junk_pool) for _ in range(rng.randint(1, 8))]
            run(f"{tag}:only-bad{n}", lambda: lc(only_bad))
        # foreign but Timed items are accepted
        foreign = [Timed(offset=3.0), Bpm(offset=1.0, bpm=120.0), Hit(offset=-1.0, column=2), Hold(offset=0.0, column=1, length=5.0)]
        observe(f"{tag}:foreign", run(f"{tag}:foreign", lambda: lc(foreign)))
        # not a List / Timed / frame: nothing is set
        for name, other in (("tuple", tuple(rand_items(rng, lc, 2))), ("gen", (x for x in [])), ("None", None), ("int", 3), ("dict", {})):
            o = run(f"{tag}:other-{name}:ctor", lambda: type(lc(other)).__name__)
            run(f"{tag}:other-{name}:df", lambda: lc(other).df)
            run(f"{tag}:other-{name}:len", lambda: len(lc(other)))
    digest()


main()
