"""Demo for refactoring 1: TimingMap.offsets / TimingMap.snaps (un-sorting of results).

Run as:  cd /tmp/wt7/C10 && PYTHONPATH=/tmp/wt7/C10 /venv/bin/python demo.py
Prints one line `DIGEST <sha256>` over a canonical dump of every result.
"""
import hashlib
import logging
import random
from copy import deepcopy
from fractions import Fraction

import numpy as np
import pandas as pd

from reamber.algorithms.timing.TimingMap import TimingMap
from reamber.algorithms.timing.utils.BpmChangeOffset import BpmChangeOffset
from reamber.algorithms.timing.utils.BpmChangeSnap import BpmChangeSnap
from reamber.algorithms.timing.utils.Snapper import Snapper
from reamber.algorithms.timing.utils.snap import Snap

logging.disable(logging.CRITICAL)
random.seed(20261001)

OUT = []


def canon(x):
    """Canonical text of a value including its exact type."""
    if isinstance(x, np.ndarray):
        return "ndarray[%s,%s,%s](%s)" % (
            x.dtype,
            x.shape,
            "C" if x.flags["C_CONTIGUOUS"] else "-",
            ",".join(canon(e) for e in x.tolist())
            if x.dtype != object
            else ",".join(canon(e) for e in x),
        )
    if isinstance(x, pd.Series):
        return "Series[%s,%s](%s)" % (x.dtype, list(x.index), canon(x.to_numpy()))
    if isinstance(x, Snap):
        return "Snap(%s,%s,%s)" % (canon(x.measure), canon(x.beat), canon(x.metronome))
    if isinstance(x, (BpmChangeOffset,)):
        return "BCO(%s,%s,%s)" % (canon(x.bpm), canon(x.metronome), canon(x.offset))
    if isinstance(x, (BpmChangeSnap,)):
        return "BCS(%s,%s,%s)" % (canon(x.bpm), canon(x.metronome), canon(x.snap))
    if isinstance(x, (list, tuple)):
        return "%s(%s)" % (type(x).__name__, ",".join(canon(e) for e in x))
    if isinstance(x, float):
        return "%s:%s" % (type(x).__name__, float(x).hex())
    return "%s:%r" % (type(x).__name__, x)


def record(label, fn):
    try:
        res = fn()
        OUT.append("%s => %s" % (label, canon(res)))
        return res
    except Exception as e:  # noqa
        OUT.append("%s => EXC %s: %s" % (label, type(e).__name__, e))
        return None


def rand_bpm():
    k = random.random()
    if k < 0.3:
        return random.choice([60, 90, 120, 150, 175, 200, 240, 60000])
    if k < 0.6:
        return round(random.uniform(30, 400), random.choice([0, 1, 2, 3]))
    if k < 0.8:
        return np.float64(random.uniform(1, 1000))
    return random.uniform(0.5, 2000)


def rand_initial_offset():
    return random.choice(
        [0, 0.0, -1500, -37.25, 12, 1234.5, random.uniform(-5000, 5000), -0.001]
    )


def tm_from_snaps(n, const_metronome=None):
    """Tempo changes that all lie on measure boundaries."""
    measure = 0
    bcs_s = []
    for i in range(n):
        metro = const_metronome or random.randint(1, 8)
        bcs_s.append(BpmChangeSnap(rand_bpm(), metro, Snap(measure, 0, metro)))
        measure += random.randint(1, 6)
    random.shuffle(bcs_s)
    return TimingMap.from_bpm_changes_snap(rand_initial_offset(), bcs_s)


def tm_from_offsets(n):
    """Tempo changes at arbitrary ms positions (unsorted on purpose)."""
    o = rand_initial_offset()
    bco_s = []
    for i in range(n):
        bco_s.append(BpmChangeOffset(rand_bpm(), random.randint(1, 8), o))
        o += random.choice([250, 1000, 333.333, random.uniform(1, 5000), 4000])
    random.shuffle(bco_s)
    return TimingMap.from_bpm_changes_offset(bco_s)


def rand_snap_queries(tm, k):
    last = tm.bpm_changes_snap()[-1].snap.measure
    pool = []
    for _ in range(k):
        metro = random.randint(1, 8)
        den = random.choice([1, 2, 3, 4, 6, 8, 12, 16, 48, 96, 192])
        beat = Fraction(random.randrange(0, metro * den), den)
        pool.append(Snap(random.randint(0, last + 4), beat, metro))
    # duplicates + the tempo-change positions themselves
    pool += random.choices(pool, k=max(1, k // 3))
    pool += [deepcopy(b.snap) for b in tm.bpm_changes_snap()]
    random.shuffle(pool)
    return pool


def rand_offset_queries(tm, k):
    first = tm.bpm_changes_offset[0].offset
    last = tm.bpm_changes_offset[-1].offset
    pool = [random.uniform(first, last + 5000) for _ in range(k)]
    pool += random.choices(pool, k=max(1, k // 3))
    pool += [b.offset for b in tm.bpm_changes_offset]
    # points just before / after each tempo change
    pool += [b.offset + d for b in tm.bpm_changes_offset[1:] for d in (-1e-6, 1e-6, 0.5)]
    pool = [p for p in pool if p >= first]
    random.shuffle(pool)
    return pool


snapper = Snapper()
case = 0
for n in [1, 1, 2, 2, 3, 3, 4, 5, 6, 8]:
    for builder in (tm_from_snaps, tm_from_offsets):
        for rep in range(3):
            case += 1
            tm = builder(n)
            tag = "case%03d[%s,n=%d]" % (case, builder.__name__, n)
            OUT.append("%s bco=%s" % (tag, canon(tm.bpm_changes_offset)))
            record(tag + " bcs", tm.bpm_changes_snap)

            # --- offsets(): snaps -> ms
            sq = rand_snap_queries(tm, random.choice([1, 2, 5, 17, 40]))
            sq_before = canon(sq)
            offs = record(tag + " offsets", lambda: tm.offsets(sq))
            OUT.append("%s offsets-arg-unchanged %s" % (tag, sq_before == canon(sq)))
            OUT.append("%s offsets-arg-after %s" % (tag, canon(sq)))
            record(tag + " offsets(tuple)", lambda: tm.offsets(tuple(sq)))
            record(tag + " offsets(sorted)", lambda: tm.offsets(sorted(sq)))
            record(tag + " offsets(rev)", lambda: tm.offsets(sorted(sq)[::-1]))
            record(tag + " offsets(obj-ndarray)", lambda: tm.offsets(np.array(sq)))

            # --- snaps(): ms -> snaps, and round trip
            if offs is not None:
                back = record(tag + " snaps(roundtrip)", lambda: tm.snaps(offs, snapper))
                OUT.append("%s roundtrip-arg-after %s" % (tag, canon(offs)))
                if back is not None:
                    record(tag + " offsets(snaps(..))", lambda: tm.offsets(back))
            oq = rand_offset_queries(tm, random.choice([1, 3, 9, 30]))
            oq_copy = list(oq)
            record(tag + " snaps(list)", lambda: tm.snaps(oq, snapper))
            OUT.append("%s snaps-arg-unchanged %s" % (tag, oq == oq_copy))
            record(tag + " snaps(ndarray)", lambda: tm.snaps(np.array(oq), snapper))
            ser = pd.Series(oq, index=range(10, 10 + len(oq)))
            record(tag + " snaps(Series)", lambda: tm.snaps(ser, snapper))
            OUT.append("%s snaps-series-after %s" % (tag, canon(ser)))
            ints = [int(q) for q in oq if int(q) >= tm.bpm_changes_offset[0].offset]
            record(tag + " snaps(ints)", lambda: tm.snaps(ints, snapper))
            record(tag + " snaps(coarse)", lambda: tm.snaps(oq, Snapper((1, 2, 4))))

            # --- edge cases
            record(tag + " offsets([])", lambda: tm.offsets([]))
            record(tag + " snaps([])", lambda: tm.snaps([], snapper))
            record(tag + " offsets(single)", lambda: tm.offsets([sq[0]]))
            record(tag + " snaps(single)", lambda: tm.snaps([oq[0]], snapper))
            record(tag + " offsets(all-dupes)", lambda: tm.offsets([sq[0]] * 5))
            record(tag + " snaps(all-dupes)", lambda: tm.snaps([oq[0]] * 5, snapper))
            first = tm.bpm_changes_offset[0].offset
            # queries before the first tempo change (outside the domain: exceptions)
            record(tag + " snaps(before-first)",
                   lambda: tm.snaps([first + 10, first - 1, first + 20], snapper))
            record(tag + " offsets(before-first)",
                   lambda: tm.offsets([sq[0], Snap(-1, 0, None), sq[-1]]))
            record(tag + " snaps(nan)", lambda: tm.snaps([first + 1, float("nan")], snapper))
            OUT.append("%s bco-after=%s" % (tag, canon(tm.bpm_changes_offset)))

# an empty timing map
record("empty-tm offsets", lambda: TimingMap(bpm_changes_offset=[]).offsets([Snap(0, 0, 4)]))
record("empty-tm snaps", lambda: TimingMap(bpm_changes_offset=[]).snaps([0.0], snapper))

import os
if os.environ.get("DEMO_DUMP"):
    open(os.environ["DEMO_DUMP"], "w").write("\n".join(OUT))
print("DIGEST " + hashlib.sha256("\n".join(OUT).encode()).hexdigest())
