"""Demo for the BMSMap._write_notes refactoring (property C05).

Builds several dozen in-memory BMS charts from the quantified domain (4/4 tempo
points on measure lines, any lane of the chosen layout, on-grid and off-grid
times, no two objects in one (lane, grid slot), known / unknown / no samples),
writes them with every channel layout and digests

  * the written bytes (or the type of the raised exception),
  * the note block returned by _write_notes itself,
  * the chart read back from the written bytes (values, dtypes, columns, labels),
  * the in-memory chart AFTER writing (must not be modified).

Prints one line: DIGEST <sha256>
"""
import hashlib
import random
import warnings
from fractions import Fraction
from pathlib import Path

import numpy as np

from reamber.algorithms.timing import TimingMap
from reamber.algorithms.timing.utils.BpmChangeOffset import BpmChangeOffset
from reamber.algorithms.timing.utils.Snapper import Snapper
from reamber.bms import BMSMap, BMSHit, BMSHold
from reamber.bms.BMSBpm import BMSBpm
from reamber.bms.BMSChannel import BMSChannel
from reamber.bms.lists import BMSBpmList
from reamber.bms.lists.notes import BMSHitList, BMSHoldList

warnings.simplefilter("ignore")
random.seed(50505)

OUT = []


def emit(*parts):
    OUT.append(" | ".join(str(p) for p in parts))


def dump_df(tag, df):
    emit(tag, "columns", list(df.columns), "dtypes", [str(t) for t in df.dtypes])
    emit(tag, "index", list(df.index))
    for row in df.itertuples(index=True):
        emit(tag, "row", [repr(v) for v in row])


def dump_map(tag, m):
    dump_df(tag + ".hits", m.hits.df)
    dump_df(tag + ".holds", m.holds.df)
    dump_df(tag + ".bpms", m.bpms.df)
    emit(tag, "meta", repr(m.title), repr(m.artist), repr(m.version))
    emit(tag, "lnobj", repr(m.ln_end_channel), "samples", repr(m.samples))
    emit(tag, "misc", repr(m.misc), "exbpms", repr(m.exbpms))


LAYOUTS = {
    "BMS": BMSChannel.BMS,
    "BME": BMSChannel.BME,
    "PMS": BMSChannel.PMS,
    "PMS_BME": BMSChannel.PMS_BME,
    "PMS_5B": BMSChannel.PMS_5B,
}


def lanes_of(layout):
    return sorted(v for v in layout.values() if isinstance(v, int))


DIVS = [1, 2, 3, 4, 5, 6, 7, 8, 9, 12, 16, 24, 32, 48]


def make_bpms(n, first_bpm=None):
    """n 4/4 tempo points, every one on a measure line"""
    bpms, offset, measure = [], 0.0, 0
    for i in range(n):
        bpm = first_bpm if (i == 0 and first_bpm) else random.choice(
            [60, 90, 120, 128, 150, 174.5, 180, 200, 222.22, 240, 300]
        )
        bpms.append((measure, offset, bpm))
        gap = random.randint(1, 3)
        measure += gap
        offset += gap * 4 * 60000 / bpm
    return bpms


def time_of(bpms, measure, beat):
    """Offset of a (measure, beat) position under the tempo points"""
    active = [b for b in bpms if b[0] <= measure][-1]
    return active[1] + ((measure - active[0]) * 4 + beat) * 60000 / active[2]


def make_chart(n_bpm, n_hit, n_hold, layout, off_grid=0.25, samples=None,
               shuffle=True, last_measure=None, first_bpm=None):
    bpms = make_bpms(n_bpm, first_bpm)
    lanes = lanes_of(layout)
    end = last_measure if last_measure is not None else bpms[-1][0] + 3
    samples = samples or {}
    names = list(samples.values()) + [b"", b"", b"unknown.wav"]

    def position():
        measure = random.randint(0, end)
        if random.random() < off_grid:
            beat = random.random() * 4
        else:
            d = random.choice(DIVS)
            beat = float(Fraction(random.randrange(0, 4 * d), d))
        return time_of(bpms, measure, beat)

    hits = [(position(), random.choice(lanes), random.choice(names))
            for _ in range(n_hit)]
    holds = []
    for _ in range(n_hold):
        a, b = position(), position()
        if a == b:
            continue
        holds.append((min(a, b), random.choice(lanes), abs(a - b),
                      random.choice(names)))

    # Keep the chart inside the domain: one object per (lane, grid slot).
    tm = TimingMap.from_bpm_changes_offset(
        [BpmChangeOffset(bpm=b, metronome=4, offset=o) for _, o, b in bpms]
    )
    snapper = Snapper()
    taken = set()

    def free(lane, *times):
        keys = [(lane, s.measure, s.beat) for s in tm.snaps(list(times), snapper)]
        if len(set(keys)) < len(keys) or any(k in taken for k in keys):
            return False
        taken.update(keys)
        return True

    hits = [h for h in hits if free(h[1], h[0])]
    holds = [h for h in holds if free(h[1], h[0], h[0] + h[2])]
    if shuffle:
        random.shuffle(hits)
        random.shuffle(holds)

    m = BMSMap()
    m.bpms = BMSBpmList([BMSBpm(o, b) for _, o, b in bpms])
    m.hits = BMSHitList([BMSHit(o, c, sample=s) for o, c, s in hits])
    m.holds = BMSHoldList([BMSHold(o, c, l, sample=s) for o, c, l, s in holds])
    m.samples = dict(samples)
    return m


def run(tag, m, layout, **kwargs):
    try:
        notes = m._write_notes(note_channel_config=layout, **kwargs)
        emit(tag, "notes", notes.hex())
    except Exception as e:  # noqa
        emit(tag, "notes raised", type(e).__name__)
    try:
        data = m.write(note_channel_config=layout, **kwargs)
        emit(tag, "write", data.hex())
    except Exception as e:  # noqa
        emit(tag, "write raised", type(e).__name__)
        data = None
    dump_map(tag + ".after", m)
    if data is not None:
        try:
            back = BMSMap.read(data.decode("shift_jis").split("\r\n"), layout)
            dump_map(tag + ".back", back)
        except Exception as e:  # noqa
            emit(tag, "read back raised", type(e).__name__)


SAMPLES = {b"01": b"kick.wav", b"02": b"snare.wav", b"0Z": b"hat.wav",
           b"ZZ": b"tail.wav", b"A0": b"clap.wav"}

# 1. random charts over all layouts, sizes and sample settings
case = 0
for name, layout in LAYOUTS.items():
    for n_bpm, n_hit, n_hold in [(1, 0, 0), (1, 1, 0), (1, 0, 1), (1, 12, 4),
                                 (2, 30, 10), (5, 60, 25), (9, 120, 40)]:
        case += 1
        m = make_chart(n_bpm, n_hit, n_hold, layout,
                       samples=SAMPLES if case % 2 else None,
                       off_grid=[0.0, 0.25, 1.0][case % 3])
        run(f"rand{case}.{name}", m, layout)

# 2. dense single measure: many grid sizes share each (measure, channel)
for k in range(6):
    layout = BMSChannel.BME
    m = make_chart(1, 80, 20, layout, off_grid=0.1 * k, last_measure=0,
                   samples=SAMPLES)
    run(f"dense{k}", m, layout)
    run(f"dense{k}.default", m, layout, no_sample_default=b"0Y")

# 3. sorted rows, ties across lanes at one time, objects at time 0
m = make_chart(3, 40, 10, BMSChannel.PMS_BME, shuffle=False)
run("sorted", m, BMSChannel.PMS_BME)
m = BMSMap()
m.bpms = BMSBpmList([BMSBpm(0, 150), BMSBpm(3200, 75)])
m.hits = BMSHitList([BMSHit(t, c) for t in (0, 400, 3200, 3600.5)
                     for c in range(7)])
m.holds = BMSHoldList([BMSHold(0, 7, 800), BMSHold(800, 8, 2400),
                       BMSHold(3200, 9, 100)])
run("ties", m, BMSChannel.BME)

# 4. the LNOBJ id / default sample interplay
m = make_chart(2, 20, 6, BMSChannel.BME, samples=SAMPLES)
run("lnobj.equal", m, BMSChannel.BME, no_sample_default=b"ZZ")
m.ln_end_channel = b"0Z"
run("lnobj.0Z", m, BMSChannel.BME)
run("lnobj.0Z.equal", m, BMSChannel.BME, no_sample_default=b"0Z")
m.ln_end_channel = b""
run("lnobj.none.holds", m, BMSChannel.BME)
m.holds = BMSHoldList([])
run("lnobj.none.noholds", m, BMSChannel.BME)

# 5. lane outside the layout, measure beyond 999
m = make_chart(1, 10, 2, BMSChannel.BME)
run("lane.outside", m, BMSChannel.PMS_5B)
m = BMSMap()
m.bpms = BMSBpmList([BMSBpm(0, 240)])
m.hits = BMSHitList([BMSHit(999 * 1000, 0), BMSHit(999 * 1000 + 500, 1)])
run("measure.999", m, BMSChannel.BME)
m.hits = BMSHitList([BMSHit(1000 * 1000, 0)])
run("measure.1000", m, BMSChannel.BME)

# 6. many tempo points (two-digit base 36 ids over several measures)
m = make_chart(80, 50, 10, BMSChannel.BMS, off_grid=0.1)
run("bpm80", m, BMSChannel.BMS)

# 7. charts read from files, written back
ROOT = Path(__file__).resolve().parent
for root in (Path.cwd(), ROOT):
    bms_dir = root / "tests" / "unit_tests" / "bms"
    if bms_dir.is_dir():
        break
for file, layout in [("take.bms", BMSChannel.BMS), ("map_write.bme", BMSChannel.BME)]:
    m = BMSMap.read_file(bms_dir / file, layout)
    # A slice keeps the run time reasonable
    m.hits = m.hits[:150]
    m.holds = m.holds[:60]
    run("file." + file, m, layout)

print("DIGEST", hashlib.sha256("\n".join(OUT).encode()).hexdigest())
