"""Override audit: what a rule decided on a base class holds for a subclass only if the subclass does not replace it.

The rules of C16 / C12 decide the list and chart operations where they are *defined*
(TimedList, HoldList, Map ...).  Every concrete game class reaches those operations through
its MRO, so a method of the same name defined lower in the hierarchy silently takes the
place of the decided one.  This module enumerates, on the current tree, every such
re-definition under the base hierarchies and classifies it:

  delegation   the body only forwards its own parameters to ``super().<same name>``
               (optionally returning the result) -> the decided behaviour is inherited
  decided      the (class, method) pair is itself the anchor of a rule (table DECIDED,
               each entry names the rule) -> that rule speaks for it
  otherwise    the replacement is not covered by any rule and changes what the decided
               operation does for that class -> violation at the override

Plain data accessors are audited the same way: ``df`` (a field: the getter returns the
stored frame, the setter stores the value it is given) and the accessors the four
decorators of Property.py generate (a hand-written property of the same name in a
decorated class replaces the generated one).
"""
from __future__ import annotations

import ast
from typing import Dict, List, Optional, Tuple

from .. import report as R
from .common import unparse

LIST_ROOT = "reamber.base.lists.TimedList.TimedList"
MAP_ROOT = "reamber.base.Map.Map"
MAPSET_ROOT = "reamber.base.MapSet.MapSet"
ITEM_ROOT = "reamber.base.Series.Series"

# (class, method) pairs that are themselves decided by a rule (the rule id is quoted in the evidence)
DECIDED: Dict[Tuple[str, str], str] = {
    ("reamber.base.lists.notes.HoldList.HoldList", "last_offset"): "C16.R3",
    ("reamber.base.lists.notes.HoldList.HoldList", "first_last_offset"): "C16.R3",
    ("reamber.base.lists.notes.HoldList.HoldList", "after"): "C16.R6",
    ("reamber.base.lists.notes.HoldList.HoldList", "before"): "C16.R6",
    ("reamber.base.lists.notes.HoldList.HoldList", "between"): "C16.R6",
    ("reamber.osu.OsuMap.OsuMap", "rate"): "C13.R1 (rate model follows the super chain)",
    ("reamber.sm.SMMapSet.SMMapSet", "rate"): "C13.R1 (rate model follows the super chain)",
}
# methods of the chart classes that no property's rules speak about (presentation only)
UNDECIDED_OK = {"metadata", "describe", "__repr__", "__str__"}
# operations of the roots that rules decide; only re-definitions of these matter
LIST_OPS = None  # every method of the reamber.base list classes
MAP_OPS = {"stack", "rate", "deepcopy", "__getitem__", "__setitem__", "__iter__", "__len__", "__post_init__", "__init__"}


def _body(fn: ast.FunctionDef) -> List[ast.stmt]:
    b = list(fn.body)
    if b and isinstance(b[0], ast.Expr) and isinstance(b[0].value, ast.Constant) and isinstance(b[0].value.value, str):
        b = b[1:]
    return [s for s in b if not (isinstance(s, ast.AnnAssign) and s.value is None)]


def _is_stub(fn: ast.FunctionDef) -> bool:
    decos = {unparse(d).split(".")[-1] for d in fn.decorator_list}
    if decos & {"overload", "abstractmethod"}:
        return True
    b = _body(fn)
    return all(isinstance(s, ast.Pass) or (isinstance(s, ast.Expr) and isinstance(s.value, ast.Constant) and s.value.value is Ellipsis)
               or isinstance(s, ast.Raise) for s in b) and bool(b or fn.body)


def is_delegation(fn: ast.FunctionDef, name: Optional[str] = None) -> Tuple[bool, str]:
    """body == [return] super().<name>(<own parameters, each forwarded unchanged>)"""
    name = name or fn.name
    b = _body(fn)
    if len(b) != 1:
        return False, f"{len(b)} statements"
    s = b[0]
    call = s.value if isinstance(s, (ast.Return, ast.Expr)) else None
    if not (isinstance(call, ast.Call) and isinstance(call.func, ast.Attribute) and call.func.attr == name and
            isinstance(call.func.value, ast.Call) and unparse(call.func.value.func) == "super"):
        return False, "does not forward to super()." + name
    a = fn.args
    own = [x.arg for x in a.posonlyargs + a.args + a.kwonlyargs]
    if own and own[0] in ("self", "cls"):
        own = own[1:]
    fwd = []
    for x in call.args:
        if isinstance(x, ast.Starred) and isinstance(x.value, ast.Name) and a.vararg and x.value.id == a.vararg.arg:
            continue
        if not isinstance(x, ast.Name):
            return False, f"argument '{unparse(x)}' is not a parameter passed on unchanged"
        fwd.append(x.id)
    for k in call.keywords:
        if k.arg is None:
            if not (isinstance(k.value, ast.Name) and a.kwarg and k.value.id == a.kwarg.arg):
                return False, f"'**{unparse(k.value)}' is not the own **kwargs"
            continue
        if not (isinstance(k.value, ast.Name) and k.value.id == k.arg and k.arg in own) and not (
                isinstance(k.value, ast.Name) and k.value.id in own):
            return False, f"argument '{k.arg}={unparse(k.value)}' is not a parameter passed on unchanged"
        fwd.append(k.value.id)
    if sorted(fwd) != sorted(own):
        return False, f"parameters {sorted(set(own) - set(fwd))} are not passed on"
    return True, ""


def _defs(cls_node: ast.ClassDef) -> Dict[str, List[ast.FunctionDef]]:
    out: Dict[str, List[ast.FunctionDef]] = {}
    for n in cls_node.body:
        if isinstance(n, (ast.FunctionDef, ast.AsyncFunctionDef)):
            out.setdefault(n.name, []).append(n)
    return out


def _role(fn: ast.FunctionDef) -> str:
    for d in fn.decorator_list:
        t = unparse(d)
        if t == "property" or t.endswith("cached_property"):
            return "getter" if t == "property" else "cached"
        if t.endswith(".setter"):
            return "setter"
    return "method"


def _field_accessor_ok(fn: ast.FunctionDef, role: str, store: str) -> Tuple[bool, str]:
    """getter: `return self.<store>`; setter: `self.<store> = <value parameter>`"""
    b = _body(fn)
    if role == "getter":
        ok = len(b) == 1 and isinstance(b[0], ast.Return) and b[0].value is not None and unparse(b[0].value) == f"self.{store}"
        return ok, "" if ok else "the getter does more than return the stored frame"
    if role == "setter":
        val = fn.args.args[1].arg if len(fn.args.args) > 1 else None
        ok = len(b) == 1 and isinstance(b[0], ast.Assign) and len(b[0].targets) == 1 and \
            unparse(b[0].targets[0]) == f"self.{store}" and isinstance(b[0].value, ast.Name) and b[0].value.id == val
        return ok, "" if ok else "the setter does more than store the frame it is given"
    return False, f"'{role}' accessor"


def _attach_reach(M, insts: List[R.Inst], *roots) -> None:
    """a dependent property inherits an override instance when its call-graph closure reaches the override itself or the
    definition it replaces (the closure resolves calls on statically unknown receivers to the base definition)"""
    by_short = {}
    for r in roots:
        for c in M.subclasses(r):
            by_short.setdefault(c.split(".")[-1], c)
    for i in insts:
        cn, _, rest = i.key.partition(".")
        name = rest.split(":")[0]
        c = by_short.get(cn)
        if not c:
            continue
        quals = [f"{k}.{name}" for k in M.mro(c) if k in M.classes]
        i.reach = tuple(q for q in quals if q in M.funcs) or (f"{c}.{name}",)


def list_override_insts(ctx, rid: str) -> List[R.Inst]:
    """every re-definition of a reamber.base list operation below the class a rule decides it on"""
    M = ctx.M
    insts: List[R.Inst] = _list_override_insts(ctx, rid)
    _attach_reach(M, insts, LIST_ROOT)
    return insts


def _list_override_insts(ctx, rid: str) -> List[R.Inst]:
    M = ctx.M
    insts: List[R.Inst] = []
    classes = [c for c in M.subclasses(LIST_ROOT)]
    for c in sorted(classes):
        node = M.classes[c].node
        file = M.mods[M.classes[c].mod].rel
        cols = None
        for name, fns in sorted(_defs(node).items()):
            real = [f for f in fns if not _is_stub(f)]
            if not real:
                continue
            # the `df` field, on the root and on every subclass
            if name == "df" or any(_role(f) == "cached" for f in real):
                for f in real:
                    role = _role(f)
                    key = f"{c.split('.')[-1]}.{name}:{role}"
                    if role == "cached":
                        insts.append(R.viol(rid, key, file, f.lineno,
                                            f"'{name}' is computed once and kept (cached_property): the generated column setters and "
                                            f"chart slot assignment change the frame in place / swap it on the same list object, so the "
                                            f"kept value goes stale", construct=f"cached {c.split('.')[-1]}.{name}"))
                        continue
                    ok, why = _field_accessor_ok(f, role, "_df")
                    insts.append(R.ok(rid, key, file, f.lineno, idiom="plain field over _df") if ok else
                                 R.viol(rid, key, file, f.lineno,
                                        f"{c.split('.')[-1]}.df is the frame every rule reasons about; {why}",
                                        construct=unparse(_body(f)[0])[:120] if _body(f) else "empty"))
                continue
            if c == LIST_ROOT:
                continue
            base = None
            for b in M.mro(c)[1:]:
                if b in M.classes and name in _defs(M.classes[b].node) and any(not _is_stub(x) for x in _defs(M.classes[b].node)[name]):
                    base = b
                    break
            gen = False
            if base is None:
                # a hand-written accessor with the name of a generated column accessor
                if cols is None:
                    try:
                        cols = set(M.list_columns(c))
                    except Exception:
                        cols = set()
                if name in cols and any(_role(f) in ("getter", "setter") for f in real):
                    gen = True
                else:
                    continue
            elif not base.startswith("reamber.base."):
                continue  # a game's own hierarchy (e.g. Quaver from_yaml/to_yaml), decided by that game's rules
            for f in real:
                role = _role(f)
                key = f"{c.split('.')[-1]}.{name}" + ("" if role == "method" else f":{role}")
                if gen:
                    ok, why = _field_accessor_ok(f, role, f"df['{name}']")
                    b = _body(f)
                    if role == "getter" and len(b) == 1 and isinstance(b[0], ast.Return) and b[0].value is not None and \
                            unparse(b[0].value) in (f"self.df['{name}']", f"self.df.{name}", f'self.df["{name}"]'):
                        ok = True
                    insts.append(R.ok(rid, key, file, f.lineno, idiom="same as the generated accessor") if ok else
                                 R.viol(rid, key, file, f.lineno,
                                        f"a hand-written '{name}' replaces the accessor list_props generates for the declared column "
                                        f"'{name}' (which reads / writes df['{name}'] and nothing else)",
                                        construct=f"{key} replaces generated accessor"))
                    continue
                if (c, name) in DECIDED:
                    insts.append(R.ok(rid, key, file, f.lineno, idiom=f"decided by {DECIDED[(c, name)]}"))
                    continue
                ok, why = is_delegation(f, name)
                if ok:
                    insts.append(R.ok(rid, key, file, f.lineno, idiom=f"forwards to {base.split('.')[-1]}.{name}"))
                else:
                    insts.append(R.viol(rid, key, file, f.lineno,
                                        f"{c.split('.')[-1]} replaces {base.split('.')[-1]}.{name}, which the list rules decide on "
                                        f"{base.split('.')[-1]}, with a body that is not a plain forward to it ({why}): every "
                                        f"{c.split('.')[-1]} and its subclasses now run the replacement",
                                        construct=f"{c.split('.')[-1]}.{name} overrides {base.split('.')[-1]}.{name}: {why}"))
    return insts


def map_override_insts(ctx, rid: str, ops=MAP_OPS) -> List[R.Inst]:
    """re-definitions of the decided chart / chart-set operations below Map and MapSet"""
    M = ctx.M
    insts: List[R.Inst] = []
    for i in _map_override_insts(ctx, rid, ops):
        insts.append(i)
    _attach_reach(M, insts, MAP_ROOT, MAPSET_ROOT)
    return insts


def _map_override_insts(ctx, rid: str, ops) -> List[R.Inst]:
    M = ctx.M
    insts: List[R.Inst] = []
    for root in (MAP_ROOT, MAPSET_ROOT):
        for c in sorted(M.subclasses(root)):
            if c == root:
                continue
            node = M.classes[c].node
            file = M.mods[M.classes[c].mod].rel
            for name, fns in sorted(_defs(node).items()):
                if name not in ops or name in UNDECIDED_OK:
                    continue
                real = [f for f in fns if not _is_stub(f)]
                base = next((b for b in M.mro(c)[1:] if b in M.classes and name in _defs(M.classes[b].node) and
                             b.startswith("reamber.base.")), None)
                if not real or base is None:
                    continue
                for f in real:
                    key = f"{c.split('.')[-1]}.{name}"
                    if (c, name) in DECIDED:
                        insts.append(R.ok(rid, key, file, f.lineno, idiom=f"decided by {DECIDED[(c, name)]}"))
                        continue
                    ok, why = is_delegation(f, name)
                    if ok:
                        insts.append(R.ok(rid, key, file, f.lineno, idiom=f"forwards to {base.split('.')[-1]}.{name}"))
                    else:
                        insts.append(R.viol(rid, key, file, f.lineno,
                                            f"{c.split('.')[-1]} replaces {base.split('.')[-1]}.{name}, which is decided on "
                                            f"{base.split('.')[-1]}, with a body that is not a plain forward to it ({why})",
                                            construct=f"{c.split('.')[-1]}.{name} overrides {base.split('.')[-1]}.{name}: {why}"))
    return insts
