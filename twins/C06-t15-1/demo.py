"""Demonstration for C06 / k=1: QuaHitList.to_yaml (also reached via QuaMap.write()).

Prints ONE line: sha256 over a canonical text of all results, their types/dtypes,
exception types, and the state of the inputs afterwards.
Run:  cd /tmp/r15/C06 && PYTHONPATH=/tmp/r15/C06 /venv/bin/python demo.py
"""
import hashlib
import sys
import warnings

import numpy as np
import pandas as pd

import reamber
from reamber.quaver.QuaHit import QuaHit
from reamber.quaver.QuaHold import QuaHold
from reamber.quaver.QuaBpm import QuaBpm
from reamber.quaver.QuaSv import QuaSv
from reamber.quaver.QuaMap import QuaMap
from reamber.quaver.lists.notes.QuaHitList import QuaHitList
from reamber.quaver.lists.notes.QuaHoldList import QuaHoldList
from reamber.quaver.lists.QuaBpmList import QuaBpmList
from reamber.quaver.lists.QuaSvList import QuaSvList
from reamber.osu.OsuMap import OsuMap
from reamber.osu.OsuHit import OsuHit
from reamber.osu.OsuHold import OsuHold
from reamber.osu.OsuBpm import OsuBpm
from reamber.osu.lists.notes.OsuHitList import OsuHitList
from reamber.osu.lists.notes.OsuHoldList import OsuHoldList
from reamber.osu.lists.OsuBpmList import OsuBpmList
from reamber.sm.SMMapSet import SMMapSet
from reamber.sm.SMMap import SMMap
from reamber.sm.SMHit import SMHit
from reamber.sm.SMHold import SMHold
from reamber.sm.SMBpm import SMBpm
from reamber.sm.lists.notes.SMHitList import SMHitList
from reamber.sm.lists.notes.SMHoldList import SMHoldList
from reamber.sm.lists.SMBpmList import SMBpmList
from reamber.algorithms.convert.OsuToQua import OsuToQua
from reamber.algorithms.convert.SMToQua import SMToQua

print(reamber.__file__, file=sys.stderr)
warnings.simplefilter("ignore")

RNG = np.random.RandomState(20260615)
OUT = []


def emit(*parts):
    OUT.append(" | ".join(str(p) for p in parts))


def canon_value(v):
    return f"{type(v).__module__}.{type(v).__name__}:{v!r}"


def canon_records(recs):
    lines = [f"{type(recs).__name__} len={len(recs)}"]
    for r in recs:
        lines.append(
            type(r).__name__
            + "{"
            + ", ".join(f"{k!r}->{canon_value(v)}" for k, v in r.items())
            + "}"
        )
    return "\n".join(lines)


def canon_df(df):
    return "\n".join(
        [
            f"cols={list(df.columns)!r}",
            f"dtypes={[str(d) for d in df.dtypes]!r}",
            f"index={type(df.index).__name__}:{list(df.index)!r}",
            "rows=" + repr([[canon_value(v) for v in row] for row in df.to_numpy(dtype=object).tolist()]),
        ]
    )


def run_list(name, hl):
    """Calls to_yaml on a QuaHitList; records result, exceptions, input state."""
    df_obj = hl.df
    before = canon_df(df_obj)
    cells_before = (
        [id(v) for v in df_obj["keysounds"]] if "keysounds" in df_obj.columns else []
    )
    try:
        recs = hl.to_yaml()
        emit(name, "result", canon_records(recs))
        # are the KeySounds cells the very objects stored in the list's frame?
        if "keysounds" in df_obj.columns:
            shared = [
                id(r.get("KeySounds")) == c for r, c in zip(recs, cells_before)
            ]
            emit(name, "shared_cells", shared)
        # a second call gives an equal, independent answer
        recs2 = hl.to_yaml()
        emit(name, "repeat_equal", canon_records(recs2) == canon_records(recs), recs2 is recs)
    except Exception as e:  # noqa
        emit(name, "raised", type(e).__module__ + "." + type(e).__name__)
    emit(name, "same_df_object", hl.df is df_obj)
    emit(name, "input_unchanged", canon_df(hl.df) == before)
    emit(name, "input_after", canon_df(hl.df))


def run_map(name, m):
    before = {k: canon_df(v.df) for k, v in m.objs.items()}
    try:
        text = m.write()
        emit(name, "write", type(text).__name__, text)
        back = QuaMap.read(text)
        emit(name, "reread_hits", canon_df(back.hits.df))
        emit(name, "reread_holds", canon_df(back.holds.df))
        emit(name, "rewrite_equal", back.write() == text)
    except Exception as e:  # noqa
        emit(name, "raised", type(e).__module__ + "." + type(e).__name__)
    after = {k: canon_df(v.df) for k, v in m.objs.items()}
    emit(name, "inputs_unchanged", after == before)


def rand_keysounds():
    n = RNG.randint(0, 3)
    return [f"s{RNG.randint(0, 9)}.wav" for _ in range(n)]


def rand_hits(n, keys, fractional=False, negative=False):
    offs = RNG.uniform(-5000 if negative else 0, 60000, n)
    if not fractional:
        offs = np.round(offs)
    return [
        QuaHit(offset=float(o), column=int(RNG.randint(0, keys)), keysounds=rand_keysounds())
        for o in offs
    ]


# ---------------------------------------------------------------- direct lists
case = 0


def nm(label):
    global case
    case += 1
    return f"L{case:02d}:{label}"


run_list(nm("empty"), QuaHitList([]))
run_list(nm("single"), QuaHitList(QuaHit(offset=1000, column=0, keysounds=[])))
for keys in (1, 4, 5, 7, 8, 10):
    run_list(nm(f"keys{keys}"), QuaHitList(rand_hits(RNG.randint(2, 9), keys)))
for keys in (4, 7):
    run_list(nm(f"fractional_negative_keys{keys}"),
             QuaHitList(rand_hits(RNG.randint(3, 9), keys, fractional=True, negative=True)))

# unsorted & sorted & reversed
base = QuaHitList(rand_hits(8, 4, fractional=True))
run_list(nm("unsorted"), base)
run_list(nm("sorted"), base.sorted())
run_list(nm("sorted_reverse"), base.sorted(reverse=True))

# non-default row labels after a filter / slice / boolean mask
run_list(nm("filtered_after"), base.after(20000))
run_list(nm("filtered_between"), base.between(5000, 50000))
run_list(nm("filtered_mask"), base[base.column >= 2])
run_list(nm("filtered_to_empty"), base[base.column >= 99])
run_list(nm("slice"), base[2:6])

# duplicated row labels (concat without renumbering)
dup = QuaHitList(pd.concat([base.df, base.df]))
run_list(nm("duplicate_labels"), dup)
run_list(nm("append"), base.append(QuaHit(offset=1.75, column=3, keysounds=["x.wav"])))

# frames built by hand: dtypes and extra / missing / reordered columns
run_list(nm("int_dtypes"), QuaHitList(pd.DataFrame(
    dict(offset=[3, 1, 2], column=[0, 1, 2], keysounds=[[], ["a"], []]))))
run_list(nm("float_column"), QuaHitList(pd.DataFrame(
    dict(offset=[3.9, -1.9, 2.5], column=[0.0, 1.0, 2.0], keysounds=[[], ["a"], []]))))
run_list(nm("fractional_lane"), QuaHitList(pd.DataFrame(
    dict(offset=[3.9, -0.5], column=[0.7, -0.2], keysounds=[[], []]))))
run_list(nm("bool_column"), QuaHitList(pd.DataFrame(
    dict(offset=[1.0, 2.0], column=[True, False], keysounds=[[], []]))))
run_list(nm("object_dtypes"), QuaHitList(pd.DataFrame(
    dict(offset=pd.Series([1, 2.5], dtype=object), column=pd.Series([1, 2], dtype=object),
         keysounds=[[], ["k"]]))))
run_list(nm("string_offset"), QuaHitList(pd.DataFrame(
    dict(offset=["12", "34"], column=[0, 1], keysounds=[[], []]))))
run_list(nm("string_column"), QuaHitList(pd.DataFrame(
    dict(offset=[1, 2], column=["0", "1"], keysounds=[[], []]))))
run_list(nm("bad_string_offset"), QuaHitList(pd.DataFrame(
    dict(offset=["a", "b"], column=[0, 1], keysounds=[[], []]))))
run_list(nm("reordered_cols"), QuaHitList(pd.DataFrame(
    dict(keysounds=[["a"], []], column=[2, 3], offset=[10.0, 20.0]))))
run_list(nm("extra_index_col_nan_keysounds"), QuaHitList(pd.DataFrame(
    dict(index=[5, 6], offset=[10.0, 20.0], column=[2, 3], keysounds=[np.nan, np.nan]))))
run_list(nm("extra_yaml_named_col"), QuaHitList(pd.DataFrame(
    dict(offset=[10.0], column=[2], keysounds=[[]], StartTime=[7], Lane=["z"]))))
run_list(nm("no_keysounds"), QuaHitList(pd.DataFrame(dict(offset=[10.0], column=[2]))))
run_list(nm("nan_offset"), QuaHitList(pd.DataFrame(
    dict(offset=[np.nan, 1.0], column=[0, 1], keysounds=[[], []]))))
run_list(nm("nan_column"), QuaHitList(pd.DataFrame(
    dict(offset=[0.0, 1.0], column=[np.nan, 1], keysounds=[[], []]))))
run_list(nm("inf_offset"), QuaHitList(pd.DataFrame(
    dict(offset=[np.inf, 1.0], column=[0, 1], keysounds=[[], []]))))
run_list(nm("missing_column"), QuaHitList(pd.DataFrame(dict(offset=[0.0], keysounds=[[]]))))
run_list(nm("missing_offset"), QuaHitList(pd.DataFrame(dict(column=[0], keysounds=[[]]))))
run_list(nm("missing_both"), QuaHitList(pd.DataFrame(dict(keysounds=[[]]))))
run_list(nm("huge_offset"), QuaHitList(pd.DataFrame(
    dict(offset=[2.0 ** 40 + 0.5, -2.0 ** 40 - 0.5], column=[0, 1], keysounds=[[], []]))))
run_list(nm("named_columns_axis"), QuaHitList(pd.DataFrame(
    dict(offset=[1.5], column=[1], keysounds=[["q"]])).rename_axis("props", axis=1)))
run_list(nm("string_row_labels"), QuaHitList(pd.DataFrame(
    dict(offset=[1.5, 0.5], column=[1, 0], keysounds=[["q"], []]), index=["b", "a"])))
run_list(nm("empty_with_extra"), QuaHitList(pd.DataFrame(
    dict(index=pd.Series([], dtype=int), offset=pd.Series([], dtype=float),
         column=pd.Series([], dtype=int), keysounds=pd.Series([], dtype=object)))))
run_list(nm("from_dict"), QuaHitList.from_dict(dict(offset=[5, 4.5], column=[1, 0])))
run_list(nm("empty_rows"), QuaHitList.empty(3))
run_list(nm("from_yaml_defaults"), QuaHitList.from_yaml(
    [dict(Lane=3), dict(StartTime=12.25, Lane=1, KeySounds=[dict(Sample=1, Volume=50)]),
     dict(StartTime=-4, Lane=9, EditorLayer=2)]))

# ---------------------------------------------------------------- whole charts
case = 0


def mm(label):
    global case
    case += 1
    return f"M{case:02d}:{label}"


def rand_holds(n, keys, fractional=False):
    out = []
    for _ in range(n):
        o = RNG.uniform(-2000, 60000)
        ln = RNG.choice([0.0, RNG.uniform(0, 3000)])
        if not fractional:
            o, ln = round(o), round(ln)
        out.append(QuaHold(offset=float(o), column=int(RNG.randint(0, keys)),
                           length=float(ln), keysounds=rand_keysounds()))
    return out


def rand_qua(keys, n_hits, n_holds, fractional):
    m = QuaMap()
    m.hits = QuaHitList(rand_hits(n_hits, keys, fractional=fractional, negative=True))
    m.holds = QuaHoldList(rand_holds(n_holds, keys, fractional=fractional))
    m.bpms = QuaBpmList([QuaBpm(offset=0, bpm=float(RNG.randint(60, 240)))])
    m.svs = QuaSvList([QuaSv(offset=float(RNG.randint(0, 9999)), multiplier=1.5)] if RNG.rand() < .5 else [])
    m.title = str(RNG.choice(["plain", "colon: inside", "#hash", "'quoted'", "- dash", "multi\nline", "ユニコード", "yes", "123", ""]))
    m.artist = str(RNG.choice(["a", "[brackets]", "{braces}", "null", "~", "@at", "%pct", " lead", "trail "]))
    m.tags = [str(t) for t in RNG.choice(["x", "y: z", "#1", "true"], RNG.randint(0, 3))]
    return m


for keys, nh, nl, frac in [(4, 6, 3, False), (7, 5, 5, True), (4, 0, 4, False), (4, 5, 0, True),
                           (8, 3, 2, False), (5, 4, 1, True), (4, 0, 0, False), (1, 2, 2, True)]:
    run_map(mm(f"qua_keys{keys}_h{nh}_l{nl}_frac{frac}"), rand_qua(keys, nh, nl, frac))

# charts that reach the writer through a converter
for keys in (4, 7):
    osu = OsuMap()
    osu.circle_size = keys
    osu.title, osu.artist, osu.version, osu.creator = "t: x", "a#b", "v", "c"
    osu.hits = OsuHitList([OsuHit(offset=float(o), column=int(RNG.randint(0, keys)))
                           for o in RNG.uniform(0, 30000, 6)])
    osu.holds = OsuHoldList([OsuHold(offset=float(o), column=int(RNG.randint(0, keys)), length=float(l))
                             for o, l in zip(RNG.uniform(0, 30000, 4), [0.0, 10.5, 300.0, 999.9])])
    osu.bpms = OsuBpmList([OsuBpm(offset=0, bpm=150)])
    q = OsuToQua.convert(osu)
    run_list(mm(f"osu_to_qua_hits_keys{keys}"), q.hits)
    run_map(mm(f"osu_to_qua_keys{keys}"), q)
    # converted hits after a filter
    q.hits = q.hits.after(10000)
    run_map(mm(f"osu_to_qua_filtered_keys{keys}"), q)

sms = SMMapSet()
sms.title, sms.artist = "set: title", "art"
for i, keys in enumerate((4, 7)):
    sm = SMMap()
    sm.hits = SMHitList([SMHit(offset=float(o), column=int(RNG.randint(0, keys)))
                         for o in RNG.uniform(0, 20000, 5)])
    sm.holds = SMHoldList([SMHold(offset=float(o), column=int(RNG.randint(0, keys)), length=float(RNG.uniform(0, 500)))
                           for o in RNG.uniform(0, 20000, 3)])
    sm.bpms = SMBpmList([SMBpm(offset=0, bpm=120 + 30 * i)])
    sm.difficulty = f"diff{i}"
    sms.maps.append(sm)
try:
    quas = SMToQua.convert(sms)
    emit("SM", "n_maps", len(quas))
    for i, q in enumerate(quas):
        run_list(mm(f"sm_to_qua_hits_{i}"), q.hits)
        run_map(mm(f"sm_to_qua_{i}"), q)
except Exception as e:  # noqa
    emit("SM", "raised", type(e).__module__ + "." + type(e).__name__)

text = "\n".join(OUT)
print(f"cases={len([l for l in OUT if ' | result | ' in l or ' | raised' in l or ' | write | ' in l])}", file=sys.stderr)
print(hashlib.sha256(text.encode("utf-8")).hexdigest())
if len(sys.argv) > 1:
    open(sys.argv[1], "w", encoding="utf-8").write(text)
