"""Behaviour digest for the StepMania reader (property C02).

Generates a deterministic, broad family of .sm texts (no #STOPS, measures
with a multiple-of-4 number of rows, tempo changes on the 1/48 beat grid),
reads them with SMMapSet.read and dumps everything observable into a sha256.
Also drives the lower-level entry points (SMMap.read, SMMapSetMeta._read_bpms,
TimingMap.from_bpm_changes_snap / offsets) directly, including error cases
and checks that inputs are left unmodified.

Prints one line:  DIGEST <hex>
"""
import hashlib
import logging
import random
from copy import deepcopy
from fractions import Fraction

import numpy as np
import pandas as pd

from reamber.algorithms.timing.TimingMap import TimingMap
from reamber.algorithms.timing.utils.BpmChangeSnap import BpmChangeSnap
from reamber.algorithms.timing.utils.snap import Snap
from reamber.sm.SMMap import SMMap
from reamber.sm.SMMapSet import SMMapSet
from reamber.sm.SMMapSetMeta import SMMapSetMeta
from reamber.sm.lists.SMStopList import SMStopList

SEED = 20260202
N_GEN = 40
N_SMMAP = 20
N_TM = 150
OUT = []


def emit(*parts):
    OUT.append(" ".join(str(p) for p in parts))


# --------------------------------------------------------------------------
# canonical dumping
# --------------------------------------------------------------------------
def canon(v):
    if isinstance(v, (bool, np.bool_)):
        return f"bool:{bool(v)}"
    if isinstance(v, (float, np.floating)):
        return f"{type(v).__name__}:{float(v).hex()}"
    if isinstance(v, (int, np.integer)):
        return f"{type(v).__name__}:{int(v)}"
    if isinstance(v, Fraction):
        return f"Fraction:{v.numerator}/{v.denominator}"
    if isinstance(v, Snap):
        return f"Snap({canon(v.measure)},{canon(v.beat)},{canon(v.metronome)})"
    if isinstance(v, (list, tuple)):
        return type(v).__name__ + "[" + ",".join(canon(x) for x in v) + "]"
    if v is None:
        return "None"
    return f"{type(v).__name__}:{v!r}"


def dump_df(name, df: pd.DataFrame):
    emit("  DF", name, "shape", df.shape)
    emit("    columns", list(df.columns))
    emit("    dtypes", [str(t) for t in df.dtypes])
    emit("    index", type(df.index).__name__, str(df.index.dtype), list(df.index))
    for c in df.columns:
        emit("    col", c, [canon(x) for x in df[c].tolist()])


def dump_bcs(bcs_s):
    if bcs_s is None:
        return "None"
    return [
        (canon(b.bpm), canon(b.metronome), canon(b.snap)) for b in bcs_s
    ]


def dump_tm(tm: TimingMap):
    return [
        (canon(b.bpm), canon(b.metronome), canon(b.offset))
        for b in tm.bpm_changes_offset
    ]


class LogCatcher(logging.Handler):
    def __init__(self):
        super().__init__()
        self.records = []

    def emit(self, record):
        self.records.append((record.levelname, record.getMessage()))


CATCH = LogCatcher()
logging.getLogger().addHandler(CATCH)
logging.getLogger().setLevel(logging.DEBUG)


def logs():
    r = list(CATCH.records)
    CATCH.records.clear()
    return r


MS_FIELDS = [
    "title", "subtitle", "artist", "title_translit", "subtitle_translit",
    "artist_translit", "genre", "credit", "banner", "background",
    "lyrics_path", "cd_title", "music", "offset", "sample_start",
    "sample_length", "display_bpm", "selectable", "bg_changes", "fg_changes",
]
MAP_FIELDS = ["chart_type", "description", "difficulty", "difficulty_val",
              "groove_radar"]
LISTS = ["hits", "holds", "rolls", "mines", "lifts", "fakes", "keysounds",
         "bpms", "stops"]


def dump_map(m: SMMap):
    for f in MAP_FIELDS:
        emit("  MAPFIELD", f, canon(getattr(m, f)))
    emit("  OBJKEYS", list(m.objs.keys()))
    for ln in LISTS:
        lst = getattr(m, ln)
        emit("  LIST", ln, type(lst).__name__, len(lst))
        dump_df(ln, lst.df)


def dump_mapset(ms: SMMapSet):
    for f in MS_FIELDS:
        emit(" MSFIELD", f, canon(getattr(ms, f)))
    emit(" NMAPS", len(ms.maps))
    for i, m in enumerate(ms.maps):
        emit(" MAP", i, type(m).__name__)
        dump_map(m)


def run_read(tag, text):
    """Read a text (str or list of lines), dump result or exception type."""
    emit("CASE", tag, "sha", hashlib.sha256(repr(text).encode()).hexdigest()[:16])
    before = deepcopy(text)
    try:
        ms = SMMapSet.read(text)
    except Exception as e:  # noqa
        emit(" RAISED", type(e).__name__)
    else:
        dump_mapset(ms)
    emit(" LOGS", logs())
    emit(" INPUT_UNCHANGED", text == before, type(text).__name__)


# --------------------------------------------------------------------------
# generator of .sm texts inside the quantified domain
# --------------------------------------------------------------------------
CHARTS = [
    ("dance-single", 4), ("dance-double", 8), ("dance-solo", 6),
    ("dance-threepanel", 3), ("kb7-single", 7), ("pump-single", 5),
    ("dance-couple", 4), ("dance-routine", 8), ("pnm-nine", 9),
    ("techno-double8", 16), ("bm-single7", 8), ("kickbox-human", 4),
    ("my-custom-18", 18), ("lonely-1", 1),
]
ROWS = [4, 8, 12, 16, 24, 32, 48, 64, 96, 192, 20, 28]
DIFFS = ["Beginner", "Easy", "Medium", "Hard", "Challenge", "Edit"]
SINGLE = ["1", "M", "L", "F", "K"]


def gen_chart_rows(rng, keys, n_measures, density, sloppy):
    """Return list of measures, each a list of row strings."""
    open_hold = [None] * keys  # None or the head char
    measures = []
    for mi in range(n_measures):
        n_rows = rng.choice(ROWS)
        rows = []
        for ri in range(n_rows):
            row = []
            for k in range(keys):
                if open_hold[k] is not None:
                    if rng.random() < 0.25:
                        row.append("3")
                        open_hold[k] = None
                    else:
                        row.append("0")
                elif rng.random() < density:
                    ch = rng.choice(SINGLE + ["2", "4", "1", "1"])
                    if ch in "24":
                        open_hold[k] = ch
                    row.append(ch)
                else:
                    row.append("0")
            rows.append("".join(row))
        measures.append(rows)
    # close the holds that are still open in an extra measure
    if any(h is not None for h in open_hold):
        rows = ["".join("3" if h is not None else "0" for h in open_hold)]
        rows += ["0" * keys] * 3
        measures.append(rows)
    return measures


def fmt_measures(rng, measures, sloppy):
    parts = []
    for mi, rows in enumerate(measures):
        lines = []
        if sloppy and rng.random() < 0.5:
            lines.append(f"  // measure {mi}")
        for r in rows:
            pad = "  " if sloppy and rng.random() < 0.3 else ""
            tail = "  // c, o; m: ment" if sloppy and rng.random() < 0.1 else ""
            lines.append(pad + r + tail)
            if sloppy and rng.random() < 0.15:
                lines.append("")
            if sloppy and rng.random() < 0.05:
                lines.append("   ")
        parts.append("\n".join(lines))
    return "\n,\n".join(parts) if not sloppy else ",\n".join(parts)


def gen_bpms(rng, n_beats_total, mode):
    """Tempo changes on the 1/48 grid. mode: single/measure/beat/fine."""
    out = [(Fraction(0), rng.choice([60, 90.5, 120, 150, 174.25, 200, 333.333]))]
    if mode == "single":
        return out
    n = rng.randint(1, 4)
    used = {Fraction(0)}
    for _ in range(n):
        if mode == "measure":
            b = Fraction(4 * rng.randint(1, max(1, n_beats_total // 4)))
        elif mode == "beat":
            b = Fraction(rng.randint(1, max(1, n_beats_total)))
        else:
            b = Fraction(rng.randint(1, max(1, 48 * n_beats_total)), 48)
        if b in used:
            continue
        used.add(b)
        out.append((b, rng.choice([45, 75, 100, 128, 140.5, 180, 222.22, 400])))
    return out


def fmt_beat(b: Fraction):
    # StepMania writes beats with 3 to 6 decimals
    return f"{float(b):.6f}"


def gen_sm(rng, i):
    sloppy = rng.random() < 0.5
    n_charts = rng.choice([1, 1, 2, 3, 4])
    charts = []
    max_measures = 0
    for c in range(n_charts):
        ct, keys = rng.choice(CHARTS)
        n_measures = rng.choice([1, 2, 3, 5, 8])
        density = rng.choice([0.0, 0.02, 0.1, 0.3])
        measures = gen_chart_rows(rng, keys, n_measures, density, sloppy)
        max_measures = max(max_measures, len(measures))
        charts.append((ct, keys, measures))
    mode = rng.choice(["single", "measure", "beat", "fine", "fine"])
    bpms = gen_bpms(rng, 4 * max_measures, mode)
    if rng.random() < 0.3:
        rng.shuffle(bpms)  # unsorted #BPMS
    head = []
    if sloppy:
        head.append("// generated file; with: odd, comment")
    head.append(f"#TITLE:Song {i};")
    head.append(f"#SUBTITLE:sub{i};")
    head.append(f"#ARTIST:Art {i % 3};")
    if rng.random() < 0.5:
        head.append(f"#TITLETRANSLIT:T{i};")
        head.append(f"#CREDIT:c{i};")
        head.append("#MUSIC:a.ogg;")
    off_mode = rng.choice(["pos", "neg", "zero", "none", "pos"])
    if off_mode == "pos":
        head.append(f"#OFFSET:{rng.randint(1, 5000) / 1000:.3f};")
    elif off_mode == "neg":
        head.append(f"#OFFSET:-{rng.randint(1, 5000) / 1000:.3f};")
    elif off_mode == "zero":
        head.append("#OFFSET:0.000;")
    sep = ",\n" if sloppy else ","
    head.append("#BPMS:" + sep.join(f"{fmt_beat(b)}={v}" for b, v in bpms) + ";")
    if rng.random() < 0.5:
        head.append("#STOPS:;")
    if rng.random() < 0.5:
        head.append(f"#SAMPLESTART:{rng.randint(0, 90000) / 1000:.3f};")
        head.append(f"#SAMPLELENGTH:{rng.randint(1, 20000) / 1000:.3f};")
        head.append("#SELECTABLE:" + rng.choice(["YES", "NO"]) + ";")
        head.append("#DISPLAYBPM:*;")
    body = []
    for ci, (ct, keys, measures) in enumerate(charts):
        if sloppy:
            body.append(f"//--------------- {ct} - ----------------")
        radar = ",".join(
            f"{rng.randint(0, 1000) / 1000:.3f}" for _ in range(rng.choice([5, 5, 10]))
        )
        body.append("#NOTES:")
        body.append(f"     {ct}:")
        body.append(f"     desc{ci}:")
        body.append(f"     {rng.choice(DIFFS)}:")
        body.append(f"     {rng.randint(1, 25)}:")
        body.append(f"     {radar}:")
        body.append(fmt_measures(rng, measures, sloppy))
        body.append(";")
    return "\n".join(head + body) + "\n"


def hand_sm(notes, chart="dance-single", bpms="0.000=120.000", offset="0.000",
            extra=""):
    return (
        "#TITLE:h;\n"
        + (f"#OFFSET:{offset};\n" if offset is not None else "")
        + (f"#BPMS:{bpms};\n" if bpms is not None else "")
        + extra
        + f"#NOTES:\n {chart}:\n d:\n Hard:\n 9:\n 0,0,0,0,0:\n{notes}\n;\n"
    )


# --------------------------------------------------------------------------
def section_generated():
    rng = random.Random(SEED)
    for i in range(N_GEN):
        text = gen_sm(rng, i)
        run_read(f"gen{i}", text)
        if i % 7 == 0:
            # the same file handed over as a list of lines
            run_read(f"gen{i}-lines", text.split("\n"))


def section_handmade():
    z = "0000\n0000\n0000\n0000"
    cases = {
        "empty-chart": hand_sm(z),
        "empty-chart-3": hand_sm(",".join([z] * 3)),
        "single-hit": hand_sm("1000\n0000\n0000\n0000"),
        "all-symbols": hand_sm("1M2L\n00F0\nK030\n4000,\n3000\n0000\n0000\n000K"),
        "hold-across": hand_sm("2000\n0400\n0000\n0000,\n0000\n0000\n3000\n0300"),
        "roll-and-hold-same-col": hand_sm("2000\n3000\n4000\n3000"),
        "hold-zero-gap-192": hand_sm("\n".join(["2000", "3000"] + ["0000"] * 190)),
        "tail-no-head": hand_sm("3000\n0000\n0000\n0000"),
        "tail-twice": hand_sm("2000\n3000\n3000\n0000"),
        "open-hold": hand_sm("2000\n0000\n0000\n0000"),
        "open-roll": hand_sm("0004\n0000\n0000\n0000"),
        "open-hold-after-closed": hand_sm("2000\n3000\n2000\n0000"),
        "unknown-char": hand_sm("9000\n0x00\n0000\n1000"),
        "unknown-char-only": hand_sm("9000\n0000\n0000\n0000"),
        "wide-18": hand_sm("\n".join(["1" * 18] + ["0" * 18] * 3), chart="x"),
        "wide-19-hit": hand_sm("\n".join(["0" * 18 + "1"] + ["0" * 19] * 3), chart="x"),
        "wide-19-tail": hand_sm("\n".join(["0" * 18 + "3"] + ["0" * 19] * 3), chart="x"),
        "wide-19-unknown": hand_sm("\n".join(["0" * 18 + "9"] + ["0" * 19] * 3), chart="x"),
        "ragged-rows": hand_sm("10\n0100\n001\n0001"),
        "no-bpms": hand_sm(z, bpms=None),
        "no-offset": hand_sm("1000\n0100\n0010\n0001", offset=None),
        "bpm-not-at-0": hand_sm(z, bpms="1.000=120.000"),
        "bpm-bad": hand_sm(z, bpms="0.000=abc"),
        "bpm-bad2": hand_sm(z, bpms="0.000"),
        "bpm-dup-beat": hand_sm("1000\n0100\n0010\n0001,\n1111\n0000\n0000\n0000",
                                bpms="0.000=120.000,4.000=100.000,4.000=200.000"),
        "bpm-mid-measure": hand_sm(
            ",".join(["1000\n0100\n0010\n0001"] * 4),
            bpms="0.000=120.000,2.000=240.000,5.500=60.000,9.020833=180.000"),
        "bpm-unsorted": hand_sm(
            ",".join(["1001\n0100\n0010\n0001"] * 3),
            bpms="8.000=90.000,0.000=100.000,4.000=200.000"),
        "bpm-after-end": hand_sm("1000\n0000\n0000\n0001", bpms="0.000=100.000,40.000=50.000"),
        "neg-offset": hand_sm("1000\n0000\n0000\n0001", offset="-1.500"),
        "bad-meta": "#TITLE:h;\n#BPMS:0.000=120;\n#NOTES:\n dance-single:\n d:\n Hard:\n x:\n 0:\n0000\n;\n",
        "short-meta": "#TITLE:h;\n#BPMS:0.000=120;\n#NOTES:\n dance-single:\n d:\n0000\n;\n",
        "no-charts": "#TITLE:only meta;\n#OFFSET:1.000;\n#BPMS:0.000=120.000;\n",
        "empty-text": "",
        "stops-empty": hand_sm("1000\n0000\n0000\n0000", extra="#STOPS:;\n"),
        "comment-everywhere": hand_sm(
            "// lead\n1000 // a;b:c,d\n\n0100\n   \n0010//x\n0001\n,  // m2\n2222\n0000\n3333\n0000\n"),
        "trailing-comma": hand_sm("1000\n0000\n0000\n0000,\n"),
        "two-charts": hand_sm("1000\n0000\n0000\n0000")
        + "#NOTES:\n dance-double:\n e:\n Easy:\n 2:\n 1,2,3,4,5:\n10000001\n00000000\n02000000\n03000000\n;\n",
        "crlf": hand_sm("1000\n0100\n0010\n0001").replace("\n", "\r\n"),
    }
    for tag, text in cases.items():
        run_read("hand-" + tag, text)
    run_read("hand-lines-empty", [])
    run_read("hand-lines", hand_sm("1000\n0100\n0010\n0001").split("\n"))


def section_smmap_read():
    """SMMap.read called directly, arguments must be left alone."""
    rng = random.Random(SEED + 1)
    for i in range(N_SMMAP):
        n = rng.randint(1, 4)
        beats = sorted({Fraction(0)} | {Fraction(rng.randint(1, 48 * 12), 48) for _ in range(n)})
        bcs_s = [BpmChangeSnap(rng.choice([100, 150.5, 200]), 4, Snap(0, b, 4)) for b in beats]
        if i % 3 == 0:
            rng.shuffle(bcs_s)
        ct, keys = rng.choice(CHARTS)
        measures = gen_chart_rows(rng, keys, rng.randint(1, 4), 0.2, False)
        s = f"#NOTES:\n {ct}:\n d:\n Edit:\n 3:\n 0,0,0,0,0:\n" + fmt_measures(rng, measures, False)
        stops = SMStopList([])
        before = dump_bcs(bcs_s)
        init = rng.choice([0.0, -250.5, 1234.0, 10])
        emit("SMMAP", i, canon(init), before)
        try:
            m = SMMap.read(s, bcs_s, init, stops)
        except Exception as e:  # noqa
            emit(" RAISED", type(e).__name__)
        else:
            dump_map(m)
        emit(" LOGS", logs())
        emit(" BCS_UNCHANGED", dump_bcs(bcs_s) == before)
        emit(" STOPS_AFTER", len(stops), list(stops.df.columns), [str(t) for t in stops.df.dtypes])


def section_read_bpms():
    cases = [
        ["0.000=120.000"],
        ["0=120", "4=240", "8.5=60"],
        ["8.5=60", "0=120", " 4 = 240 "],
        ["0.000=120.000\n", "\n4.000=100"],
        ["-4=100", "0=50"],
        ["0=0"],
        ["0=-120"],
        [],
        [""],
        ["0=1=2"],
        ["a=b"],
        ["0"],
        ["1e1=1e2", "0=nan"],
    ]
    for i, lines in enumerate(cases):
        before = list(lines)
        try:
            r = SMMapSetMeta._read_bpms(lines)
        except Exception as e:  # noqa
            emit("READBPMS", i, "RAISED", type(e).__name__)
        else:
            emit("READBPMS", i, type(r).__name__, dump_bcs(r))
        emit(" IN_UNCHANGED", lines == before)


def section_timing_map():
    rng = random.Random(SEED + 2)
    for i in range(N_TM):
        n = rng.choice([0, 0, 1, 2, 3, 6])
        kind = rng.choice(["measure", "beat", "fine"])
        beats = {Fraction(0)} if i % 10 != 9 else {Fraction(1, 48)}
        for _ in range(n):
            if kind == "measure":
                beats.add(Fraction(4 * rng.randint(1, 20)))
            elif kind == "beat":
                beats.add(Fraction(rng.randint(1, 80)))
            else:
                beats.add(Fraction(rng.randint(1, 48 * 80), 48))
        beats = list(beats)
        rng.shuffle(beats)
        bcs_s = [
            BpmChangeSnap(rng.choice([60, 100, 133.3, 180, 250.25]), 4, Snap(0, b, 4))
            for b in beats
        ]
        if i % 8 == 5 and len(bcs_s) > 1:
            bcs_s.append(deepcopy(bcs_s[0]))  # tie
        init = rng.choice([0.0, 0, -1000.25, 37.5, 100000.0, None])
        before = dump_bcs(bcs_s)
        for reseat in (False, True, None):
            emit("TM", i, kind, canon(init), "reseat", reseat)
            try:
                if reseat is None:
                    tm = TimingMap.from_bpm_changes_snap(init, bcs_s)
                else:
                    tm = TimingMap.from_bpm_changes_snap(init, bcs_s, reseat)
            except Exception as e:  # noqa
                emit(" RAISED", type(e).__name__, str(e))
            else:
                emit(" TM", type(tm).__name__, dump_tm(tm))
                if reseat is False:
                    snaps = [
                        Snap(0, Fraction(rng.randint(0, 48 * 90), 48), 4)
                        for _ in range(rng.choice([1, 5, 20]))
                    ]
                    try:
                        off = tm.offsets(snaps)
                        emit(" OFFS", str(off.dtype), [canon(x) for x in off.tolist()])
                    except Exception as e:  # noqa
                        emit(" OFFS RAISED", type(e).__name__)
            emit(" LOGS", logs())
            emit(" BCS_UNCHANGED", dump_bcs(bcs_s) == before)
    for bad in ([], None):
        for reseat in (False, True):
            try:
                TimingMap.from_bpm_changes_snap(0.0, bad, reseat)
                emit("TM-bad", bad, reseat, "OK")
            except Exception as e:  # noqa
                emit("TM-bad", bad, reseat, "RAISED", type(e).__name__)


def main():
    random.seed(SEED)
    np.random.seed(SEED % (2 ** 32))
    section_generated()
    section_handmade()
    section_smmap_read()
    section_read_bpms()
    section_timing_map()
    text = "\n".join(OUT)
    import os
    if os.environ.get("C02_DUMP"):
        with open(os.environ["C02_DUMP"], "w") as f:
            f.write(text)
    print("DIGEST", hashlib.sha256(text.encode()).hexdigest())


if __name__ == "__main__":
    main()
