"""Exercises reamber.algorithms.osu.hitsound_copy.hitsound_copy on generated
osu!mania maps and prints a digest of everything observable: the result, the
two inputs afterwards, the debug log and the raised exception types."""
import hashlib
import logging
import random
import warnings
from pathlib import Path

import numpy as np
import pandas as pd

from reamber.algorithms.osu.hitsound_copy import hitsound_copy
from reamber.osu.OsuBpm import OsuBpm
from reamber.osu.OsuHit import OsuHit
from reamber.osu.OsuHold import OsuHold
from reamber.osu.OsuMap import OsuMap
from reamber.osu.OsuSample import OsuSample
from reamber.osu.lists.OsuBpmList import OsuBpmList
from reamber.osu.lists.OsuSampleList import OsuSampleList
from reamber.osu.lists.notes.OsuHitList import OsuHitList
from reamber.osu.lists.notes.OsuHoldList import OsuHoldList

random.seed(1402)
OUT = []


def emit(*parts):
    OUT.append(" | ".join(str(p) for p in parts))


def cell(v):
    return f"{type(v).__name__}:{v!r}"


def dump_df(tag, df):
    emit(tag, "type", type(df).__name__, "shape", df.shape)
    emit(tag, "columns", list(df.columns))
    emit(tag, "dtypes", [str(t) for t in df.dtypes])
    emit(tag, "index", type(df.index).__name__, str(df.index.dtype), list(df.index))
    for label, row in zip(df.index, df.itertuples(index=False, name=None)):
        emit(tag, "row", cell(label), [cell(v) for v in row])


def dump_map(tag, m):
    emit(tag, type(m).__name__, sorted(m.objs))
    for name, lst in m.objs.items():
        emit(tag, name, type(lst).__name__)
        dump_df(f"{tag}.{name}", lst.df)
    emit(tag, "samples", type(m.samples).__name__)
    dump_df(f"{tag}.samples", m.samples.df)
    emit(tag, "meta", m.title, m.version, m.circle_size)


class Capture(logging.Handler):
    def __init__(self):
        super().__init__(level=logging.DEBUG)
        self.lines = []

    def emit(self, record):
        self.lines.append(f"{record.levelname}:{record.getMessage()}")


FILES = ["", "", "", "clap.wav", "kick.wav", "s n a r e.wav", "fx.ogg"]


def rand_meta(rich):
    if not rich:
        return {}
    d = dict(
        hitsound_set=random.choice([0, 0, 1, 2, 4, 8, 6, 10, 12, 14, 15, 3, 5, 9]),
        sample_set=random.choice([0, 0, 0, 1, 2, 3]),
        addition_set=random.choice([0, 0, 0, 1, 2]),
        custom_set=random.choice([0, 0, 0, 1, 7]),
        volume=random.choice([0, 0, 20, 30, 30, 50, 100, -10]),
        hitsound_file=random.choice(FILES),
    )
    return d


def rand_map(n_hits, n_holds, grid, keys, rich, int_offsets=False, shuffle=False,
             relabel=False, lo=0):
    m = OsuMap()
    m.circle_size = keys
    m.title = f"g{n_hits}_{n_holds}"
    cast = int if int_offsets else float
    hits = [
        OsuHit(offset=cast(lo + random.randrange(grid) * 125),
               column=random.randrange(keys), **rand_meta(rich))
        for _ in range(n_hits)
    ]
    holds = [
        OsuHold(offset=cast(lo + random.randrange(grid) * 125),
                column=random.randrange(keys),
                length=cast(random.choice([1, 125, 250, 1000])), **rand_meta(rich))
        for _ in range(n_holds)
    ]
    if shuffle:
        random.shuffle(hits)
        random.shuffle(holds)
    m.hits = OsuHitList(hits)
    m.holds = OsuHoldList(holds)
    m.bpms = OsuBpmList([OsuBpm(offset=0, bpm=120), OsuBpm(offset=4000, bpm=180.5)])
    if relabel:
        for lst in (m.hits, m.holds):
            if len(lst.df):
                lst.df = lst.df.set_axis(
                    [7 + 3 * (i % 4) for i in range(len(lst.df))], axis=0
                )
    if random.random() < 0.5:
        m.samples = OsuSampleList(
            [OsuSample(offset=float(random.randrange(grid) * 125),
                       sample_file="pre.wav", volume=40)]
        )
    return m


def run(name, src, tgt):
    cap = Capture()
    logger = logging.getLogger("reamber.algorithms.osu.hitsound_copy")
    logger.addHandler(cap)
    old_level = logger.level
    logger.setLevel(logging.DEBUG)
    emit("CASE", name)
    try:
        with warnings.catch_warnings(record=True) as caught:
            warnings.simplefilter("always")
            res = hitsound_copy(src, tgt)
        emit(name, "warnings", sorted({w.category.__name__ for w in caught}))
        dump_map(name + ".result", res)
        emit(name, "result is target", res is tgt)
        # the result is a copy: changing it must leave the target alone
        if len(res.hits.df):
            res.hits.df.iloc[0, res.hits.df.columns.get_loc("offset")] = -99999.0
        if len(res.holds.df):
            res.holds.df.iloc[0, res.holds.df.columns.get_loc("volume")] = 77
        res.samples = res.samples.append(OsuSample(offset=-5.0, sample_file="x"))
    except Exception as e:  # noqa
        emit(name, "RAISED", type(e).__name__)
    finally:
        logger.removeHandler(cap)
        logger.setLevel(old_level)
    for line in cap.lines:
        emit(name, "log", line)
    dump_map(name + ".src_after", src)
    dump_map(name + ".tgt_after", tgt)


cases = []
# generated pairs: ties on the same offset, overflow (more hitsounds than slots)
for i in range(36):
    keys = random.choice([4, 4, 7, 1, 9])
    grid = random.choice([3, 6, 12, 30])
    src = rand_map(random.randrange(0, 40), random.randrange(0, 10), grid, keys, True,
                   int_offsets=(i % 7 == 3), shuffle=(i % 2 == 0), relabel=(i % 5 == 1),
                   lo=random.choice([0, 0, -500, 1000]))
    tgt = rand_map(random.randrange(0, 40), random.randrange(0, 10), grid, keys,
                   rich=(i % 3 == 0), int_offsets=(i % 11 == 5), shuffle=(i % 3 != 0),
                   relabel=(i % 4 == 2), lo=random.choice([0, 0, -500, 1000]))
    cases.append((f"gen{i}", src, tgt))

# edge cases
cases.append(("empty_src", rand_map(0, 0, 4, 4, True), rand_map(10, 3, 4, 4, False)))
cases.append(("empty_tgt", rand_map(10, 3, 4, 4, True), rand_map(0, 0, 4, 4, False)))
cases.append(("both_empty", rand_map(0, 0, 4, 4, True), rand_map(0, 0, 4, 4, False)))
cases.append(("no_holds", rand_map(25, 0, 5, 4, True), rand_map(25, 0, 5, 4, False)))
cases.append(("only_holds", rand_map(0, 12, 5, 4, True), rand_map(0, 12, 5, 4, True)))
cases.append(("plain_src", rand_map(20, 4, 5, 4, False), rand_map(20, 4, 5, 4, True)))
cases.append(("one_slot", rand_map(30, 5, 1, 4, True), rand_map(1, 0, 1, 4, False)))
cases.append(("many_slots", rand_map(3, 0, 1, 7, True), rand_map(30, 6, 1, 7, True)))
same = rand_map(20, 5, 6, 4, True)
cases.append(("same_object", same, same))

# a source whose offsets carry NaN / a float volume / -0.0
odd = rand_map(12, 3, 4, 4, True)
odd.hits.df.loc[odd.hits.df.index[0], "offset"] = -0.0
odd.hits.df["volume"] = odd.hits.df["volume"].astype(float) + 0.5
odd_t = rand_map(12, 3, 4, 4, False)
odd_t.hits.df.loc[odd_t.hits.df.index[0], "offset"] = 0.0
odd_t.hits.df.loc[odd_t.hits.df.index[1], "offset"] = np.nan
cases.append(("odd_values", odd, odd_t))
nan_src = rand_map(8, 2, 4, 4, True)
nan_src.hits.df.loc[nan_src.hits.df.index[2], "offset"] = np.nan
cases.append(("nan_src_offset", nan_src, rand_map(8, 2, 4, 4, False)))
nan_hs = rand_map(8, 2, 4, 4, True)
nan_hs.hits.df["hitsound_set"] = nan_hs.hits.df["hitsound_set"].astype(float)
nan_hs.hits.df.loc[nan_hs.hits.df.index[2], "hitsound_set"] = np.nan
cases.append(("nan_hitsound_set", nan_hs, rand_map(8, 2, 4, 4, False)))
neg = rand_map(10, 2, 4, 4, True)
neg.hits.df["hitsound_set"] = -neg.hits.df["hitsound_set"] - 1
cases.append(("negative_hitsound_set", neg, rand_map(10, 2, 4, 4, False)))
no_file = rand_map(10, 2, 4, 4, True)
no_file.hits.df = no_file.hits.df.drop(columns=["hitsound_file"])
cases.append(("missing_column", no_file, rand_map(10, 2, 4, 4, False)))

# the maps shipped with the test-suite
here = Path("tests/algorithm_tests/osu/hitsound_copy")
cases.append(("files", OsuMap.read_file(here / "source.osu"),
              OsuMap.read_file(here / "target.osu")))
cases.append(("files_swapped", OsuMap.read_file(here / "target.osu"),
              OsuMap.read_file(here / "source.osu")))

for name, src, tgt in cases:
    run(name, src, tgt)

# applied in sequence
a = rand_map(30, 6, 8, 4, True)
b = rand_map(30, 6, 8, 4, False)
c = rand_map(30, 6, 8, 4, True)
try:
    r1 = hitsound_copy(a, b)
    r2 = hitsound_copy(r1, c)
    r3 = hitsound_copy(r2, a)
    for n, m in (("seq.r1", r1), ("seq.r2", r2), ("seq.r3", r3), ("seq.a", a),
                 ("seq.b", b), ("seq.c", c)):
        dump_map(n, m)
except Exception as e:  # noqa
    emit("seq", "RAISED", type(e).__name__)

text = "\n".join(OUT)
print("DIGEST", hashlib.sha256(text.encode("utf-8")).hexdigest())
