"""F43 (C10, known finding): Snapper uses `divisions` only through max(divisions): every denominator up to the maximum is allowed.
Run:  cd /repo && /venv/bin/python /verif/triage/probes/F43_snapper_ignores_divisions.py   (fails on the pinned tree)"""
from fractions import Fraction
from reamber.algorithms.timing.utils.Snapper import Snapper
a = Snapper((1, 2, 4)).snap(0.34)
b = Snapper().snap(1 / 11)
print(a, b)
assert a == Fraction(1, 4) and b.denominator in (1, 2, 3, 4, 5, 6, 7, 8, 9, 12, 16, 32, 64, 96), (a, b)
