"""C20 — pattern grouping partitions the notes; combinations are exactly the allowed ones (DESIGN §5 C20)."""
from __future__ import annotations

import ast
from typing import Dict, List, Optional, Tuple

from ..model import AnalysisError, walk_no_nested, params_of
from .. import report as R
from ..report import RuleSpec
from .. import codec as C
from .. import sym
from .common import as_dict, unparse, call_name, local_defs

CTL_NAME = "_sa_controls"


def short_q(q):
    return ".".join(q.split(".")[-2:])


PATTERN = "reamber.algorithms.pattern.Pattern.Pattern"
COMBO = "reamber.algorithms.pattern.combos.PtnCombo.PtnCombo"
FILTERS = "reamber.algorithms.pattern.filters.PtnFilter"


def _frame_columns(ctx) -> Tuple[List[str], ast.AST]:
    M = ctx.M
    init = M.fn(PATTERN + ".__init__")
    for n in walk_no_nested(init.node):
        if isinstance(n, ast.Call) and call_name(n) == "DataFrame" and n.args and as_dict(n.args[0]) is not None:
            return [C.const_str(k) for k in as_dict(n.args[0]).keys], n
    raise AnalysisError("Pattern.__init__: frame construction not found")


def _u(e):
    return ast.unparse(e) if e is not None else ""


def _itertuples_pos(st, n, k):
    return isinstance(st, ast.For) and isinstance(st.iter, ast.Call) and call_name(st.iter) == "itertuples" and isinstance(st.target, ast.Tuple) and \
        k < len(st.target.elts) and isinstance(st.target.elts[k], ast.Name) and st.target.elts[k].id == n


# roles of the locals the rules below talk about (sa/normal.py: with_roles).  In group() the k-th unpacked name of
# `for … in self.df.itertuples()` carries the row label (k = 0) and the (k-1)-th frame column, whatever it is called.
C20_ROLES = {
    "group": (
        ("is_grouped", lambda n, v, st: isinstance(v, ast.Call) and call_name(v) == "zeros" and "bool" in _u(v)),
        ("ar", lambda n, v, st: isinstance(v, ast.Call) and call_name(v) == "to_records"),
        ("ix", lambda n, v, st: _itertuples_pos(st, n, 0)),
        ("col", lambda n, v, st: _itertuples_pos(st, n, 1)),
        ("offset", lambda n, v, st: _itertuples_pos(st, n, 2)),
        ("ar_ungrouped", lambda n, v, st: isinstance(v, ast.Subscript) and _u(v.value) == "ar" and "is_grouped" in _u(v.slice)),
        ("mask", lambda n, v, st: isinstance(v, ast.Call) and call_name(v) == "v_mask"),
        ("df_groups", lambda n, v, st, node: isinstance(v, ast.List) and not v.elts and any(isinstance(x, ast.Return) and _u(x.value) == n for x in ast.walk(node))),
    ),
    "v_mask": (
        ("offsets", lambda n, v, st: isinstance(v, ast.Subscript) and C.const_str(v.slice) == "offset"),
        ("cols", lambda n, v, st: isinstance(v, ast.Call) and call_name(v) == "tolist" and "column" in _u(v)),
        ("mask", lambda n, v, st: isinstance(v, ast.Call) and call_name(v) == "zeros"),
        ("start", lambda n, v, st: isinstance(v, ast.Call) and call_name(v) == "bisect_left"),
        ("end", lambda n, v, st: isinstance(v, ast.Call) and call_name(v) == "bisect_right"),
        ("cols_", lambda n, v, st: isinstance(v, ast.Subscript) and _u(v.value) == "cols" and isinstance(v.slice, ast.Slice)),
    ),
    "combinations": (
        ("combos", lambda n, v, st: isinstance(v, ast.Call) and call_name(v) == "reshape" and "meshgrid" in _u(v)),
    ),
    "create": (
        ("minimum", lambda n, v, st: isinstance(v, ast.Call) and call_name(v) == "min" and isinstance(st, ast.Assign)),
        ("maximum", lambda n, v, st: isinstance(v, ast.Call) and call_name(v) == "max" and isinstance(st, ast.Assign)),
        ("freedom", lambda n, v, st: isinstance(v, ast.BinOp) and "keys" in _u(v) and "maximum" in _u(v) and "minimum" in _u(v)),
        ("freedom_delta", lambda n, v, st: isinstance(v, ast.BinOp) and "arange" in _u(v) and "freedom" in _u(v)),
    ),
    "from_note_lists": (
        ("types", lambda n, v, st, node: isinstance(v, ast.List) and not v.elts and any(
            isinstance(x, ast.keyword) and x.arg == "types" and _u(x.value) == n for x in ast.walk(node))),
    ),
}


def _rfn(ctx, q: str, **kw):
    from ..normal import with_roles
    return with_roles(ctx.M.nfn(q, **kw), C20_ROLES.get(q.rsplit(".", 1)[1], ()))



def _resolve1(scope, e):
    """a name bound exactly once in the scope -> its value (one step)"""
    if isinstance(e, ast.Name):
        ds = [x for x in ast.walk(scope) if isinstance(x, ast.Assign) and len(x.targets) == 1 and isinstance(x.targets[0], ast.Name) and x.targets[0].id == e.id]
        if len(ds) == 1:
            return ds[0].value
    return e


def rule_r1(ctx) -> List[R.Inst]:
    M = ctx.M
    rid = "C20.R1"
    insts = []
    cls = M.cls(PATTERN)
    file = M.mods[cls.mod].rel
    # every assignment to <pattern>.df in the pattern package
    n_asg = 0
    for q, fn in M.funcs.items():
        if not q.startswith("reamber.algorithms.pattern."):
            continue
        for n in walk_no_nested(fn.node):
            if isinstance(n, ast.Assign) and isinstance(n.targets[0], ast.Attribute) and n.targets[0].attr == "df" and \
                    (fn.cls == PATTERN or "Pattern" in unparse(n.targets[0].value)):
                n_asg += 1
                key = f"{fn.name}:df@{n_asg}"
                root = n.value
                calls = []
                while isinstance(root, ast.Call) and isinstance(root.func, ast.Attribute) and not (
                        root.func.attr == "DataFrame"):
                    calls.insert(0, root)
                    root = root.func.value
                srt = [c for c in calls if c.func.attr == "sort_values"]
                skey = unparse(srt[0].args[0]).strip("'\"[]") if srt and srt[0].args else None
                desc = bool(srt) and any(k.arg == "ascending" and unparse(k.value) == "False" for k in srt[0].keywords)
                fresh = (bool(srt) and any(k.arg == "ignore_index" and unparse(k.value) == "True" for k in srt[0].keywords)) or \
                    any(c.func.attr == "reset_index" and any(k.arg == "drop" and unparse(k.value) == "True" for k in c.keywords)
                        for c in calls[calls.index(srt[0]):] if srt)
                probs = []
                if not srt or skey != "offset" or desc:
                    probs.append(f"the frame is not sorted ascending by offset (sort key {skey!r}{' descending' if desc else ''}): "
                                 f"group() bisects the offsets and walks the rows as 'earliest ungrouped note first'")
                if not fresh:
                    probs.append("the frame keeps the labels of the unsorted rows: group() uses the itertuples label as a position "
                                 "into is_grouped")
                f2 = M.mods[fn.mod].rel
                if probs:
                    insts.append(R.viol(rid, key, f2, n.lineno, "; ".join(probs), construct=unparse(n)[:160]))
                else:
                    insts.append(R.ok(rid, key, f2, n.lineno, idiom="sort_values('offset', ignore_index=True)"))
    if n_asg == 0:
        insts.append(R.undec(rid, "df-assignments", file, cls.node.lineno, "no assignment to Pattern.df found"))
    # positional unpack of itertuples in group(): (label, column, offset, ...) = (index,) + frame columns
    cols, node = _frame_columns(ctx)
    g = _rfn(ctx, PATTERN + ".group")
    loops = [n for n in walk_no_nested(g.node) if isinstance(n, ast.For) and isinstance(n.iter, ast.Call) and
             call_name(n.iter) == "itertuples"]
    if len(loops) != 1 or not isinstance(loops[0].target, ast.Tuple):
        insts.append(R.undec(rid, "row-unpack", file, g.node.lineno, "itertuples loop of group() not found"))
    else:
        names = [t.id if isinstance(t, ast.Name) else "*" for t in loops[0].target.elts]
        idx = not any(k.arg == "index" and unparse(k.value) == "False" for k in loops[0].iter.keywords)
        want = (["<label>"] if idx else []) + cols
        # what each unpacked variable is USED as: the reference offset of v_mask, the reference column of h_mask, the position into
        # the grouped flags — it must sit at the position of that column in the rows
        used_as = {}
        for x in ast.walk(loops[0]):
            if isinstance(x, ast.Call) and call_name(x) == "v_mask" and len(x.args) >= 2 and isinstance(x.args[1], ast.Name):
                used_as[x.args[1].id] = "offset"
            if isinstance(x, ast.Call) and call_name(x) == "h_mask" and len(x.args) >= 2 and isinstance(x.args[1], ast.Name):
                used_as[x.args[1].id] = "column"
            if isinstance(x, ast.If) and isinstance(x.test, ast.Subscript) and isinstance(x.test.slice, ast.Name):
                used_as[x.test.slice.id] = "<label>"
        got = [used_as.get(nm, "*") for nm in names]
        ok_ = all(g_ == w for g_, w in zip(got, want) if g_ != "*") and len([g_ for g_ in got if g_ != "*"]) >= 2
        insts.append(R.ok(rid, "row-unpack", file, loops[0].lineno, idiom=f"{names} <- {want}") if ok_ else
                     R.viol(rid, "row-unpack", file, loops[0].lineno,
                            f"rows are unpacked positionally as {names} but the frame yields {want}", construct=f"{names} vs {want}"))
    # field names used on the record arrays exist
    used = []
    for q in (PATTERN + ".v_mask", PATTERN + ".h_mask", COMBO + ".combinations"):
        fn = M.fn(q)
        for n in walk_no_nested(fn.node):
            if isinstance(n, ast.Subscript) and C.const_str(n.slice) and isinstance(n.value, ast.Name) and n.value.id in ("ar", "combos"):
                used.append((C.const_str(n.slice), fn, n))
    bad = [(c, fn, n) for c, fn, n in used if c not in cols]
    if bad:
        c, fn, n = bad[0]
        insts.append(R.viol(rid, "record-fields", M.mods[fn.mod].rel, n.lineno,
                            f"field '{c}' is read from the note records, whose fields are {cols}", construct=unparse(n)))
    else:
        insts.append(R.ok(rid, "record-fields", file, node.lineno, idiom=f"{sorted({c for c, _, _ in used})} ⊆ {cols}"))
    return insts


def rule_r2(ctx) -> List[R.Inst]:
    M = ctx.M
    rid = "C20.R2"
    g = _rfn(ctx, PATTERN + ".group")
    file = M.mods[g.mod].rel
    loops = [n for n in walk_no_nested(g.node) if isinstance(n, ast.For) and isinstance(n.iter, ast.Call) and
             call_name(n.iter) == "itertuples"]
    if len(loops) != 1:
        return [R.undec(rid, "group-loop", file, g.node.lineno, "loop of group() not found")]
    lp = loops[0]
    body = lp.body
    insts = []
    lab = lp.target.elts[0].id if isinstance(lp.target, ast.Tuple) and isinstance(lp.target.elts[0], ast.Name) else "?"
    # (a) skip rows already grouped, first thing in the body
    first = body[0]
    if isinstance(first, ast.If) and unparse(first.test) == f"is_grouped[{lab}]" and isinstance(first.body[0], ast.Continue):
        insts.append(R.ok(rid, "skip-grouped", file, first.lineno, idiom="if is_grouped[label]: continue"))
    else:
        insts.append(R.viol(rid, "skip-grouped", file, first.lineno,
                            "a note that already belongs to a group must not start another one (every note in exactly one group)",
                            construct=unparse(first)[:100]))
    # (b) ungrouped view taken before marking; the same mask marks and is appended
    idx = {}
    # the positions of the notes not grouped yet, as a mask (~is_grouped) or as indices (np.flatnonzero(~is_grouped)), possibly named
    def ungrouped(e) -> bool:
        e = _resolve1(lp, e)
        t_ = unparse(e).replace(" ", "")
        return t_ in ("~is_grouped", "np.flatnonzero(~is_grouped)", "np.where(~is_grouped)[0]", "np.nonzero(~is_grouped)[0]")
    index_mark = None
    for i, s in enumerate(body):
        t = unparse(s)
        if isinstance(s, ast.Assign) and unparse(s.targets[0]) == "ar_ungrouped":
            idx["view"] = (i, s)
        if isinstance(s, ast.AugAssign) and isinstance(s.target, ast.Subscript) and unparse(s.target.value) == "is_grouped" and ungrouped(s.target.slice):
            idx["mark"] = (i, s)
        # index form of the same marking: is_grouped[<ungrouped positions>[mask]] = True
        if isinstance(s, ast.Assign) and isinstance(s.targets[0], ast.Subscript) and unparse(s.targets[0].value) == "is_grouped" and \
                isinstance(s.targets[0].slice, ast.Subscript) and ungrouped(s.targets[0].slice.value) and \
                isinstance(s.value, ast.Constant) and s.value.value is True:
            idx["mark"] = (i, s)
            index_mark = s.targets[0].slice.slice
        if isinstance(s, ast.Expr) and isinstance(s.value, ast.Call) and call_name(s.value) == "append":
            idx["append"] = (i, s)
    if set(idx) != {"view", "mark", "append"}:
        insts.append(R.undec(rid, "mark=append", file, lp.lineno, f"view / mark / append statements not all found: {sorted(idx)}"))
    else:
        v, m, a = idx["view"], idx["mark"], idx["append"]
        probs = []
        vv = v[1].value
        if not (isinstance(vv, ast.Subscript) and unparse(vv.value) == "ar" and ungrouped(vv.slice)):
            probs.append(f"the candidate view is '{unparse(v[1].value)}', not the currently ungrouped notes")
        if index_mark is not None:
            if unparse(index_mark) != "mask":
                probs.append(f"marking selects '{unparse(index_mark)}' of the ungrouped positions, not the selection mask")
        elif not (isinstance(m[1].op, ast.BitOr) and unparse(m[1].value) == "mask"):
            probs.append(f"marking uses '{unparse(m[1])}' instead of OR-ing the selection mask into the ungrouped positions")
        ap = a[1].value.args[0] if a[1].value.args else None
        if ap is None or unparse(ap) != "ar_ungrouped[mask]":
            probs.append(f"the group appended is '{unparse(ap) if ap is not None else '?'}', not the notes selected by the mask that was marked")
        if not (v[0] < m[0]):
            probs.append("the candidate view is taken after marking")
        # the mask may only be narrowed (&=) between its creation and its use
        for s in body[v[0] + 1:max(m[0], a[0])]:
            for n in ast.walk(s):
                if isinstance(n, ast.AugAssign) and unparse(n.target) == "mask" and not isinstance(n.op, ast.BitAnd):
                    probs.append(f"the mask is widened by '{unparse(n)}' after the window test")
        between = body[min(m[0], a[0]) + 1:max(m[0], a[0])]
        if any(isinstance(n, (ast.Assign, ast.AugAssign)) and unparse(n.targets[0] if isinstance(n, ast.Assign) else n.target) in ("mask", "ar_ungrouped")
               for s in between for n in ast.walk(s)):
            probs.append("mask / view change between marking and appending")
        if probs:
            insts.append(R.viol(rid, "mark=append", file, m[1].lineno, "; ".join(probs), construct="; ".join(probs)))
        else:
            insts.append(R.ok(rid, "mark=append", file, m[1].lineno, idiom="view = ar[~grouped]; grouped[~grouped] |= mask; append(view[mask])"))
    # (b2) the horizontal window applies whenever h_window is given — 0 is a valid window (same column only)
    hw = [n for n in ast.walk(lp) if isinstance(n, ast.If) and any(isinstance(x, ast.Call) and call_name(x) == "h_mask" for x in ast.walk(n))]
    if len(hw) == 1:
        t = hw[0].test
        if isinstance(t, ast.Name) and t.id != "h_window":
            # a flag computed once (`use_h = h_window is not None`) stands for its definition; any other local is not read
            ds = [n.value for n in ast.walk(g.node) if isinstance(n, ast.Assign) and len(n.targets) == 1 and isinstance(n.targets[0], ast.Name) and
                  n.targets[0].id == t.id]
            t = ds[0] if len(ds) == 1 else ast.Call(func=ast.Name(id="unknown", ctx=ast.Load()), args=[t], keywords=[])
        if isinstance(t, ast.Compare) and isinstance(t.ops[0], ast.IsNot) and isinstance(t.comparators[0], ast.Constant) and \
                t.comparators[0].value is None:
            insts.append(R.ok(rid, "h-window-guard", file, t.lineno, idiom="if h_window is not None"))
        elif isinstance(t, ast.Name) or (isinstance(t, ast.UnaryOp) and isinstance(t.op, ast.Not)):
            insts.append(R.viol(rid, "h-window-guard", file, t.lineno,
                                f"the horizontal window is applied only when '{unparse(t)}' is truthy: h_window = 0 (same column only) is "
                                f"treated like None and every column is grouped", construct=unparse(t)))
        else:
            insts.append(R.undec(rid, "h-window-guard", file, t.lineno, f"guard '{unparse(t)}' not recognised"))
    else:
        insts.append(R.undec(rid, "h-window-guard", file, lp.lineno, "guarded application of h_mask not found"))
    # (c) window masks: [offset, offset + v_window] on offsets, |column - col| <= h_window; first occurrence per column for jacks
    vm = _rfn(ctx, PATTERN + ".v_mask")
    st = local_defs(vm.node, "start")
    en = local_defs(vm.node, "end")
    ok_v = len(st) == 1 and len(en) == 1 and unparse(st[0]) == "bisect_left(offsets, offset)" and \
        isinstance(en[0], ast.Call) and call_name(en[0]) == "bisect_right" and len(en[0].args) >= 2 and \
        unparse(en[0].args[0]) == "offsets" and sym.same_formula(en[0].args[1], "offset + v_window")
    insts.append(R.ok(rid, "v-window", file, vm.node.lineno, idiom="[bisect_left(offset), bisect_right(offset + v_window)) on the sorted offsets") if ok_v else
                 R.viol(rid, "v-window", file, vm.node.lineno,
                        "the vertical window is the closed interval [offset, offset + v_window] over the sorted offsets",
                        construct="; ".join(unparse(x) for x in st + en)))
    hm = M.fn(PATTERN + ".h_mask")
    cmpn = [n for n in walk_no_nested(hm.node) if isinstance(n, ast.Compare)]
    ok_h = len(cmpn) == 1 and isinstance(cmpn[0].ops[0], ast.LtE) and unparse(cmpn[0].comparators[0]) == "h_window" and \
        isinstance(cmpn[0].left, ast.Call) and call_name(cmpn[0].left) == "abs" and \
        sym.canon(cmpn[0].left.args[0], lambda n: {"column": "c", "ar['column']": "x"}.get(unparse(n))).same(sym.parse("c - x")) or \
        (len(cmpn) == 1 and isinstance(cmpn[0].left, ast.Call) and call_name(cmpn[0].left) == "abs" and isinstance(cmpn[0].ops[0], ast.LtE) and
         sym.canon(cmpn[0].left.args[0], lambda n: {"column": "c", "ar['column']": "x"}.get(unparse(n))).same(sym.parse("x - c")))
    insts.append(R.ok(rid, "h-window", file, hm.node.lineno, idiom="|column - reference| <= h_window") if ok_h else
                 R.viol(rid, "h-window", file, hm.node.lineno, "the horizontal window is |column - reference column| <= h_window",
                        construct=unparse(cmpn[0]) if cmpn else ""))
    # first occurrence per column, dict form: for ix, col in enumerate(cols[start:end], start): D.setdefault(col, ix); mask[list(D.values())] = True
    first_form = None
    for lp_ in (n for n in walk_no_nested(vm.node) if isinstance(n, ast.For)):
        it_ = lp_.iter
        if isinstance(it_, ast.Call) and call_name(it_) == "enumerate" and len(it_.args) == 1 and [k.arg for k in it_.keywords] == ["start"]:
            import copy as _cp
            it_ = _cp.copy(it_)
            it_.args = [it_.args[0], it_.keywords[0].value]       # enumerate(xs, start=s) is enumerate(xs, s)
            it_.keywords = []
        if isinstance(it_, ast.Call) and call_name(it_) == "enumerate" and len(it_.args) == 2 and isinstance(lp_.target, ast.Tuple) and \
                len(lp_.target.elts) == 2 and all(isinstance(x, ast.Name) for x in lp_.target.elts):
            src_ = _resolve1(vm.node, it_.args[0])
            ixv, colv = lp_.target.elts[0].id, lp_.target.elts[1].id
            sd = [x for x in ast.walk(lp_) if isinstance(x, ast.Call) and call_name(x) == "setdefault" and len(x.args) == 2 and
                  isinstance(x.func.value, ast.Name)]
            if len(sd) == 1 and len(lp_.body) == 1 and unparse(src_) == "cols[start:end]" and unparse(it_.args[1]) == "start":
                D_ = sd[0].func.value.id
                uses = [n for n in walk_no_nested(vm.node) if isinstance(n, ast.Assign) and isinstance(n.targets[0], ast.Subscript) and
                        unparse(n.targets[0].value) == "mask" and unparse(n.targets[0].slice).replace(" ", "") in (f"list({D_}.values())", f"[*{D_}.values()]")]
                first_form = (lp_, unparse(sd[0].args[0]) == colv and unparse(sd[0].args[1]) == ixv and bool(uses))
        elif isinstance(it_, ast.Call) and call_name(it_) == "range" and [unparse(a_) for a_ in it_.args] == ["start", "end"] and \
                isinstance(lp_.target, ast.Name) and len(lp_.body) == 1:
            # index form: for ix in range(start, end): D.setdefault(cols[ix], ix)
            ixv = lp_.target.id
            sd = [x for x in ast.walk(lp_) if isinstance(x, ast.Call) and call_name(x) == "setdefault" and len(x.args) == 2 and
                  isinstance(x.func.value, ast.Name)]
            if len(sd) == 1:
                D_ = sd[0].func.value.id
                uses = [n for n in walk_no_nested(vm.node) if isinstance(n, ast.Assign) and isinstance(n.targets[0], ast.Subscript) and
                        unparse(n.targets[0].value) == "mask" and unparse(n.targets[0].slice).replace(" ", "") in (f"list({D_}.values())", f"[*{D_}.values()]")]
                first_form = (lp_, unparse(sd[0].args[0]) == f"cols[{ixv}]" and unparse(sd[0].args[1]) == ixv and bool(uses))
        if first_form is None and isinstance(lp_.target, (ast.Name, ast.Tuple)) and len(lp_.body) == 1 and isinstance(lp_.body[0], ast.Assign) and \
                isinstance(lp_.body[0].targets[0], ast.Subscript) and isinstance(lp_.body[0].targets[0].value, ast.Name):
            # the dict filled by a plain store: `D[k] = D.get(k) or ix` takes a stored first position 0 for "nothing stored" (0 is
            # falsy) and overwrites it — the falsy-zero idiom; `D[k] = D.get(k, ix)` is setdefault
            st_ = lp_.body[0]
            D_ = st_.targets[0].value.id
            k_ = unparse(st_.targets[0].slice)
            v_ = st_.value
            if isinstance(v_, ast.BoolOp) and isinstance(v_.op, ast.Or) and isinstance(v_.values[0], ast.Call) and call_name(v_.values[0]) == "get" and \
                    unparse(v_.values[0].func.value) == D_ and len(v_.values[0].args) == 1 and unparse(v_.values[0].args[0]) == k_:
                insts.append(R.viol(rid, "no-jack", file, st_.lineno,
                                    f"'{unparse(st_)}' keeps the first position of a column unless that position is 0: `{D_}.get(..) or ..` reads a "
                                    f"stored 0 as 'nothing stored' and overwrites it, so the earliest note of the group loses its place to a later "
                                    f"one of its column", construct=unparse(st_)[:160]))
                return insts
    if first_form is not None:
        insts.append(R.ok(rid, "no-jack", file, first_form[0].lineno, idiom="first position per distinct column of the window (dict.setdefault in window order)") if first_form[1] else
                     R.viol(rid, "no-jack", file, first_form[0].lineno,
                            "with jacks avoided exactly one note (the earliest) per distinct column of the window is selected",
                            construct=unparse(first_form[0])[:160]))
        return insts
    # dict-comprehension form: {cols[ix]: ix for ix in reversed(range(start, end))} — the entry written last for a column wins, so the
    # window must be walked BACKWARDS for the earliest row to remain
    for dc in (n for n in walk_no_nested(vm.node) if isinstance(n, ast.DictComp) and len(n.generators) == 1 and not n.generators[0].ifs and
               isinstance(n.generators[0].target, ast.Name)):
        ixv = dc.generators[0].target.id
        it_ = dc.generators[0].iter
        rev = isinstance(it_, ast.Call) and call_name(it_) == "reversed" and len(it_.args) == 1
        rng = it_.args[0] if rev else it_
        if isinstance(rng, ast.Call) and call_name(rng) == "range" and [unparse(a_) for a_ in rng.args] == ["start", "end"] and \
                unparse(dc.key) == f"cols[{ixv}]" and unparse(dc.value) == ixv:
            D_ = next((x.targets[0].id for x in walk_no_nested(vm.node) if isinstance(x, ast.Assign) and x.value is dc and isinstance(x.targets[0], ast.Name)), None)
            uses = [n for n in walk_no_nested(vm.node) if isinstance(n, ast.Assign) and isinstance(n.targets[0], ast.Subscript) and
                    unparse(n.targets[0].value) == "mask" and unparse(n.targets[0].slice).replace(" ", "") in (f"list({D_}.values())", f"[*{D_}.values()]")]
            if rev and uses:
                insts.append(R.ok(rid, "no-jack", file, dc.lineno, idiom="earliest position per distinct column (dict filled walking the window backwards)"))
            elif uses:
                insts.append(R.viol(rid, "no-jack", file, dc.lineno,
                                    "with jacks avoided exactly one note (the earliest) per distinct column of the window is selected; a dict "
                                    "filled walking the window forwards keeps the LAST row of each column", construct=unparse(dc)[:160]))
            else:
                insts.append(R.undec(rid, "no-jack", file, dc.lineno, "how the per-column rows are put into the mask was not recognised"))
            return insts
    jk = [n for n in walk_no_nested(vm.node) if isinstance(n, ast.ListComp) and "index" in unparse(n)]
    if not jk:
        insts.append(R.undec(rid, "no-jack", file, vm.node.lineno, "the selection of one note per column was not recognised"))
        return insts
    ok_j = len(jk) == 1 and len(jk[0].generators) == 1 and isinstance(jk[0].generators[0].target, ast.Name) and not jk[0].generators[0].ifs and \
        unparse(jk[0].generators[0].iter) == "set(cols_)" and unparse(jk[0].elt) == f"cols_.index({jk[0].generators[0].target.id})"
    insts.append(R.ok(rid, "no-jack", file, (jk[0] if jk else vm.node).lineno, idiom="one (the first) occurrence per distinct column of the window") if ok_j else
                 R.viol(rid, "no-jack", file, (jk[0] if jk else vm.node).lineno,
                        "with jacks avoided exactly one note (the earliest) per distinct column of the window is selected",
                        construct=unparse(jk[0]) if jk else "no per-column selection"))
    return insts


def rule_r3(ctx) -> List[R.Inst]:
    M = ctx.M
    rid = "C20.R3"
    fn = _rfn(ctx, COMBO + ".combinations")
    file = M.mods[fn.mod].rel
    insts = []
    size = params_of(fn.node)[1]
    zl = [n for n in walk_no_nested(fn.node) if isinstance(n, ast.For) and isinstance(n.iter, ast.Call) and call_name(n.iter) == "zip"]
    # the chunk: the local sliced out of self.groups (whatever its name)
    cdefs = [n for n in walk_no_nested(fn.node) if isinstance(n, ast.Assign) and isinstance(n.targets[0], ast.Name) and
             isinstance(n.value, ast.Subscript) and isinstance(n.value.slice, ast.Slice) and unparse(n.value.value) == "self.groups"]
    chunk = [n.value for n in cdefs] or local_defs(fn.node, "chunk")
    decided = False
    if len(zl) == 1 and len(zl[0].iter.args) == 2 and all(isinstance(a, ast.Call) and call_name(a) == "range" for a in zl[0].iter.args):
        r0, r1 = zl[0].iter.args
        if len(r0.args) == 2 and len(r1.args) == 2 and isinstance(zl[0].target, ast.Tuple):
            i, j = (t.id for t in zl[0].target.elts)
            lf = lambda n: ("N" if unparse(n) == "len(self.groups)" else None)   # noqa: E731
            s0, e0, s1, e1 = (sym.canon(x, lf) for x in (r0.args[0], r0.args[1], r1.args[0], r1.args[1]))
            sz = sym.parse(size)
            good = (s1 - s0).same(sz) and (e1 - e0).same(sz) and s0.same(sym.parse("0")) and e1.same(sym.parse("N + 1")) and \
                len(chunk) == 1 and unparse(chunk[0]) == f"self.groups[{i}:{j}]"
            decided = True
            insts.append(R.ok(rid, "consecutive-chunks", file, zl[0].lineno, idiom=f"groups[i:i+{size}] for every i in 0..n-{size}") if good else
                         R.viol(rid, "consecutive-chunks", file, zl[0].lineno,
                                f"combinations of size n take one note from each of n CONSECUTIVE groups: chunks must be "
                                f"groups[i:i+{size}] for every i from 0 to len-{size}", construct=unparse(zl[0].iter) + " ; " + "; ".join(unparse(c) for c in chunk)))
    if not decided:
        # accepted twin: for i in range(len(groups) - size + 1): chunk = groups[i:i + size]
        def _start_range(it):
            """the range the chunk starts run over: range(..) itself, or a local bound to range(..) and then only narrowed by
            `name = [v for v in name if <test>]` (a filter keeps starts, it cannot add or move one)"""
            def _r(c):
                return isinstance(c, ast.Call) and call_name(c) == "range" and (len(c.args) == 1 or (len(c.args) == 2 and unparse(c.args[0]) == "0"))
            if _r(it):
                return it
            if isinstance(it, ast.Name):
                ds = local_defs(fn.node, it.id)
                rng = [d for d in ds if _r(d)]
                rest = [d for d in ds if d not in rng]
                if len(rng) == 1 and all(isinstance(d, (ast.ListComp, ast.GeneratorExp)) and len(d.generators) == 1 and
                                         isinstance(d.generators[0].target, ast.Name) and isinstance(d.elt, ast.Name) and
                                         d.elt.id == d.generators[0].target.id and isinstance(d.generators[0].iter, ast.Name) and
                                         d.generators[0].iter.id == it.id for d in rest):
                    return rng[0]
            return None
        fl = [(n, _start_range(n.iter)) for n in walk_no_nested(fn.node) if isinstance(n, ast.For) and _start_range(n.iter) is not None]
        ok_ = False
        for f, rng_ in fl:
            if isinstance(f.target, ast.Name) and len(chunk) == 1 and isinstance(chunk[0], ast.Subscript) and isinstance(chunk[0].slice, ast.Slice):
                i = f.target.id
                lf = lambda n: ("N" if unparse(n) == "len(self.groups)" else None)   # noqa: E731
                stop = sym.canon(rng_.args[-1], lf)
                lo, hi = chunk[0].slice.lower, chunk[0].slice.upper
                if lo is not None and hi is not None and (sym.canon(hi) - sym.canon(lo)).same(sym.parse(size)) and \
                        stop.same(sym.parse(f"N - {size} + 1")) and unparse(lo) == i:
                    ok_ = True
                    insts.append(R.ok(rid, "consecutive-chunks", file, f.lineno, idiom=f"groups[i:i+{size}] for i in range(n-{size}+1)"))
                elif lo is not None and hi is not None and (sym.canon(hi) - sym.canon(lo)).same(sym.parse(size)) and unparse(lo) == i and \
                        stop.symbols() <= {"N", size} and any(x is chunk[0] or unparse(x) == unparse(chunk[0]) for x in ast.walk(fn.node)):
                    # the same shape with another bound: the chunks are groups[i:i+size] but not for every i in 0..n-size
                    ok_ = True
                    insts.append(R.viol(rid, "consecutive-chunks", file, f.lineno,
                                        f"chunks are groups[{i}:{i}+{size}] for {i} in range({unparse(rng_.args[-1])}); they must start at every index "
                                        f"0 .. len(groups) - {size}: the last start is len - {size}, so the range ends at len - {size} + 1",
                                        construct=f"range({unparse(rng_.args[-1])})"))
        if not ok_:
            # the loop runs over the POSITIONS of a list of starts that a filter has narrowed, and slices the groups at the position
            for n in walk_no_nested(fn.node):
                if isinstance(n, ast.For) and isinstance(n.target, ast.Name) and isinstance(n.iter, ast.Call) and call_name(n.iter) == "range" and \
                        len(n.iter.args) == 1 and isinstance(n.iter.args[0], ast.Call) and call_name(n.iter.args[0]) == "len" and \
                        len(n.iter.args[0].args) == 1 and isinstance(n.iter.args[0].args[0], ast.Name):
                    lst = n.iter.args[0].args[0]
                    narrowed = len(local_defs(fn.node, lst.id)) > 1 and _start_range(lst) is not None
                    if narrowed and len(chunk) == 1 and isinstance(chunk[0], ast.Subscript) and isinstance(chunk[0].slice, ast.Slice) and \
                            chunk[0].slice.lower is not None and unparse(chunk[0].slice.lower) == n.target.id:
                        ok_ = True
                        insts.append(R.viol(rid, "consecutive-chunks", file, n.lineno,
                                            f"'{lst.id}' holds the chunk starts that passed the filter, but the loop runs over its positions "
                                            f"(range(len({lst.id}))) and slices the groups at the position: the first k chunks are taken "
                                            f"instead of the k accepted ones", construct=f"for {n.target.id} in range(len({lst.id})): groups[{n.target.id}:..]"))
        if not ok_:
            insts.append(R.undec(rid, "consecutive-chunks", file, fn.node.lineno, "chunk enumeration not recognised"))
    # all combinations of a chunk: meshgrid over the groups of the chunk, reshaped to (-1, size)
    mg = [n for n in walk_no_nested(fn.node) if isinstance(n, ast.Call) and call_name(n) == "meshgrid"]
    rs = [n for n in walk_no_nested(fn.node) if isinstance(n, ast.Call) and call_name(n) == "reshape" and len(n.args) == 2
          and any(isinstance(x, ast.Call) and call_name(x) == "meshgrid" for x in ast.walk(n.func.value))]
    # ... over one chunk: the loop variable over the collected chunks, or the chunk itself
    chunk_names = {"chunk"} | {n.targets[0].id for n in cdefs}
    coll = {c.func.value.id for n in walk_no_nested(fn.node) for c in [n] if isinstance(c, ast.Call) and call_name(c) == "append" and
            isinstance(c.func.value, ast.Name) and c.args and isinstance(c.args[0], ast.Name) and c.args[0].id in chunk_names}
    chunk_names |= {f.target.id for f in walk_no_nested(fn.node) if isinstance(f, ast.For) and isinstance(f.target, ast.Name) and
                    isinstance(f.iter, ast.Name) and f.iter.id in coll}
    if len(mg) == 1 and mg[0].args and isinstance(mg[0].args[0], ast.Starred) and unparse(mg[0].args[0].value) in chunk_names and \
            rs and unparse(rs[0].args[0]) == "-1" and unparse(rs[0].args[1]) == size:
        insts.append(R.ok(rid, "cartesian-product", file, mg[0].lineno, idiom="meshgrid(*chunk) reshaped to rows of length size"))
    else:
        insts.append(R.viol(rid, "cartesian-product", file, (mg[0] if mg else fn.node).lineno,
                            "every sequence taking one note from each group of the chunk must be generated (meshgrid over all groups "
                            "of the chunk, rows of length size)", construct=unparse(mg[0]) if mg else "no meshgrid"))
    # filters applied to the right fields; nothing else removes combinations
    flt = {}
    for n in walk_no_nested(fn.node):
        if isinstance(n, ast.Assign) and unparse(n.targets[0]) == "combos" and isinstance(n.value, ast.Subscript):
            sl = n.value.slice
            if isinstance(sl, ast.Call) and isinstance(sl.func, ast.Name) and sl.args and isinstance(sl.args[0], ast.Subscript):
                flt[sl.func.id] = C.const_str(sl.args[0].slice)
    want = {"combo_filter": "column", "type_filter": "type"}
    # each filter is applied whenever it is given: its guard may test only its own presence and must not hang on another's else
    entangled = []
    for n in walk_no_nested(fn.node):
        if isinstance(n, ast.If):
            own = {x.id for x in ast.walk(n.test) if isinstance(x, ast.Name)} & set(want)
            for sub in n.orelse:
                for x in ast.walk(sub):
                    if isinstance(x, ast.Assign) and unparse(x.targets[0]) == "combos":
                        used = {y.func.id for y in ast.walk(x.value) if isinstance(y, ast.Call) and isinstance(y.func, ast.Name)} & set(want)
                        if used and own and not used <= own:
                            entangled.append((sorted(used)[0], sorted(own)[0], n))
    if entangled:
        u, o, node = entangled[0]
        insts.append(R.viol(rid, "filter-independence", file, node.lineno,
                            f"'{u}' is applied only in the else-branch of the test for '{o}': when both filters are given the "
                            f"second is skipped and combinations it should reject are reported", construct=f"{u} under else of {o}"))
    else:
        insts.append(R.ok(rid, "filter-independence", file, fn.node.lineno, idiom="each filter is applied under its own presence test"))
    if flt == want:
        insts.append(R.ok(rid, "filter-fields", file, fn.node.lineno, idiom="combo filter on columns, type filter on types"))
    elif not set(flt) <= set(want) or any(v is None for v in flt.values()):
        # the filters are called through other names (a table of (field, filter) pairs, a loop): which one sees which field is not read
        insts.append(R.undec(rid, "filter-fields", file, fn.node.lineno,
                             f"filters are applied through {sorted(set(flt) - set(want)) or sorted(flt)} on a computed field: which filter sees "
                             f"which field is not followed"))
    else:
        insts.append(R.viol(rid, "filter-fields", file, fn.node.lineno,
                            f"filters are applied to {flt}; the column filter must see the columns and the type filter the types",
                            construct=repr(flt)))
    cf = [n for n in walk_no_nested(fn.node) if isinstance(n, ast.Call) and isinstance(n.func, ast.Name) and n.func.id == "chord_filter"]
    def _presliced_sizes(arg) -> bool:
        """np.array(S[lo:hi]) where S = [g.shape[0] for g in self.groups] (the sizes measured once) and [lo:hi] is the chunk's own slice"""
        e = arg
        while isinstance(e, ast.Call) and call_name(e) in ("array", "asarray", "list", "tuple") and len(e.args) >= 1:
            e = e.args[0]
        if not (isinstance(e, ast.Subscript) and isinstance(e.slice, ast.Slice) and isinstance(e.value, ast.Name)):
            return False
        ds = local_defs(fn.node, e.value.id)
        if len(ds) != 1 or not isinstance(ds[0], ast.ListComp) or len(ds[0].generators) != 1:
            return False
        g = ds[0].generators[0]
        if g.ifs or unparse(g.iter) != "self.groups" or not isinstance(g.target, ast.Name):
            return False
        if unparse(ds[0].elt) not in (f"{g.target.id}.shape[0]", f"len({g.target.id})"):
            return False
        return len(chunk) == 1 and isinstance(chunk[0], ast.Subscript) and unparse(chunk[0].slice) == unparse(e.slice)
    if len(cf) == 1 and cf[0].args and "shape[0]" in unparse(cf[0].args[0]) and "chunk" in unparse(cf[0].args[0]):
        insts.append(R.ok(rid, "chord-sizes", file, cf[0].lineno, idiom="chord filter sees the sizes of the chunk's groups, in order"))
    elif len(cf) == 1 and cf[0].args and _presliced_sizes(cf[0].args[0]):
        insts.append(R.ok(rid, "chord-sizes", file, cf[0].lineno, idiom="chord filter sees the chunk's slice of the per-group sizes (measured once, in group order)"))
    else:
        insts.append(R.viol(rid, "chord-sizes", file, (cf[0] if cf else fn.node).lineno,
                            "the chord-size filter must receive the sizes of the groups of the chunk, in order",
                            construct=unparse(cf[0]) if cf else "no chord_filter call"))
    return insts


def rule_r4(ctx) -> List[R.Inst]:
    M = ctx.M
    rid = "C20.R4"
    insts = []
    fn = M.fn(FILTERS + ".PtnFilterChord.filter")
    file = M.mods[fn.mod].rel
    rets = [n for n in walk_no_nested(fn.node) if isinstance(n, ast.Return) and n.value is not None]
    bad = None
    for n in walk_no_nested(fn.node):
        if isinstance(n, ast.Compare) and isinstance(n.ops[0], (ast.In, ast.NotIn)) and unparse(n.comparators[0]) == "self.ar":
            bad = n
    if bad is not None:
        insts.append(R.viol(rid, "chord-membership", file, bad.lineno,
                            "'in' between two arrays is true when ANY element of the sizes equals ANY element of the table: the "
                            "sizes [2, 1] pass a filter that allows only [1, 1] and [2, 2]; membership of the whole row is required",
                            construct=unparse(bad)))
    else:
        # row-wise membership: all(<table == row>, axis=1) reduced by any, or a comparison of row tuples/lists
        row = False
        for n in walk_no_nested(fn.node):
            if isinstance(n, ast.Call) and call_name(n) == "all" and any(k.arg == "axis" and unparse(k.value) == "1" for k in n.keywords):
                inner = n.args[0] if n.args else (n.func.value if isinstance(n.func, ast.Attribute) else None)
                if inner is not None and "self.ar" in unparse(inner) and any(isinstance(x, ast.Eq) for c in ast.walk(inner)
                                                                              if isinstance(c, ast.Compare) for x in c.ops):
                    row = True
            if isinstance(n, ast.Compare) and isinstance(n.ops[0], (ast.In, ast.NotIn)) and "tolist()" in unparse(n.comparators[0]) and \
                    "self.ar" in unparse(n.comparators[0]):
                row = True
        txt = unparse(rets[0].value) if rets else ""
        insts.append(R.ok(rid, "chord-membership", file, (rets[0] if rets else fn.node).lineno,
                          idiom="row-wise membership (all over axis 1 of table == row)") if row else
                     R.undec(rid, "chord-membership", file, fn.node.lineno, f"membership test not recognised: {txt[:80]}"))
    # invert flag: excluded = not allowed, in all three filters
    for cls in ("PtnFilterCombo", "PtnFilterChord", "PtnFilterType"):
        f = M.fn(f"{FILTERS}.{cls}.filter")
        key = f"{cls}:invert"
        # `return X if self.invert_filter else Y` — read in the statement form the model gives it: `if self.invert_filter: return X`
        # followed by `return Y` (or with the test negated)
        sw = None
        body_ = [st for st in f.node.body]
        for i_, st in enumerate(body_):
            if isinstance(st, ast.If) and len(st.body) == 1 and isinstance(st.body[0], ast.Return) and st.body[0].value is not None:
                t_ = st.test
                neg_t = isinstance(t_, ast.UnaryOp) and isinstance(t_.op, ast.Not)
                if unparse(t_.operand if neg_t else t_) != "self.invert_filter":
                    continue
                other = st.orelse[0] if len(st.orelse) == 1 and isinstance(st.orelse[0], ast.Return) else \
                    (body_[i_ + 1] if not st.orelse and i_ + 1 < len(body_) and isinstance(body_[i_ + 1], ast.Return) else None)
                if other is not None and other.value is not None:
                    x_, y_ = st.body[0].value, other.value
                    sw = (st, y_, x_) if neg_t else (st, x_, y_)
        if sw is None:
            insts.append(R.undec(rid, key, file, f.node.lineno, "exclude/allow switch not recognised"))
            continue

        class _RR:
            pass
        rr = [_RR()]
        rr[0].lineno = sw[0].lineno
        rr[0].value = ast.IfExp(test=sw[0].test, body=sw[1], orelse=sw[2])
        a, b = unparse(sw[1]), unparse(sw[2])
        neg = a.replace("np.invert(", "", 1)[:-1] == b or a.replace(" not in ", " in ") == b or a == f"not {b}" or a == f"~{b}" or \
            a == f"not ({b})"
        insts.append(R.ok(rid, key, file, rr[0].lineno, idiom="exclude = negation of allow") if neg else
                     R.viol(rid, key, file, rr[0].lineno, "with 'exclude' the filter must accept exactly what it otherwise rejects",
                            construct=unparse(rr[0].value)))
    # option flags: pairwise disjoint powers of two
    for cls in ("PtnFilterCombo", "PtnFilterChord", "PtnFilterType"):
        oc = f"{FILTERS}.{cls}.Option"
        c = M.cls(oc)
        vals = {}
        for st in c.node.body:
            if isinstance(st, (ast.Assign, ast.AnnAssign)):
                t = st.targets[0] if isinstance(st, ast.Assign) else st.target
                if isinstance(t, ast.Name) and st.value is not None:
                    try:
                        vals[t.id] = M.lit(c.mod, st.value, oc)
                    except Exception:
                        pass
        key = f"{cls}.Option"
        pw = all(isinstance(v, int) and v > 0 and v & (v - 1) == 0 for v in vals.values())
        dj = len(set(vals.values())) == len(vals)
        if vals and pw and dj:
            insts.append(R.ok(rid, key, file, c.node.lineno, idiom=f"{vals}: distinct single bits"))
        else:
            insts.append(R.viol(rid, key, file, c.node.lineno,
                                f"option flags must be distinct single bits (they are combined with | and tested with &): {vals}",
                                construct=repr(vals)))
    return insts


def rule_r5(ctx) -> List[R.Inst]:
    """REPEAT: the shift range of each base combo is computed from that combo alone"""
    M = ctx.M
    rid = "C20.R5"
    fn = _rfn(ctx, FILTERS + ".PtnFilterCombo.create")
    file = M.mods[fn.mod].rel
    loops = [n for n in ast.walk(fn.node) if isinstance(n, ast.For) and "ar_combos" in unparse(n.iter)]
    if len(loops) != 1:
        return [R.undec(rid, "repeat-range", file, fn.node.lineno, "per-combo loop of the REPEAT option not found")]
    lp = loops[0]
    elem = [t.id for t in ast.walk(lp.target) if isinstance(t, ast.Name)][-1]
    coll = "ar_combos"
    insts = []
    defs = {}
    for n in ast.walk(lp):
        if isinstance(n, ast.Assign) and isinstance(n.targets[0], ast.Name):
            defs[n.targets[0].id] = n
    for nm, fnname in (("minimum", "min"), ("maximum", "max")):
        d = defs.get(nm)
        key = f"repeat:{nm}"
        if d is None or not (isinstance(d.value, ast.Call) and call_name(d.value) == fnname and d.value.args):
            insts.append(R.undec(rid, key, file, lp.lineno, f"'{nm}' of the base combo not found"))
        elif unparse(d.value.args[0]) == elem:
            insts.append(R.ok(rid, key, file, d.lineno, idiom=f"np.{fnname}({elem}): extent of this base combo"))
        elif unparse(d.value.args[0]) == coll:
            insts.append(R.viol(rid, key, file, d.lineno,
                                f"inside the loop over the base combos the {nm} is taken over ALL of them ('{unparse(d.value)}'): a narrow "
                                f"combo listed next to a wider one gets the wider one's (smaller) shift range and allowed shifts go missing",
                                construct=unparse(d)))
        else:
            insts.append(R.undec(rid, key, file, d.lineno, f"{nm} computed from '{unparse(d.value.args[0])}'"))
    fr, dl = defs.get("freedom"), defs.get("freedom_delta")
    if fr is not None and sym.same_formula(fr.value, "keys - maximum + minimum"):
        insts.append(R.ok(rid, "repeat:freedom", file, fr.lineno, idiom="number of shifts = keys - max + min"))
    else:
        insts.append((R.viol if fr is not None and sym.only_modelled(fr.value, {"keys", "maximum", "minimum"}) else R.undec)(
            rid, "repeat:freedom", file, (fr or lp).lineno, "a combo spanning [min, max] fits keys - max + min positions",
            construct=unparse(fr) if fr is not None else ""))
    if dl is not None and sym.canon(dl.value, lambda n: "ARANGE" if isinstance(n, ast.Call) and call_name(n) == "arange" and
                                    unparse(n.args[0]) == "freedom" else None).same(sym.parse("ARANGE - minimum")):
        insts.append(R.ok(rid, "repeat:shifts", file, dl.lineno, idiom="shifts = 0..freedom-1 minus min (left-most placement first)"))
    else:
        insts.append(R.undec(rid, "repeat:shifts", file, (dl or lp).lineno, "shift list not recognised"))
    app = [n for n in ast.walk(lp) if isinstance(n, ast.Call) and call_name(n) == "append" and n.args]
    if app and elem in {x.id for x in ast.walk(app[0].args[0]) if isinstance(x, ast.Name)} and "freedom_delta" in unparse(app[0].args[0]):
        insts.append(R.ok(rid, "repeat:apply", file, app[0].lineno, idiom=f"{elem} + shifts"))
    elif dl is None and app:
        insts.append(R.undec(rid, "repeat:apply", file, app[0].lineno, "the shifts are computed in a form that is not recognised"))
    else:
        insts.append(R.viol(rid, "repeat:apply", file, (app[0] if app else lp).lineno,
                            "each base combo must be repeated at its own shifts", construct=unparse(app[0]) if app else ""))
    return insts


def rule_r6(ctx) -> List[R.Inst]:
    """the type filter is `issubclass`: the tags the pattern assigns must be unrelated classes"""
    M = ctx.M
    rid = "C20.R6"
    insts = []
    fn = _rfn(ctx, PATTERN + ".from_note_lists")
    file = M.mods[fn.mod].rel
    # how the type filter compares
    flt = M.fn(FILTERS + ".PtnFilterType.filter")
    cmpf = sorted({call_name(n) for n in ast.walk(flt.node) if isinstance(n, ast.Call) and call_name(n) in ("issubclass", "isinstance")})
    eqs = [n for n in ast.walk(flt.node) if isinstance(n, ast.Compare) and isinstance(n.ops[0], (ast.Eq, ast.Is)) and
           any(isinstance(x, ast.Name) and x.id == "cls" for x in ast.walk(n))]
    if not cmpf and not eqs:
        return [R.undec(rid, "filter-compare", M.mods[flt.mod].rel, flt.node.lineno, "how the type filter compares a tag with a class was not recognised")]
    insts.append(R.ok(rid, "filter-compare", M.mods[flt.mod].rel, flt.node.lineno, idiom=(cmpf or ["=="])[0]))
    guards = [n for n in walk_no_nested(fn.node) if isinstance(n, ast.If) and any(
        isinstance(c, ast.Call) and call_name(c) == "issubclass" for c in ast.walk(n.test))]
    if len(guards) != 1:
        return insts + [R.undec(rid, "tail-tag", file, fn.node.lineno, "the hold guard of from_note_lists was not found")]
    g = guards[0]
    ic = [c for c in ast.walk(g.test) if isinstance(c, ast.Call) and call_name(c) == "issubclass"][0]
    gcls = M.resolve_expr(fn.mod, ic.args[1]) if len(ic.args) == 2 else None
    tags = []
    for n in ast.walk(ast.Module(body=g.body, type_ignores=[])):
        if isinstance(n, ast.Call) and call_name(n) in ("extend", "append") and isinstance(n.func, ast.Attribute) and \
                isinstance(n.func.value, ast.Name) and n.func.value.id == "types" and n.args:
            for x in ast.walk(n.args[0]):
                if isinstance(x, ast.Name):
                    r = M.resolve_expr(fn.mod, x)
                    if r and r[0] == "class":
                        tags.append((r[1] if isinstance(r[1], str) else getattr(r[1], "qual", None), n))
    if not gcls or gcls[0] != "class" or len(tags) != 1:
        return insts + [R.undec(rid, "tail-tag", file, g.lineno, f"guard class / tail tag not resolved ({gcls}, {len(tags)} tags)")]
    hold = gcls[1] if isinstance(gcls[1], str) else gcls[1].qual
    tail, node = tags[0]
    if not cmpf:  # exact comparison: any distinct classes do
        return insts + [R.ok(rid, "tail-tag", file, node.lineno, idiom=f"{tail.split('.')[-1]} compared exactly")]
    note_roots = [c for c in M.bases(hold) if c in M.classes]
    siblings = sorted({c for r in note_roots for c in M.subclasses(r) if c != r and r in M.bases(c)} | {hold})
    rel = []
    for other in siblings:
        if other == tail:
            continue
        if other in M.mro(tail):
            rel.append(f"{tail.split('.')[-1]} is a subclass of {other.split('.')[-1]}")
        for sub in M.subclasses(other):
            if tail in M.mro(sub) and sub != tail:
                rel.append(f"{sub.split('.')[-1]} is a subclass of {tail.split('.')[-1]}")
    if rel:
        insts.append(R.viol(rid, "tail-tag", file, node.lineno,
                            f"the type filter matches with issubclass, and {rel[0]}: a filter naming the one also matches "
                            f"(or excludes) the sequences of the other", construct="; ".join(sorted(set(rel)))[:200]))
    else:
        insts.append(R.ok(rid, "tail-tag", file, node.lineno,
                          idiom=f"{tail.split('.')[-1]} unrelated to {[c.split('.')[-1] for c in siblings if c != tail]}"))
    return insts


def rule_r7(ctx) -> List[R.Inst]:
    """option flags of the templates: `A | B if c else 0` parses as `(A | B) if c else 0` — when it is written without parentheses
    the unconditional flag A is silently dropped whenever c is false"""
    M = ctx.M
    rid = "C20.R7"
    insts = []
    n_opts = 0
    for q, fn in sorted(M.funcs.items()):
        if not q.startswith("reamber.algorithms.pattern.") or CTL_NAME in q:
            continue
        for n in walk_no_nested(fn.node):
            if isinstance(n, ast.keyword) and n.arg == "options":
                n_opts += 1
                v = n.value
                if isinstance(v, ast.IfExp) and isinstance(v.body, ast.BinOp) and isinstance(v.body.op, ast.BitOr) and \
                        isinstance(v.orelse, ast.Constant) and v.orelse.value in (0, None):
                    # a parenthesised body starts after the conditional expression does: `(A | B) if c else 0`
                    paren = (v.lineno, v.col_offset) != (v.body.lineno, v.body.col_offset)
                    key = f"{short_q(q)}:options"
                    if paren:
                        insts.append(R.ok(rid, key, M.mods[fn.mod].rel, v.lineno, idiom="(flags) if cond else 0, parenthesised on purpose"))
                    else:
                        flags = unparse(v.body.left)
                        insts.append(R.viol(rid, key, M.mods[fn.mod].rel, v.lineno,
                                            f"'{unparse(v)[:110]}' is '({unparse(v.body)[:70]}) if {unparse(v.test)} else 0': when '{unparse(v.test)}' is "
                                            f"false NO option is set, although '{flags.split('.')[-1]}' is written as unconditional — sequences that "
                                            f"only match in the other order are missing from the result",
                                            construct=f"{short_q(q)}: {unparse(v)[:120]}"))
    if not insts:
        insts.append(R.ok(rid, "options", "", 0, idiom=f"{n_opts} options= arguments: no conditional swallowing an unconditional flag"))
    return insts


def rule_r9(ctx) -> List[R.Inst]:
    """chord-size options: AND_HIGHER adds every size sequence that is, position by position, from the SMALLEST given size up to
    `keys`; AND_LOWER every one from 1 up to the LARGEST given size.  Read off the ranges generated under each option test:
    `range(i, keys + 1) for i in np.min(sizes, axis=0)` and `range(1, i + 1) for i in np.max(sizes, axis=0)` (meshgrid or
    itertools.product of them).  With one base sequence min and max coincide, so only the filter of several sequences shows a slip."""
    M = ctx.M
    rid = "C20.R9"
    fn = M.fn(FILTERS + ".PtnFilterChord.create")
    file = M.mods[fn.mod].rel
    insts = []
    want = {"AND_HIGHER": ("min", "I", "keys + 1"), "AND_LOWER": ("max", "1", "I + 1")}
    for opt, (agg, lo_w, hi_w) in want.items():
        key = f"chord-option:{opt}"
        blk = next((n for n in walk_no_nested(fn.node) if isinstance(n, ast.If) and opt in unparse(n.test)), None)
        if blk is None:
            insts.append(R.undec(rid, key, file, fn.node.lineno, f"branch for {opt} not found"))
            continue
        comp = None
        for c in ast.walk(blk):
            if isinstance(c, (ast.ListComp, ast.GeneratorExp)) and len(c.generators) == 1 and isinstance(c.generators[0].target, ast.Name):
                rg = next((x for x in ast.walk(c.elt) if isinstance(x, ast.Call) and call_name(x) == "range"), None)
                it = c.generators[0].iter
                if rg is not None and isinstance(it, ast.Call) and call_name(it) in ("min", "max", "amin", "amax"):
                    comp = (c, rg, it)
        if comp is None:
            insts.append(R.undec(rid, key, file, blk.lineno, "per-position ranges not recognised"))
            continue
        c, rg, it = comp
        v = c.generators[0].target.id
        lo = unparse(rg.args[0]) if len(rg.args) == 2 else "0"
        hi = unparse(rg.args[-1])
        got_agg = call_name(it).replace("a", "", 1) if call_name(it) in ("amin", "amax") else call_name(it)
        axis0 = any(k.arg == "axis" and unparse(k.value) == "0" for k in it.keywords) or (len(it.args) > 1 and unparse(it.args[1]) == "0")
        probs = []
        if got_agg != agg:
            probs.append(f"the per-position bound is the {got_agg} over the given sequences; {opt} starts from the {'smallest' if agg == 'min' else 'largest'} "
                         f"given size ({agg}): with several base sequences, sequences that are {'higher' if agg == 'min' else 'lower'} than one of them are not generated")
        if not axis0:
            probs.append("the bound is not taken position by position (axis=0)")
        if lo != lo_w.replace("I", v) or hi.replace(" ", "") != hi_w.replace("I", v).replace(" ", ""):
            probs.append(f"the range is [{lo}, {hi}), expected [{lo_w.replace('I', v)}, {hi_w.replace('I', v)})")
        if probs:
            insts.append(R.viol(rid, key, file, rg.lineno, "; ".join(probs), construct=f"{opt}: range({lo}, {hi}) for {v} in {unparse(it)[:50]}"))
        else:
            insts.append(R.ok(rid, key, file, rg.lineno, idiom=f"range({lo}, {hi}) per position, bound = {agg} over the given sequences"))
    return insts


def rule_r8(ctx) -> List[R.Inst]:
    """combined filters stay filters: the base class's `filter` is a stub (the subclasses decide what a row is tested against, with
    `keys` and `invert_filter` as their parameters), so an operator of the base class (`a | b`, `a & b`) that builds its result with
    the BASE class's constructor, or without the operands' parameters, hands back an object whose `filter` returns None — passed
    as `combo_filter` it makes `combos[None]` (adds an axis) instead of filtering: combinations are neither filtered nor shaped"""
    M = ctx.M
    rid = "C20.R8"
    base = FILTERS + ".PtnFilter"
    insts = []
    if base not in M.classes:
        return [R.undec(rid, "operators", "", 0, "PtnFilter class not found")]
    bnode = M.classes[base].node
    file = M.mods[M.classes[base].mod].rel
    flt = next((b for b in bnode.body if isinstance(b, ast.FunctionDef) and b.name == "filter"), None)
    from ..model import body_without_docstring
    stub = flt is None or all(isinstance(x, ast.Pass) or (isinstance(x, ast.Expr) and isinstance(x.value, ast.Constant) and x.value.value is Ellipsis) or
                              (isinstance(x, ast.Raise)) for x in body_without_docstring(flt))
    fields = [f[0] for f in M.dataclass_fields(base)]
    params = [f for f in fields if f != "ar"]
    ops = [b for b in bnode.body if isinstance(b, ast.FunctionDef) and b.name in ("__and__", "__or__", "__xor__", "__sub__", "__add__", "__invert__")]
    if not ops:
        return [R.ok(rid, "operators", file, bnode.lineno, idiom="the filter classes define no combining operators")]
    for op in ops:
        key = f"PtnFilter.{op.name}"
        rets = [n for n in walk_no_nested(op) if isinstance(n, ast.Return) and n.value is not None]
        bad = []
        for r_ in rets:
            v = r_.value
            if not isinstance(v, ast.Call):
                bad.append(f"returns '{unparse(v)[:50]}', not a filter")
                continue
            ctor = unparse(v.func)
            dyn = ctor in ("type(self)", "self.__class__", "self.__class__.__call__") or (ctor in ("replace", "dataclasses.replace") and v.args and unparse(v.args[0]) == "self")
            if not dyn and stub:
                bad.append(f"builds its result with '{ctor}(…)': the base class's filter() is a stub, the operands' own test is lost")
                continue
            if ctor in ("replace", "dataclasses.replace"):
                continue
            given = {k.arg for k in v.keywords} | set(fields[:len(v.args)])
            missing = [p_ for p_ in params if p_ not in given]
            wrong = [k.arg for k in v.keywords if k.arg in params and unparse(k.value) != f"self.{k.arg}"]
            if missing:
                bad.append(f"the result does not receive {missing} of its operands (the defaults are not theirs)")
            elif wrong:
                bad.append(f"{wrong} of the result are not the left operand's")
        if not rets:
            insts.append(R.undec(rid, key, file, op.lineno, "no return found"))
        elif bad:
            insts.append(R.viol(rid, key, file, rets[0].lineno, "; ".join(bad), construct=f"{key}: " + "; ".join(bad)))
        else:
            insts.append(R.ok(rid, key, file, rets[0].lineno, idiom="the result is built by the operands' own class with their keys / invert setting"))
    return insts


def rule_dep(ctx):
    """obligations inherited from shared code reached through the call graph (sa/props/deps.py)"""
    from .deps import dep_insts
    return dep_insts(ctx, "C20", [PATTERN + ".from_note_lists", PATTERN + ".group", COMBO + ".combinations"], skip_groups=())


def stale_accumulators(fn_node):
    """an accumulator that one loop narrows (`acc &= ..` / `acc = acc & ..` in an inner loop) and the enclosing loop then CONSUMES once
    per iteration (`total |= acc`, `out.append(acc)`, ..) is a per-iteration value: it must be (re-)initialised inside that enclosing
    loop.  Initialised before it, every iteration after the first starts from what the previous one left.  -> [(outer loop, name, init)]"""
    out = []
    for outer in [n for n in ast.walk(fn_node) if isinstance(n, ast.For)]:
        inner = [n for st in outer.body for n in ast.walk(st) if isinstance(n, ast.For)]
        for nm in sorted({x.target.id for l_ in inner for x in ast.walk(l_) if isinstance(x, ast.AugAssign) and isinstance(x.target, ast.Name) and
                          isinstance(x.op, (ast.BitAnd, ast.Mult))}):
            # consumed by a direct statement of the outer body, after an inner loop
            consumed = [st for st in outer.body if not isinstance(st, ast.For) and any(isinstance(x, ast.Name) and x.id == nm and isinstance(x.ctx, ast.Load)
                                                                                      for x in ast.walk(st)) and
                        not (isinstance(st, ast.AugAssign) and isinstance(st.target, ast.Name) and st.target.id == nm)]
            if not consumed:
                continue
            init_inside = any(isinstance(st, ast.Assign) and any(isinstance(t, ast.Name) and t.id == nm for t in st.targets) for st in outer.body)
            inits = [st for st in ast.walk(fn_node) if isinstance(st, ast.Assign) and any(isinstance(t, ast.Name) and t.id == nm for t in st.targets)]
            out.append((outer, nm, init_inside, inits))
    return out


def rule_r10(ctx) -> List[R.Inst]:
    """the type filter accepts a row when it matches ANY of the filter's sequences; the per-sequence match is built by and-ing one test
    per position, so it starts from all-true for EVERY sequence"""
    M = ctx.M
    rid = "C20.R10"
    insts = []
    # the clean tree has no such accumulator: the rule carries a positive and a negative example and is analysis-broken without them
    ex = ast.parse("def bad(rows, d):\n    m = 1\n    t = 0\n    for r in rows:\n        for c in r:\n            m &= c\n        t |= m\n    return t\n"
                   "def good(rows, d):\n    t = 0\n    for r in rows:\n        m = 1\n        for c in r:\n            m &= c\n        t |= m\n    return t\n")
    got = [[(nm, inside) for _o, nm, inside, _i in stale_accumulators(f_)] for f_ in ex.body]
    if got != [[("m", False)], [("m", True)]]:
        return [R.undec(rid, "accumulator:self-example", "", 0, f"the rule no longer tells its own examples apart: {got}")]
    insts.append(R.ok(rid, "accumulator:self-example", "", 0, idiom="hoisted initialisation recognised, the per-iteration one accepted"))
    for cls in ("PtnFilterCombo", "PtnFilterChord", "PtnFilterType"):
        f = M.fn(f"{FILTERS}.{cls}.filter")
        file = M.mods[f.mod].rel
        for outer, nm, inside, inits in stale_accumulators(f.node):
            key = f"{cls}.filter:{nm}"
            if inside:
                insts.append(R.ok(rid, key, file, outer.lineno, idiom=f"'{nm}' starts afresh for every sequence of the filter"))
            else:
                insts.append(R.viol(rid, key, file, (inits[0] if inits else outer).lineno,
                                    f"'{nm}' is narrowed once per position and consumed once per sequence of the filter, but it is initialised "
                                    f"BEFORE the loop over the sequences: from the second sequence on it starts from the previous result, so only "
                                    f"the first sequence can match (combinations go missing; with 'exclude', extra ones are reported)",
                                    construct=f"{cls}.filter: '{nm}' initialised outside the per-sequence loop"))
    if len(insts) == 1:
        insts.append(R.ok(rid, "filters:no-per-sequence-accumulator", "", 0, idiom="no filter narrows an accumulator per position inside a per-sequence loop"))
    return insts


def rule_r11(ctx) -> List[R.Inst]:
    """templates: an EXCLUDING type filter whose base sequence marks one position with a tag and leaves the others open (`object`)
    states 'no <tag> anywhere in the sequence' only if the option expansion moves the tag to every position: ANY_ORDER does,
    MIRROR reaches the first and the last position only (enough for length 2), no option reaches the first only.  Positions covered
    are read off the options= expression; the length off the sequence display (`[T] + [object] * (n - 1)` is open-ended)."""
    M = ctx.M
    rid = "C20.R11"
    insts = []
    for q, fn in sorted(M.funcs.items()):
        if not q.startswith("reamber.algorithms.pattern.combos.") or CTL_NAME in q or not fn.node.name.startswith("template_"):
            continue
        file = M.mods[fn.mod].rel
        for c in walk_no_nested(fn.node):
            if not (isinstance(c, ast.Call) and isinstance(c.func, ast.Attribute) and c.func.attr == "create" and unparse(c.func.value).endswith("PtnFilterType")):
                continue
            key = f"{short_q(q)}:type-filter"
            kws = {k.arg: k.value for k in c.keywords}
            seqs = c.args[0] if c.args else kws.get("types") or kws.get("types_")
            opts, excl = kws.get("options"), kws.get("exclude")
            if not (isinstance(seqs, ast.List) and len(seqs.elts) == 1) or opts is None or not isinstance(excl, ast.Constant):
                insts.append(R.undec(rid, key, file, c.lineno, "type filter of a template is not `create([[..one sequence..]], options=.., exclude=<const>)`"))
                continue
            if excl.value is not True:
                insts.append(R.ok(rid, key, file, c.lineno, idiom="including type filter: positions are meant as written"))
                continue

            def parts(e):
                """-> (list of element names, open_ended) or None"""
                if isinstance(e, ast.List) and all(isinstance(x, (ast.Name, ast.Attribute)) for x in e.elts):
                    return [unparse(x) for x in e.elts], False
                if isinstance(e, ast.BinOp) and isinstance(e.op, ast.Add):
                    a, b = parts(e.left), parts(e.right)
                    return None if a is None or b is None else (a[0] + b[0], a[1] or b[1])
                if isinstance(e, ast.BinOp) and isinstance(e.op, ast.Mult):
                    lst, k = (e.left, e.right) if isinstance(e.left, ast.List) else (e.right, e.left)
                    a = parts(lst)
                    if a is None:
                        return None
                    if isinstance(k, ast.Constant) and isinstance(k.value, int):
                        return a[0] * k.value, a[1]
                    return a[0], True                     # repeated a parameter-dependent number of times
                return None
            pr = parts(seqs.elts[0])
            if pr is None:
                insts.append(R.undec(rid, key, file, c.lineno, f"base sequence '{unparse(seqs.elts[0])[:60]}' is not a display of tags"))
                continue
            names, open_ended = pr
            tags = [n for n in names if n != "object"]
            if len(tags) != 1 or len(tags) == len(names):
                insts.append(R.ok(rid, key, file, c.lineno, idiom="no single tag among open positions"))
                continue
            alts = [opts.body, opts.orelse] if isinstance(opts, ast.IfExp) else [opts]
            bad = None
            for a in alts:
                flags = {x.attr for x in ast.walk(a) if isinstance(x, ast.Attribute) and x.attr.isupper()}
                if any(isinstance(x, ast.Name) for x in ast.walk(a) if not (isinstance(x, ast.Name) and x.id in ("PtnFilterType",))) and not flags:
                    bad = ("?", a)
                    break
                n_fixed = len(names)
                covered_all = "ANY_ORDER" in flags or ("MIRROR" in flags and not open_ended and n_fixed <= 2) or (not open_ended and n_fixed == 1)
                if not covered_all:
                    bad = (sorted(flags), a)
                    break
            if bad and bad[0] == "?":
                insts.append(R.undec(rid, key, file, c.lineno, f"options '{unparse(bad[1])[:60]}' are not flag constants"))
            elif bad:
                insts.append(R.viol(rid, key, file, opts.lineno,
                                    f"the excluding type filter marks one position with '{tags[0].split('.')[-1]}' among "
                                    f"{'n - 1' if open_ended else len(names) - 1} open ones and expands it with {bad[0] or 'no option'}: "
                                    f"the tag reaches {'the first and last position' if 'MIRROR' in bad[0] else 'the first position'} only, so a sequence with "
                                    f"a {tags[0].split('.')[-1]} at an inner position (length >= 3) is not excluded — extra combinations are reported",
                                    construct=f"{short_q(q)}: exclude [{tags[0]}, object..] with {'|'.join(bad[0]) or '0'}"))
            else:
                insts.append(R.ok(rid, key, file, c.lineno, idiom=f"'{tags[0].split('.')[-1]}' excluded at every position (ANY_ORDER"
                                                                   f"{'' if open_ended or len(names) > 2 else ' or MIRROR at length 2'})"))
    return insts


SPECS = [
    RuleSpec("C20.R1", rule_r1, 3, "A5", "Pattern.df is always offset-sorted with a positional index; positional unpack and record fields agree"),
    RuleSpec("C20.R2", rule_r2, 6, "A8", "skip grouped notes; the mask that marks is the mask that is appended; window shapes"),
    RuleSpec("C20.R3", rule_r3, 5, "A7", "chunks are consecutive groups of exactly `size`; full cartesian product; filters on their own fields"),
    RuleSpec("C20.R5", rule_r5, 5, "A7", "REPEAT option: shift range computed per base combo"),
    RuleSpec("C20.R4", rule_r4, 7, "A7", "chord filter tests row membership; exclude = negation; option flags distinct bits"),
    RuleSpec("C20.R6", rule_r6, 2, "M0", "the type filter is issubclass, so the tags assigned by the pattern (note classes, HoldTail) are unrelated classes"),
    RuleSpec("C20.R7", rule_r7, 1, "A7", "template option flags: no conditional expression swallowing an unconditional flag"),
    RuleSpec("C20.R9", rule_r9, 2, "A7", "AND_HIGHER / AND_LOWER generate the per-position ranges from the smallest / up to the largest given size"),
    RuleSpec("C20.R8", rule_r8, 1, "A7", "combined filters (a | b, a & b) are filters of the operands' class with the operands' parameters"),
    RuleSpec("C20.R10", rule_r10, 2, "A8", "a per-sequence accumulator of a filter is initialised inside the per-sequence loop"),
    RuleSpec("C20.R11", rule_r11, 2, "A7", "templates: an excluding one-tag type filter is expanded to every position of the sequence"),
    RuleSpec("C20.D", rule_dep, 1, "M0", "rules of the shared code (timing engine, list classes, stacker) that the operations of this property reach"),
]

META = dict(
    explanation=(
        "Pattern: every assignment to Pattern.df sorts by offset and re-indexes positionally (precondition of the bisect "
        "window and of using the row label as a position), rows are unpacked in frame-column order and only existing "
        "record fields are read; in group() a note already grouped never starts a group, the candidate view is the "
        "currently ungrouped notes, and the very mask that marks notes as grouped selects the appended group (so the "
        "groups partition the notes); the vertical window is [offset, offset+v] by bisect on the sorted offsets, the "
        "horizontal window |column - reference| <= h, and with jacks avoided one note per distinct column; "
        "combinations() enumerates groups[i:i+size] for every i (rational-function comparison of the range bounds), "
        "builds the full cartesian product and applies each filter to its own field; the chord filter must test "
        "membership of the whole size row; option flags are distinct single bits. The type filter matches with issubclass, so the tag classes the pattern assigns (note classes, HoldTail) must be unrelated (R6). An excluding template type filter with one tag among open positions is expanded to every position (R11)."),
    not_decided="bisect bounds on ties at the window edge, completeness of numpy.meshgrid/reshape (trusted), hash collisions of the combo filter for columns >= keys",
)
