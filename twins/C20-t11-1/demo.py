"""Demo for C20 / change 1: Pattern.group with Pattern.v_mask / Pattern.h_mask.

Prints one line `DIGEST <hex>`: sha256 over a canonical text dump of every
result (group membership, dtypes, array classes, exception types, and the
pattern frame after grouping to show that grouping does not modify it).
"""
import hashlib
import random

import numpy as np
import pandas as pd

from reamber.algorithms.pattern import Pattern
from reamber.algorithms.pattern.combos import PtnCombo
from reamber.base.Hit import Hit
from reamber.base.Hold import Hold, HoldTail
from reamber.base.lists.notes.HitList import HitList
from reamber.base.lists.notes.HoldList import HoldList
from reamber.osu.OsuHit import OsuHit
from reamber.osu.OsuHold import OsuHold
from reamber.osu.lists.notes.OsuHitList import OsuHitList
from reamber.osu.lists.notes.OsuHoldList import OsuHoldList

random.seed(20_001)
OUT = []


def emit(*parts):
    OUT.append(" | ".join(str(p) for p in parts))


def cell(x):
    if isinstance(x, type):
        return f"<{x.__module__}.{x.__qualname__}>"
    if isinstance(x, (tuple, list, np.void, np.record)):
        return "(" + ",".join(cell(i) for i in x) + ")"
    return f"{type(x).__name__}:{x!r}"


def dump_ar(ar):
    if not isinstance(ar, np.ndarray):
        return cell(ar)
    return (
        f"{type(ar).__name__} dtype={ar.dtype!s} shape={ar.shape} "
        f"vals=[{';'.join(cell(i) for i in ar.tolist())}]"
    )


def dump_df(df):
    return (
        f"cols={list(df.columns)} dtypes={[str(t) for t in df.dtypes]} "
        f"index={type(df.index).__name__}:{list(df.index)} "
        f"rows=[{';'.join(cell(tuple(r)) for r in df.itertuples(index=False))}]"
    )


def run(label, fn):
    try:
        res = fn()
    except Exception as e:  # noqa
        emit(label, "EXC", type(e).__name__)
        return None
    return res


V_WINDOWS = [0, 0.0, 1, 49.5, 50.0, 100, 250.25, 1e9, float("inf")]
H_WINDOWS = [None, 0, 1, 2, 3, 9]


def check_partition(p, groups, v, h, avoid_jack):
    """The property itself, as a sanity check (AssertionError is digested too)"""
    rows = sorted(
        (cell(tuple(r)) for r in p.df.itertuples(index=False))
    )
    got = sorted(cell(i) for g in groups for i in g.tolist())
    assert rows == got, "not a partition"
    for g in groups:
        assert len(g) > 0
        o0, c0 = g["offset"][0], g["column"][0]
        assert all(o0 <= o <= o0 + v for o in g["offset"].tolist())
        if h is not None:
            assert all(abs(c0 - c) <= h for c in g["column"].tolist())
        if avoid_jack:
            assert len(set(g["column"].tolist())) == len(g)


def exercise(name, p: Pattern, windows):
    emit("PATTERN", name, len(p), dump_df(p.df))
    for v, h, aj in windows:
        label = f"{name} group v={v!r} h={h!r} aj={aj!r}"
        before = p.df.copy(deep=True)
        groups = run(label, lambda: p.group(v_window=v, h_window=h, avoid_jack=aj))
        assert before.equals(p.df) and list(before.dtypes) == list(p.df.dtypes)
        emit(label, "AFTER", dump_df(p.df))
        if groups is None:
            continue
        emit(label, type(groups).__name__, len(groups))
        for e, g in enumerate(groups):
            emit(label, e, dump_ar(g))
        run(label + " property", lambda: check_partition(p, groups, v, h, aj))
        # Downstream consumer: the combinations see the same groups
        for size in (2, 3, 4):
            combos = run(
                label + f" combos{size}",
                lambda: PtnCombo(groups).combinations(size=size),
            )
            if combos is not None:
                emit(label, f"combos{size}", len(combos),
                     hashlib.sha256("".join(dump_ar(c) for c in combos).encode()).hexdigest())


def rand_windows(k):
    ws = [(50.0, None, True), (0, 0, True), (0, None, False)]
    for _ in range(k):
        ws.append(
            (random.choice(V_WINDOWS), random.choice(H_WINDOWS), random.choice([True, False]))
        )
    return ws


def rand_notes(n, keys, step_choices, with_holds=True):
    cols, offsets, types = [], [], []
    t = random.choice([-500, 0, 0.5, 1000])
    for _ in range(n):
        t += random.choice(step_choices)
        chord = random.randint(1, min(keys, 4))
        # repeated columns at the same time are allowed on purpose
        for _ in range(chord):
            c = random.randrange(keys)
            if with_holds and random.random() < 0.3:
                cols += [c, c]
                length = random.choice([0, 10, 50, 120, 400])
                offsets += [t, t + length]
                types += [Hold, HoldTail]
            else:
                cols.append(c)
                offsets.append(t)
                types.append(Hit)
    # feed them unsorted
    order = list(range(len(cols)))
    random.shuffle(order)
    return [cols[i] for i in order], [offsets[i] for i in order], [types[i] for i in order]


# ---- 1. fixed small cases and edge cases ---------------------------------
exercise("empty", Pattern([], [], []), rand_windows(4))
exercise("single", Pattern([3], [100], [Hit]), rand_windows(4))
exercise(
    "fixture",
    Pattern([0, 1, 1, 2, 2, 3, 2], [0, 0, 100, 100, 200, 200, 300],
            [Hit, Hit, Hit, Hold, HoldTail, Hit, Hit]),
    [(v, h, aj) for v in (0, 100, 200) for h in (None, 0, 1) for aj in (True, False)],
)
exercise("all-same-time", Pattern([2, 2, 0, 2, 1, 0], [5] * 6, [Hit] * 6),
         [(v, h, aj) for v in (0, 10) for h in (None, 0, 1, 2) for aj in (True, False)])
exercise("one-column-jack", Pattern([1] * 7, [0, 10, 20, 30, 40, 50, 60], [Hit] * 7),
         [(v, h, aj) for v in (0, 10, 25, 1000) for h in (None, 0) for aj in (True, False)])
exercise("negative-times", Pattern([0, 3, 1, 2], [-100.5, -100.5, -50, 0], [Hit] * 4),
         rand_windows(6))
exercise("float-columns", Pattern([0.0, 1.0, 1.0, 2.0], [0, 0, 10, 10], [Hit] * 4),
         rand_windows(6))
exercise("nan-columns", Pattern([0.0, float("nan"), float("nan"), 2.0], [0, 0, 10, 10],
                                [Hit] * 4),
         [(v, h, aj) for v in (0, 10, 100) for h in (None, 1) for aj in (True, False)])
exercise("object-columns", Pattern(np.array([0, 1, 1, 2, 0], dtype=object).tolist(),
                                   [0, 0, 10, 10, 20], [Hit] * 5), rand_windows(6))
exercise("big-columns", Pattern([0, 17, 9, 17, 3], [0, 1, 2, 3, 4], [Hit] * 5), rand_windows(6))

# invalid windows
p_bad = Pattern([0, 1], [0, 10], [Hit, Hit])
for v, h in [(-1, None), (-0.001, 2), (10, -1), (-5, -5), (0, -3), (float("nan"), None),
             (float("nan"), 1)]:
    label = f"bad v={v!r} h={h!r}"
    g = run(label, lambda: p_bad.group(v, h))
    if g is not None:
        emit(label, [dump_ar(i) for i in g])

# ---- 2. random patterns ---------------------------------------------------
for case in range(40):
    keys = random.choice([1, 2, 4, 4, 7, 7, 10, 18])
    n = random.choice([1, 2, 3, 5, 8, 13, 21])
    steps = random.choice([[0, 25, 50], [50], [0, 0, 10], [33.3, 66.7, 100], [1, 2, 500]])
    cols, offsets, types = rand_notes(n, keys, steps, with_holds=case % 3 != 0)
    exercise(f"rand{case}-k{keys}", Pattern(cols, offsets, types), rand_windows(5))

# ---- 3. from_note_lists, with and without tails ----------------------------
for case in range(10):
    keys = random.choice([4, 7])
    hits = [Hit(random.choice([0, 50, 100, 150, 200, 400]), random.randrange(keys))
            for _ in range(random.randint(0, 8))]
    holds = [Hold(random.choice([0, 50, 100, 150]), random.randrange(keys),
                  random.choice([0, 50, 75, 300]))
             for _ in range(random.randint(0, 5))]
    for tails in (True, False):
        p = run(f"nl{case} tails={tails}",
                lambda: Pattern.from_note_lists([HitList(hits), HoldList(holds)], tails))
        if p is not None:
            exercise(f"nl{case}-tails{tails}", p, rand_windows(3))
osu_p = Pattern.from_note_lists(
    [OsuHitList([OsuHit(0, 0), OsuHit(0, 3), OsuHit(40, 0), OsuHit(90, 1)]),
     OsuHoldList([OsuHold(0, 1, 90), OsuHold(40, 2, 10)])])
exercise("osu", osu_p, rand_windows(6))

# ---- 4. the masks directly -------------------------------------------------
def mk(cols, offsets, col_dtype="i8", off_dtype="f8"):
    return np.array(list(zip(cols, offsets)), dtype=[("column", col_dtype), ("offset", off_dtype)])


MASK_ARRAYS = {
    "empty": mk([], []),
    "one": mk([2], [10]),
    "ties": mk([0, 1, 1, 0, 2, 2, 1], [0, 0, 0, 10, 10, 20, 20]),
    "ints": mk([3, 3, 3, 1], [0, 5, 10, 15], "i4", "i8"),
    "u8": mk([3, 0, 5, 1], [0, 5, 10, 15], "u1", "f4"),
}
for _ in range(12):
    n = random.randint(1, 12)
    MASK_ARRAYS[f"r{_}"] = mk([random.randrange(5) for _ in range(n)],
                              sorted(random.choice([0, 10, 20, 30, 45.5]) for _ in range(n)))
for name, ar in MASK_ARRAYS.items():
    ar_before = ar.copy()
    for rec in (False, True):
        a = ar.view(np.recarray) if rec else ar
        for offset in (-10, 0, 5, 10, 20, 45.5, 1000):
            for v in (0, 10, 15.5, float("inf")):
                for aj in (True, False, 1, 0):
                    label = f"v_mask {name} rec={rec} o={offset} v={v} aj={aj!r}"
                    m = run(label, lambda: Pattern.v_mask(a, offset, v, aj))
                    if m is not None:
                        emit(label, dump_ar(m), m.flags.writeable)
        for col in (-1, 0, 1, 2, 4, 2.5):
            for h in (0, 1, 2, 0.5, 100):
                label = f"h_mask {name} rec={rec} c={col} h={h}"
                m = run(label, lambda: Pattern.h_mask(a, col, h))
                if m is not None:
                    emit(label, dump_ar(m), m.flags.writeable)
    assert ar.tobytes() == ar_before.tobytes()

text = "\n".join(OUT)
import os
if os.environ.get("C20_DUMP"):
    open(os.environ["C20_DUMP"], "w").write(text)
print("DIGEST", hashlib.sha256(text.encode()).hexdigest())
