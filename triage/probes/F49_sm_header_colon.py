"""F49 (C03 / C02): .sm header values containing ':'.
Run:  cd /repo && /venv/bin/python /verif/triage/probes/F49_sm_header_colon.py    (pinned tree: ('Re', '120'))"""
import warnings
warnings.simplefilter("ignore")
from reamber.sm import SMMapSet, SMMap
from reamber.sm.SMBpm import SMBpm
from reamber.sm.SMHit import SMHit
from reamber.sm.lists.SMBpmList import SMBpmList
from reamber.sm.lists.notes import SMHitList
m = SMMap(); m.bpms = SMBpmList([SMBpm(0.0, 120.0)]); m.hits = SMHitList([SMHit(0.0, 0)])
ms = SMMapSet(); ms.maps = [m]; ms.offset = 0.0
ms.title = "Re:Zero"; ms.display_bpm = "120:180"
r = SMMapSet.read(ms.write())
print(r.title, r.display_bpm)
assert (r.title, r.display_bpm) == ("Re:Zero", "120:180")
print("ok")
