"""Behaviour digest for the BMS reading path (property C04).

Run as
    cd /tmp/wt7/C04 && PYTHONPATH=/tmp/wt7/C04 /venv/bin/python demo.py

Prints one line `DIGEST <sha256>` over a canonical text dump of
  * BMSMap.read on several dozen generated BMS texts for each of the five
    shipped channel layouts (values, dtypes, column order, row labels, header
    fields, raised exception types, and the input lines afterwards),
  * from_bpm_changes_snap / TimingMap.offsets / TimingMap.snaps / reseat called
    directly on generated tempo lists (unsorted, tied, single, empty, negative
    initial offset) including the arguments afterwards,
  * BMSMap._read_file_header on generated header dictionaries.
"""
import copy
import hashlib
import logging
import random
import warnings
from fractions import Fraction

import numpy as np

from reamber.algorithms.timing.TimingMap import TimingMap
from reamber.algorithms.timing.utils.BpmChangeOffset import BpmChangeOffset
from reamber.algorithms.timing.utils.BpmChangeSnap import BpmChangeSnap
from reamber.algorithms.timing.utils.Snapper import Snapper
from reamber.algorithms.timing.utils.from_bpm_changes_snap import (
    from_bpm_changes_snap,
)
from reamber.algorithms.timing.utils.snap import Snap
from reamber.bms.BMSChannel import BMSChannel
from reamber.bms.BMSMap import BMSMap

logging.disable(logging.CRITICAL)
warnings.simplefilter("ignore")

OUT = []


def emit(*parts):
    OUT.append(" ".join(str(p) for p in parts))


# --------------------------------------------------------------------- dumps
def canon(v):
    """Canonical text of a scalar/container, with the type names"""
    if isinstance(v, (float, np.floating)):
        return f"{type(v).__name__}:{float(v)!r}"
    if isinstance(v, (bool, np.bool_)):
        return f"{type(v).__name__}:{bool(v)}"
    if isinstance(v, (int, np.integer)):
        return f"{type(v).__name__}:{int(v)}"
    if isinstance(v, Fraction):
        return f"Fraction:{v.numerator}/{v.denominator}"
    if isinstance(v, (bytes, str)) or v is None:
        return f"{type(v).__name__}:{v!r}"
    if isinstance(v, Snap):
        return f"Snap({canon(v.measure)},{canon(v.beat)},{canon(v.metronome)})"
    if isinstance(v, BpmChangeSnap):
        return f"BCS({canon(v.bpm)},{canon(v.metronome)},{canon(v.snap)})"
    if isinstance(v, BpmChangeOffset):
        return f"BCO({canon(v.bpm)},{canon(v.metronome)},{canon(v.offset)})"
    if isinstance(v, dict):
        return "{" + ",".join(f"{canon(k)}=>{canon(x)}" for k, x in v.items()) + "}"
    if isinstance(v, (list, tuple)):
        return type(v).__name__ + "[" + ",".join(canon(x) for x in v) + "]"
    if isinstance(v, np.ndarray):
        return (
            f"ndarray<{v.dtype},{v.shape}>["
            + ",".join(canon(x) for x in v.tolist())
            + "]"
            if v.dtype != object
            else f"ndarray<object,{v.shape}>[" + ",".join(canon(x) for x in v) + "]"
        )
    return f"{type(v).__name__}:{v!r}"


def dump_df(name, df):
    emit(name, "columns", list(df.columns))
    emit(name, "dtypes", [str(t) for t in df.dtypes])
    emit(name, "index", type(df.index).__name__, list(df.index))
    for row in df.itertuples(index=True, name=None):
        emit(name, "row", ",".join(canon(x) for x in row))


def dump_map(m):
    emit("title", canon(m.title), "artist", canon(m.artist))
    emit("version", canon(m.version), "lnobj", canon(m.ln_end_channel))
    emit("exbpms", canon(m.exbpms))
    emit("samples", canon(m.samples))
    emit("misc", canon(m.misc))
    emit("types", type(m.hits).__name__, type(m.holds).__name__, type(m.bpms).__name__)
    dump_df("hits", m.hits.df)
    dump_df("holds", m.holds.df)
    dump_df("bpms", m.bpms.df)


def attempt(label, fn):
    try:
        r = fn()
    except BaseException as e:  # noqa
        emit(label, "RAISED", type(e).__name__, str(e))
        return None
    return r


# ----------------------------------------------------------------- generator
B36 = "0123456789ABCDEFGHIJKLMNOPQRSTUVWXYZ"
LAYOUTS = {
    "BMS": BMSChannel.BMS,
    "BME": BMSChannel.BME,
    "PMS": BMSChannel.PMS,
    "PMS_BME": BMSChannel.PMS_BME,
    "PMS_5B": BMSChannel.PMS_5B,
}
DIVS = [1, 2, 3, 4, 5, 6, 7, 8, 12, 16, 24, 32, 48, 64, 96, 192]


def obj_id(rng, exclude=()):
    while True:
        s = rng.choice(B36) + rng.choice(B36)
        if s != "00" and s not in exclude:
            return s


def gen_text(rng, layout, *, n_measures, with_ln, with_tempo, bad_ln=False,
             tempo_at_zero=False, shuffle=True, duplicate_lines=True,
             noise=True, float_bpm=False):
    note_channels = [k.decode() for k, v in layout.items() if isinstance(v, int)]
    lnobj = obj_id(rng) if with_ln else None
    wav_ids = [obj_id(rng, exclude=(lnobj,)) for _ in range(rng.randint(0, 8))]
    ex_ids = [obj_id(rng) for _ in range(rng.randint(1, 4))] if with_tempo else []

    head = [
        "#PLAYER 1",
        f"#GENRE gen {rng.randint(0, 99)}",
        f"#TITLE song {rng.randint(0, 999)} [ANOTHER  7]",
        f"#ARTIST art ist/{rng.randint(0, 99)}",
        f"#BPM {rng.choice([60, 90, 120, 150, 200, 333]) + (rng.choice([0.5, 0.25, 0.125]) if float_bpm else 0)}",
        f"#PLAYLEVEL {rng.randint(1, 12)}",
        "#RANK 3",
        "#TOTAL 250.5",
        "#STAGEFILE",  # unfilled header
    ]
    if lnobj:
        head.append(f"#LNOBJ {lnobj}")
    for w in wav_ids:
        head.append(f"#WAV{w} snd_{w} x.wav")
    for e in ex_ids:
        head.append(
            f"#BPM{e} {rng.choice([45.5, 99.99, 128.125, 180.0, 222.25, 61.0625])}"
        )
    if rng.random() < 0.3:
        head.append("#bpmzz 77.5")  # lower case extended tempo key
    if rng.random() < 0.3:
        head.append("#BPMXYZ 12")  # 6 byte key: stays an 'other header'

    body = []
    # one line = (measure, channel, list of slots)
    lane_last = {c: None for c in note_channels}  # has the lane an open head?
    for measure in range(n_measures):
        for ch in note_channels:
            if rng.random() < 0.55:
                continue
            for _ in range(rng.choice([1, 1, 1, 2, 3]) if duplicate_lines else 1):
                div = rng.choice(DIVS)
                slots = ["00"] * div
                for i in range(div):
                    r = rng.random()
                    if r < 0.35:
                        pool = wav_ids if wav_ids and rng.random() < 0.7 else None
                        slots[i] = rng.choice(pool) if pool else obj_id(
                            rng, exclude=(lnobj,)
                        )
                        lane_last[ch] = "hit"
                    elif lnobj and r < 0.5 and (lane_last[ch] == "hit" or bad_ln):
                        slots[i] = lnobj
                        lane_last[ch] = None
                body.append(f"#{measure:03}{ch}:{''.join(slots)}")
        if with_tempo and rng.random() < 0.6:
            div = rng.choice(DIVS)
            slots = ["00"] * div
            for i in range(div):
                if rng.random() < 0.25:
                    slots[i] = f"{rng.randint(16, 255):02X}"
            body.append(f"#{measure:03}03:{''.join(slots)}")
        if with_tempo and rng.random() < 0.6:
            div = rng.choice(DIVS)
            slots = ["00"] * div
            for i in range(div):
                if rng.random() < 0.25:
                    slots[i] = rng.choice(ex_ids)
            body.append(f"#{measure:03}08:{''.join(slots)}")
        if noise and rng.random() < 0.4:
            # channels outside the layout (BGM / BGA): ignored by the reader
            body.append(f"#{measure:03}01:{obj_id(rng)}00{obj_id(rng)}00")
            body.append(f"#{measure:03}04:00{obj_id(rng)}")
    if tempo_at_zero:
        body.insert(0, "#00003:" + f"{rng.randint(16, 255):02X}" + "00" * rng.choice([0, 1, 3]))
    if shuffle:
        rng.shuffle(body)
    lines = head + body
    if noise:
        for _ in range(3):
            lines.insert(rng.randint(0, len(lines)), rng.choice(
                ["", "   ", "* comment", "plain text 00111:0101", "\t"]))
        # whitespace around lines must not matter
        lines = [("  " + l + " \r\n") if rng.random() < 0.2 else l for l in lines]
    return lines


def run_read_cases():
    rng = random.Random(40404)
    case = 0
    for lname, layout in LAYOUTS.items():
        for k in range(14):
            case += 1
            params = dict(
                n_measures=rng.choice([0, 1, 2, 3, 5, 8]),
                with_ln=k % 2 == 0,
                with_tempo=k % 3 != 0,
                bad_ln=k == 12,
                tempo_at_zero=k in (4, 5, 10),
                shuffle=k % 4 != 1,
                duplicate_lines=k % 5 != 2,
                noise=k % 2 == 1,
                float_bpm=k % 7 == 3,
            )
            lines = gen_text(rng, layout, **params)
            before = list(lines)
            emit("== read case", case, lname, sorted(params.items()))
            m = attempt("read", lambda: BMSMap.read(lines, layout))
            if m is not None:
                dump_map(m)
            emit("input-unchanged", lines == before, len(lines))
            emit("layout-unchanged", canon(layout))

    # fixed edge cases ------------------------------------------------------
    edge_texts = {
        "header only": ["#TITLE t", "#BPM 120"],
        "no bpm header": ["#TITLE t", "#00111:01"],
        "empty": [],
        "only objects": ["#BPM 100", "#00111:0A", "#00012:0B0C", "#00213:000D"],
        "tail without head": ["#BPM 100", "#LNOBJ ZZ", "#00111:ZZ"],
        "tail before head in file": ["#BPM 100", "#LNOBJ ZZ", "#00211:ZZ", "#00111:01"],
        "two heads one tail": ["#BPM 100", "#LNOBJ ZZ", "#00111:0102", "#00211:00ZZ"],
        "tempo first line at 0": ["#BPM 100", "#00003:80", "#00111:01010101"],
        "tempo at 0 but not first": ["#BPM 100", "#00103:80", "#00003:40", "#00111:0101"],
        "same snap tempos": ["#BPM 100", "#BPM01 50.5", "#00103:0080", "#00108:0001",
                             "#00111:01010101", "#00211:01"],
        "unknown ex tempo": ["#BPM 100", "#00108:0A"],
        "bad hex tempo": ["#BPM 100", "#00103:GG"],
        "odd length line": ["#BPM 100", "#00111:010"],
        "one char line": ["#BPM 100", "#00111:1"],
        "one char zero": ["#BPM 100", "#00111:0"],
        "no colon": ["#BPM 100", "#00111"],
        "lone hash": ["#BPM 100", "#"],
        "hash space": ["#BPM 100", "# x"],
        "dup header": ["#BPM 100", "#TITLE a", "#TITLE b", "#BPM 200", "#00111:01"],
        "wav and sample": ["#BPM 100", "#WAV0A a.wav", "#wav0b b.wav", "#00111:0A0B0C"],
        "bad ex bpm": ["#BPM 100", "#BPM01 abc"],
        "late measure": ["#BPM 100", "#99911:01", "#50003:20", "#00011:01"],
        "lnobj lower": ["#BPM 100", "#LNOBJ zz", "#00111:01zz", "#00211:01ZZ"],
        "japanese title": ["#BPM 100", "#TITLE あい う", "#ARTIST ア", "#00111:01"],
    }
    for name, lines in edge_texts.items():
        for lname, layout in LAYOUTS.items():
            before = list(lines)
            emit("== edge", name, lname)
            m = attempt("read", lambda: BMSMap.read(lines, layout))
            if m is not None:
                dump_map(m)
            emit("input-unchanged", lines == before)
    # default layout argument
    emit("== default layout")
    m = attempt("read", lambda: BMSMap.read(edge_texts["only objects"]))
    if m is not None:
        dump_map(m)


# ----------------------------------------------------------- timing directly
def gen_bcs(rng, n, metronomes=(4,), on_measure=False, ties=False):
    out = [BpmChangeSnap(rng.choice([60, 120.5, 200, 333.25]), 4, Snap(0, 0, 4))]
    for _ in range(n - 1):
        met = rng.choice(metronomes)
        beat = 0 if on_measure else Fraction(rng.randint(0, 4 * 48 - 1), 48) % met
        snap = Snap(rng.randint(0, 6), beat, met)
        out.append(BpmChangeSnap(rng.choice([30, 75, 150.75, 240, 999.5]), met, snap))
        if ties and rng.random() < 0.4:
            out.append(
                BpmChangeSnap(rng.choice([64, 128]), met, Snap(snap.measure, snap.beat, met))
            )
    return out


def run_timing_cases():
    rng = random.Random(50505)
    snapper = Snapper()
    for k in range(60):
        n = rng.choice([1, 1, 2, 3, 5, 9])
        bcs_s = gen_bcs(
            rng, n,
            metronomes=(4,) if k % 3 else (4, 3, 5, 2),
            on_measure=k % 4 == 0,
            ties=k % 5 == 0,
        )
        if k % 2:
            rng.shuffle(bcs_s)  # caller need not sort (first may not be at 0 now)
        initial = rng.choice([0, 0.0, 12.5, -300.25, 1000, -7])
        reseat = k % 6 == 5
        before = canon(bcs_s)
        emit("== timing case", k, "n", len(bcs_s), "initial", canon(initial), "reseat", reseat)
        tm = attempt("from_bcs", lambda: from_bpm_changes_snap(initial, bcs_s, reseat))
        emit("bcs-arg-unchanged", canon(bcs_s) == before)
        if tm is None:
            continue
        emit("tm", type(tm).__name__, canon(tm.bpm_changes_offset))
        emit("tm.bcs", canon(attempt("bcs", tm.bpm_changes_snap)))

        # the module-level alias used by BMSMap (keyword form)
        from reamber.algorithms.timing import TimingMap as tm_module
        tm2 = attempt("from_bcs kw", lambda: tm_module.from_bpm_changes_snap(
            initial_offset=initial, bcs_s=bcs_s, reseat=reseat))
        if tm2 is not None:
            emit("tm2", canon(tm2.bpm_changes_offset))

        # offsets of snaps: unsorted, with duplicates, empty, tuple and list
        m = rng.choice([0, 1, 2, 7, 20])
        snaps = [
            Snap(rng.randint(0, 8), Fraction(rng.randint(0, 4 * 96 - 1), 96), None)
            for _ in range(m)
        ]
        if m > 2:
            snaps.append(snaps[0])
            snaps.append(Snap(0, Fraction(0), None))
        snaps_before = canon(snaps)
        bco_before = canon(tm.bpm_changes_offset)
        res = attempt("offsets", lambda: tm.offsets(snaps))
        emit("offsets", canon(res))
        res = attempt("offsets tuple", lambda: tm.offsets(tuple(snaps)))
        emit("offsets tuple", canon(res))
        emit("snaps-arg-unchanged", canon(snaps) == snaps_before,
             "tm-unchanged", canon(tm.bpm_changes_offset) == bco_before)

        # snaps of offsets: unsorted, duplicates, before the first bpm, empty
        last = tm.bpm_changes_offset[-1].offset
        first = tm.bpm_changes_offset[0].offset
        offs = [rng.uniform(first, last + 5000) for _ in range(rng.choice([0, 1, 3, 12]))]
        if len(offs) > 1:
            offs.append(offs[0])
            offs.append(first)
        if k % 7 == 0:
            offs.append(first - 10)  # nothing active there
        offs_before = list(offs)
        res = attempt("snaps", lambda: tm.snaps(offs, snapper))
        emit("snaps", canon(res))
        res = attempt("snaps ndarray", lambda: tm.snaps(np.array(offs), snapper))
        emit("snaps ndarray", canon(res))
        emit("offs-arg-unchanged", offs == offs_before,
             "tm-unchanged", canon(tm.bpm_changes_offset) == bco_before)
        res = attempt("beats", lambda: tm.beats(offs, snapper))
        emit("beats", canon(res))
        rs = attempt("reseat", tm.reseat)
        if rs is not None:
            emit("reseat", canon(rs.bpm_changes_offset))

    # a snap before every bpm change and an empty bpm list
    tm = from_bpm_changes_snap(0, [BpmChangeSnap(120, 4, Snap(0, 0, 4))], False)
    emit("single offsets", canon(attempt("o", lambda: tm.offsets([Snap(3, 1, None), Snap(0, 0, None)]))))
    emit("empty offsets", canon(attempt("o", lambda: tm.offsets([]))))
    emit("empty snaps", canon(attempt("s", lambda: tm.snaps([], snapper))))
    emit("empty bcs", canon(attempt("e", lambda: from_bpm_changes_snap(0, [], False))))
    emit("not at zero", canon(attempt("e", lambda: from_bpm_changes_snap(
        0, [BpmChangeSnap(120, 4, Snap(1, 0, 4))], False))))


# ------------------------------------------------------------ header directly
def run_header_cases():
    rng = random.Random(60606)
    for k in range(40):
        keys = []
        for _ in range(rng.randint(0, 10)):
            kind = rng.random()
            if kind < 0.3:
                keys.append(("WAV" + obj_id(rng), f"s{rng.randint(0, 9)}.wav"))
            elif kind < 0.5:
                keys.append((rng.choice(["BPM", "bpm", "Bpm"]) + obj_id(rng),
                             rng.choice(["100", "55.5", "1e2", " 7 "])))
            elif kind < 0.6:
                keys.append((rng.choice(["wavZZ", "WAVE01", "WAV", "BPMS", "BPMXYZ"]), "v"))
            else:
                keys.append((rng.choice(["TITLE", "ARTIST", "PLAYLEVEL", "LNOBJ", "GENRE",
                                         "RANK", "TOTAL", "PLAYER"]), f"v {rng.randint(0, 9)}"))
        if k % 8 != 7:
            keys.insert(rng.randint(0, len(keys)), ("BPM", rng.choice(["120", "133.33"])))
        if k % 9 == 8:
            keys.insert(rng.randint(0, len(keys)), ("BPMQQ", "not a number"))
        data = {a.encode(): b.encode() for a, b in keys}
        emit("== header case", k, canon(data))
        bms = BMSMap()
        attempt("header", lambda: bms._read_file_header(data))
        emit("data-after", canon(data))
        emit("fields", canon(bms.title), canon(bms.artist), canon(bms.version),
             canon(bms.ln_end_channel))
        emit("exbpms", canon(bms.exbpms), "samples", canon(bms.samples))
        emit("misc", canon(bms.misc), "misc-is-data", bms.misc is data)
        dump_df("bpms", bms.bpms.df)


def main():
    random.seed(20404)  # all generators below use their own seeded random.Random
    run_read_cases()
    run_timing_cases()
    run_header_cases()
    text = "\n".join(OUT)
    print("DIGEST", hashlib.sha256(text.encode("utf-8", "backslashreplace")).hexdigest())


if __name__ == "__main__":
    import os, sys
    main()
    if os.environ.get("DEMO_DUMP"):
        with open(os.environ["DEMO_DUMP"], "w", encoding="utf-8", errors="backslashreplace") as f:
            f.write("\n".join(OUT))
