"""Demo for property C12 (stacking writes through).

Generates several dozen random charts of all five games (+ the base Map),
including empty lists and lists with gaps in the row labels, runs random
sequences of stack operations on them (whole-column arithmetic, conditional
assignment with arbitrary masks on one or several columns, re-stacking,
type-restricted stacks, mapset stacks, rate) and prints ONE line

    DIGEST <sha256>

over a canonical dump of every intermediate state (values, dtypes, column order,
row labels, list types, raised exception types, stacker internals), plus a dump
of everything the property decorators of reamber.base.Property generate.
"""
import hashlib
import importlib
import inspect
import pkgutil
import random
import sys
import warnings

import numpy as np
import pandas as pd

warnings.simplefilter("ignore")

import reamber
from reamber.base.Map import Map
from reamber.base.MapSet import MapSet
from reamber.base.lists.BpmList import BpmList
from reamber.base.lists.TimedList import TimedList
from reamber.base.lists.notes.HitList import HitList
from reamber.base.lists.notes.HoldList import HoldList
from reamber.base.lists.notes.NoteList import NoteList
from reamber.bms.BMSMap import BMSMap
from reamber.bms.BMSMapMeta import BMSMapMeta  # noqa: F401
from reamber.o2jam.O2JMap import O2JMap
from reamber.o2jam.O2JMapSet import O2JMapSet
from reamber.osu.OsuMap import OsuMap
from reamber.quaver.QuaMap import QuaMap
from reamber.sm.SMMap import SMMap
from reamber.sm.SMMapSet import SMMapSet

OUT = []


def emit(*a):
    OUT.append(" ".join(str(x) for x in a))


def canon(v):
    """Canonical text of a cell value (keeps the python/numpy type)."""
    if isinstance(v, float) or isinstance(v, np.floating):
        return f"{type(v).__name__}:{float(v)!r}"
    return f"{type(v).__name__}:{v!r}"


def dump_df(tag, df):
    emit(tag, "type", type(df).__name__, "shape", df.shape)
    emit(tag, "columns", list(df.columns), "colindex", type(df.columns).__name__)
    emit(tag, "dtypes", [str(t) for t in df.dtypes])
    emit(tag, "index", type(df.index).__name__, str(df.index.dtype), list(df.index))
    for c in df.columns:
        col = df[c]
        if isinstance(col, pd.DataFrame):
            emit(tag, "dupcol", c, col.shape)
            continue
        emit(tag, "col", c, [canon(x) for x in col.tolist()])


def dump_series(tag, s):
    if isinstance(s, pd.DataFrame):
        dump_df(tag, s)
        return
    emit(tag, "series", type(s).__name__, s.name, str(s.dtype), list(s.index),
         [canon(x) for x in s.tolist()])


def dump_map(tag, m):
    emit(tag, "maptype", type(m).__name__, "keys", list(m.objs.keys()))
    for k, v in m.objs.items():
        emit(tag, k, "listtype", type(v).__name__, "len", len(v))
        dump_df(f"{tag}.{k}", v.df)


def dump_stack(tag, s):
    emit(tag, "stacker", type(s).__qualname__, "ixs", [(type(i).__name__, i) for i in s._ixs])
    emit(tag, "unstacked", [type(u).__name__ for u in s._unstacked])
    dump_df(tag + "._stacked", s._stacked)


def attempt(tag, fn):
    try:
        r = fn()
        emit(tag, "ok")
        return r
    except Exception as e:  # noqa
        emit(tag, "EXC", type(e).__name__)
        return None


# --------------------------------------------------------------------------- #
# chart generation
# --------------------------------------------------------------------------- #

MAP_CLASSES = [Map, OsuMap, QuaMap, BMSMap, SMMap, O2JMap]


def fill_list(rng, cls, n, gaps):
    """A list of `cls` with n random rows; optionally with gaps in the row labels,
    unsorted rows and ties."""
    lst = cls.empty(n)
    df = lst.df
    if n:
        base = [rng.choice([-500.0, 0.0, 250.0, 1000.0, 1000.0, 1500.5, 2000.0, 1e6])
                for _ in range(n)]
        df["offset"] = pd.Series(base, dtype=float)
        if "column" in df.columns:
            df["column"] = pd.Series([rng.randrange(0, 10) for _ in range(n)], dtype=int)
        if "length" in df.columns:
            df["length"] = pd.Series([rng.choice([0.0, 1.0, 50.0, 333.25, -10.0]) for _ in range(n)])
        if "bpm" in df.columns:
            df["bpm"] = pd.Series([rng.choice([0.0, 60.0, 120.0, 222.22, -90.0]) for _ in range(n)])
        if "metronome" in df.columns:
            df["metronome"] = pd.Series([rng.choice([1.0, 3.0, 4.0, 7.0]) for _ in range(n)])
        if "volume" in df.columns:
            df["volume"] = pd.Series([rng.randrange(0, 100) for _ in range(n)], dtype=int)
        if "multiplier" in df.columns:
            df["multiplier"] = pd.Series([rng.choice([0.5, 1.0, 2.0]) for _ in range(n)])
        if "kiai" in df.columns:
            df["kiai"] = pd.Series([rng.random() < 0.5 for _ in range(n)], dtype=bool)
    lst = cls(df)
    if gaps == 1 and n:
        # filter -> gaps in the row labels
        keep = [rng.random() < 0.6 for _ in range(n)]
        lst = cls(lst.df[pd.Series(keep, index=lst.df.index)])
    elif gaps == 2 and n:
        # shuffled rows: labels not monotonic
        order = list(range(n))
        rng.shuffle(order)
        lst = cls(lst.df.iloc[order])
    elif gaps == 3 and n:
        # string / offset row labels
        d = lst.df.copy()
        d.index = [f"r{i}" for i in range(n)]
        lst = cls(d)
    elif gaps == 4 and n:
        # duplicated row labels
        d = lst.df.copy()
        d.index = [i // 2 for i in range(n)]
        lst = cls(d)
    return lst


def gen_map(rng, M, mode):
    m = M()
    for k, v in list(m.objs.items()):
        if mode == "allempty":
            n = 0
        elif mode == "someempty":
            n = rng.choice([0, 0, 1, 3, 5])
        else:
            n = rng.randrange(1, 7)
        gaps = rng.choice([0, 0, 1, 2, 3, 4]) if mode != "plain" else 0
        lst = fill_list(rng, type(v), n, gaps)
        # go through the generated accessor (map_props setter)
        setattr(m, k, lst)
    return m


# --------------------------------------------------------------------------- #
# stack operation histories
# --------------------------------------------------------------------------- #

BASE_PROPS = ["offset", "column", "length", "bpm", "metronome"]
ARITH = ["add", "sub", "mul", "div", "set", "floordiv", "neg"]


def apply_arith(x, op, val):
    if op == "add":
        return x + val
    if op == "sub":
        return x - val
    if op == "mul":
        return x * val
    if op == "div":
        return x / val
    if op == "floordiv":
        return x // val
    if op == "neg":
        return -x
    return val


def rand_mask(rng, stack):
    n = len(stack._stacked)
    kind = rng.randrange(6)
    bits = [rng.random() < 0.5 for _ in range(n)]
    if kind == 0:
        return pd.Series(bits, index=stack._stacked.index, dtype=bool)
    if kind == 1:
        return np.array(bits, dtype=bool)
    if kind == 2:
        return bits
    if kind == 3:
        return stack.offset > rng.choice([-1000.0, 0.0, 1000.0, 1e7])
    if kind == 4:
        return (stack.offset >= 0) & (stack.offset < rng.choice([500.0, 1500.0, 3000.0]))
    return [False] * n if rng.random() < 0.5 else [True] * n


def run_history(tag, rng, m, steps):
    M = type(m)
    props = BASE_PROPS + [p for p in M.Stacker._props if p not in BASE_PROPS] + ["does_not_exist"]
    stack = attempt(tag + ".stack0", lambda: m.stack())
    if stack is None:
        return
    dump_stack(tag + ".s0", stack)
    for step in range(steps):
        t = f"{tag}.{step}"
        kind = rng.randrange(9)
        if kind in (0, 1):
            # whole column arithmetic through the generated accessor
            p = rng.choice(props)
            op = rng.choice(ARITH)
            val = rng.choice([0, 1, 2, -3, 0.5, 1000.0])
            emit(t, "colop", p, op, val)

            def f(stack=stack, p=p, op=op, val=val):
                if p == "does_not_exist":
                    stack[p] = apply_arith(stack[p], op, val)
                else:
                    setattr(stack, p, apply_arith(getattr(stack, p), op, val))

            attempt(t, f)
        elif kind == 2:
            # item style access
            p = rng.choice(props)
            val = rng.choice([7, 1.5, -2])
            emit(t, "item", p, val)

            def f(stack=stack, p=p, val=val):
                stack[p] = stack[p] * val

            attempt(t, f)
        elif kind in (3, 4):
            # conditional assignment on one column
            p = rng.choice(props[:-1])
            op = rng.choice(ARITH[:5])
            val = rng.choice([1, 2, -3, 0.5, 100.0])
            emit(t, "loc1", p, op, val)

            def f(stack=stack, p=p, op=op, val=val):
                mask = rand_mask(rng, stack)
                if op == "add":
                    stack.loc[mask, p] += val
                elif op == "sub":
                    stack.loc[mask, p] -= val
                elif op == "mul":
                    stack.loc[mask, p] *= val
                elif op == "div":
                    stack.loc[mask, p] /= val
                else:
                    stack.loc[mask, p] = val

            attempt(t, f)
        elif kind == 5:
            # conditional assignment on several columns
            k = rng.randrange(1, 4)
            cols = rng.sample(props[:5], k)
            val = rng.choice([1, 2, 0.25, -5])
            op = rng.choice(["add", "mul", "set"])
            emit(t, "locN", cols, op, val)

            def f(stack=stack, cols=cols, op=op, val=val):
                mask = rand_mask(rng, stack)
                if op == "add":
                    stack.loc[mask, cols] += val
                elif op == "mul":
                    stack.loc[mask, cols] *= val
                else:
                    stack.loc[mask, cols] = val

            attempt(t, f)
        elif kind == 6:
            # reads (must not change anything)
            p = rng.choice(props)
            emit(t, "read", p)

            def f(stack=stack, p=p):
                dump_series(t + ".get", stack[p])
                dump_series(t + ".getattr", getattr(stack, p))
                mask = rand_mask(rng, stack)
                dump_series(t + ".cond", stack[p][mask])
                dump_series(t + ".locget", stack.loc[mask, p])
                dump_df(t + ".locgetN", stack.loc[mask, ["offset", p]])
                li = stack.loc
                emit(t, "loctype", type(li).__qualname__, type(li.loc).__name__,
                     li.stacker is stack)

            attempt(t, f)
        elif kind == 7:
            # re-stack everything
            emit(t, "restack")
            ns = attempt(t, lambda: m.stack())
            if ns is not None:
                stack = ns
                dump_stack(t + ".s", stack)
        else:
            # re-stack restricted to chosen list types
            choice = rng.choice([
                (HitList,), (HoldList,), (NoteList,), (BpmList,), (HitList, BpmList),
                (TimedList,), (), (HitList, HoldList), (type(m.hits),), None,
            ])
            emit(t, "restack_types",
                 None if choice is None else [c.__name__ for c in choice])
            ns = attempt(t, lambda: m.stack(choice))
            if ns is not None:
                stack = ns
                dump_stack(t + ".s", stack)
        dump_map(t + ".after", m)
        dump_stack(t + ".stk", stack)


def run_mapset(tag, rng, maps, MS):
    ms = attempt(tag + ".ctor", lambda: MS(maps))
    if ms is None:
        return
    st = attempt(tag + ".stack", lambda: ms.stack())
    if st is None:
        return
    emit(tag, "stacker", type(st).__qualname__, [type(s).__qualname__ for s in st.stackers])
    for step in range(6):
        t = f"{tag}.{step}"
        p = rng.choice(BASE_PROPS + ["does_not_exist"])
        kind = rng.randrange(4)
        emit(t, "msop", p, kind)
        if kind == 0:
            def f():
                dump_df(t + ".get", getattr(st, p) if p != "does_not_exist" else st[p])
        elif kind == 1:
            val = rng.choice([2, 0.5, -1])

            def f(val=val):
                setattr(st, p, getattr(st, p) * val) if p != "does_not_exist" else st.__setitem__(p, st[p] * val)
        elif kind == 2:
            val = rng.choice([100, -100.5])

            def f(val=val):
                st[p] = st[p] + val
        else:
            def f():
                nonlocal st
                st = ms.stack()
        attempt(t, f)
        for i, m in enumerate(ms):
            dump_map(f"{t}.m{i}", m)
        for i, s in enumerate(st.stackers):
            dump_stack(f"{t}.s{i}", s)
    for by in (2.0, 0.5):
        r = attempt(f"{tag}.rate{by}", lambda: ms.rate(by))
        if r is not None:
            for i, m in enumerate(r):
                dump_map(f"{tag}.rate{by}.m{i}", m)
        for i, m in enumerate(ms):
            dump_map(f"{tag}.rate{by}.orig{i}", m)


# --------------------------------------------------------------------------- #
# what the decorators in reamber.base.Property generate
# --------------------------------------------------------------------------- #

def dump_property_decorators():
    mods = []
    for mi in pkgutil.walk_packages(reamber.__path__, "reamber."):
        try:
            mods.append(importlib.import_module(mi.name))
        except Exception as e:  # noqa
            emit("import", mi.name, "EXC", type(e).__name__)
    classes = {}
    for mod in mods:
        for name, obj in vars(mod).items():
            if inspect.isclass(obj) and obj.__module__.startswith("reamber"):
                classes[f"{obj.__module__}.{obj.__qualname__}"] = obj
                for n2, o2 in vars(obj).items():
                    if inspect.isclass(o2):
                        classes[f"{o2.__module__}.{o2.__qualname__}"] = o2
    for qn in sorted(classes):
        cl = classes[qn]
        if "_props" in vars(cl) or hasattr(cl, "_props"):
            p = getattr(cl, "_props")
            own = "_props" in vars(cl)
            if isinstance(p, dict):
                emit("props", qn, own, "dict",
                     [(k, getattr(v, "__name__", None) or repr(v)) for k, v in p.items()])
            else:
                emit("props", qn, own, type(p).__name__, repr(p))
            names = p.keys() if isinstance(p, dict) else p
            for k in names:
                a = inspect.getattr_static(cl, k, None)
                emit("accessor", qn, k, type(a).__name__,
                     isinstance(a, property) and a.fget is not None,
                     isinstance(a, property) and a.fset is not None,
                     isinstance(a, property) and a.fdel is not None)
        f = getattr(cl, "_from_series_allowed_names", None)
        if f is not None:
            emit("allowed", qn, attempt("allowed." + qn, f))
        for meth in ("_default", "props", "_item_class"):
            g = vars(cl).get(meth)
            if g is not None and isinstance(g, staticmethod):
                try:
                    r = g.__func__()
                    if meth == "_default":
                        r = [(k, str(v.dtype), [canon(x) for x in v.tolist()]) for k, v in r.items()]
                    elif meth == "props":
                        r = (r.names, r.dtypes, [canon(x) for x in r.defaults])
                    else:
                        r = getattr(r, "__name__", repr(r))
                    emit("listprop", qn, meth, r)
                except Exception as e:  # noqa
                    emit("listprop", qn, meth, "EXC", type(e).__name__)


def item_accessors(rng):
    """get/set through item_props accessors on single items."""
    from reamber.base.Hit import Hit
    from reamber.base.Hold import Hold
    from reamber.base.Bpm import Bpm
    from reamber.osu.OsuHit import OsuHit
    from reamber.osu.OsuHold import OsuHold
    from reamber.osu.OsuBpm import OsuBpm
    from reamber.osu.OsuSv import OsuSv
    from reamber.quaver.QuaHit import QuaHit
    from reamber.bms.BMSHit import BMSHit
    from reamber.sm.SMHold import SMHold
    from reamber.o2jam.O2JHold import O2JHold
    for cls in (Hit, Hold, Bpm, OsuHit, OsuHold, OsuBpm, OsuSv, QuaHit, BMSHit, SMHold, O2JHold):
        kw = {}
        names = list(cls._props.keys())
        for k in ("offset", "column", "length", "bpm", "multiplier"):
            if k in names:
                kw[k] = rng.randrange(1, 9)
        it = attempt("item." + cls.__name__, lambda: cls(**kw))
        if it is None:
            continue
        for k in names:
            emit("item", cls.__name__, k, canon(getattr(it, k)))
        for k in names:
            v = getattr(it, k)
            if isinstance(v, (int, float, np.integer, np.floating)) and not isinstance(v, (bool, np.bool_)):
                setattr(it, k, v + 1)
        emit("item", cls.__name__, "data", list(it.data.index), [canon(x) for x in it.data.tolist()])
        s = it.data.copy()
        r = attempt("item.from_series." + cls.__name__, lambda: cls.from_series(s))
        if r is not None:
            emit("item", cls.__name__, "rt", list(r.data.index), [canon(x) for x in r.data.tolist()])
        bad = s.copy()
        bad["no_such_field"] = 1
        attempt("item.from_series_bad." + cls.__name__, lambda: cls.from_series(bad))


def list_accessors(tag, m):
    """read / write every generated column accessor of every list (list_props)."""
    for k, lst in m.objs.items():
        for name in type(lst).props().names:
            t = f"{tag}.{k}.{name}"

            def f(lst=lst, name=name, t=t):
                col = getattr(lst, name)
                dump_series(t + ".get", col)
                emit(t, "same", col.equals(lst.df[name]))
                if col.dtype.kind in "if":
                    setattr(lst, name, col * 2 + 1)
                else:
                    setattr(lst, name, col)
                dump_series(t + ".set", lst.df[name])

            attempt(t, f)
        dump_df(f"{tag}.{k}.final", lst.df)


# --------------------------------------------------------------------------- #

def main():
    random.seed(120012)
    rng = random.Random(7012)
    np.random.seed(12)

    case = 0
    all_maps = {M: [] for M in MAP_CLASSES}
    for M in MAP_CLASSES:
        for mode in ("plain", "plain", "someempty", "someempty", "gaps", "gaps", "gaps", "allempty"):
            m = gen_map(rng, M, mode)
            tag = f"c{case}.{M.__name__}.{mode}"
            dump_map(tag + ".init", m)
            run_history(tag, rng, m, steps=10 if mode != "allempty" else 5)
            # Map.rate goes through the stack on a deep copy
            for by in (1.5, -2.0):
                r = attempt(tag + f".rate{by}", lambda: m.rate(by))
                if r is not None:
                    dump_map(tag + f".rate{by}.res", r)
                dump_map(tag + f".rate{by}.orig", m)
            list_accessors(tag + ".lacc", m)
            all_maps[M].append(m)
            case += 1

    # mapset stacks: per chart
    for M, MS in ((Map, MapSet), (SMMap, SMMapSet), (O2JMap, O2JMapSet), (OsuMap, MapSet),
                  (QuaMap, MapSet), (BMSMap, MapSet)):
        for j in range(3):
            k = rng.choice([0, 1, 2, 3])
            maps = [gen_map(rng, M, rng.choice(["plain", "someempty", "gaps", "allempty"]))
                    for _ in range(k)]
            run_mapset(f"ms.{M.__name__}.{j}", rng, maps, MS)

    # a mixed set
    run_mapset("ms.mixed", rng, [gen_map(rng, M, "plain") for M in MAP_CLASSES], MapSet)

    dump_property_decorators()
    item_accessors(rng)

    # map_props accessors: getter returns the stored list, setter swaps the frame
    for M in MAP_CLASSES:
        m = M()
        for k in M._props:
            before = m.objs[k]
            got = getattr(m, k)
            new = fill_list(rng, type(before), 3, 0)
            setattr(m, k, new)
            emit("mapprop", M.__name__, k, got is before, m.objs[k] is before,
                 m.objs[k].df is new.df, type(m.objs[k]).__name__)

    text = "\n".join(OUT)
    print("LINES", len(OUT), file=sys.stderr)
    print("DIGEST", hashlib.sha256(text.encode("utf-8")).hexdigest())


if __name__ == "__main__":
    main()
