"""Demo for refactoring 1: HoldList.after / before / between (anchor offset helper).

Exercises the trims of every game's hold list on generated inputs, records the
result, the warnings, the exception type and the input list afterwards, and
prints one sha256 over the canonical dump.
"""
import hashlib
import random
import warnings

import numpy as np
import pandas as pd

from reamber.base.lists.notes.HoldList import HoldList
from reamber.bms.lists.notes import BMSHoldList
from reamber.o2jam.lists.notes import O2JHoldList
from reamber.osu.lists.notes import OsuHoldList
from reamber.quaver.lists.notes import QuaHoldList
from reamber.sm.lists.notes import SMHoldList, SMRollList

random.seed(140001)
np.random.seed(140001)

OUT = []


def emit(*parts):
    OUT.append(" | ".join(str(p) for p in parts))


def dump_df(df: pd.DataFrame) -> str:
    return (
        f"cols={list(df.columns)!r} dtypes={[str(t) for t in df.dtypes]!r} "
        f"ixtype={type(df.index).__name__}:{df.index.dtype} ix={df.index.tolist()!r} "
        f"vals={df.to_numpy(dtype=object).tolist()!r}"
    )


def dump(x) -> str:
    if isinstance(x, pd.DataFrame):
        return dump_df(x)
    if hasattr(x, "df"):
        return f"{type(x).__name__}<{dump_df(x.df)}>"
    if isinstance(x, pd.Series):
        return f"Series<{x.dtype} {x.index.tolist()!r} {x.tolist()!r}>"
    return f"{type(x).__name__}:{x!r}"


CLASSES = [
    HoldList,
    OsuHoldList,
    QuaHoldList,
    SMHoldList,
    SMRollList,
    BMSHoldList,
    O2JHoldList,
]


def make_list(cls, n, kind):
    """kind: sorted / unsorted / ties / neg (negative + zero lengths) / labels"""
    hl = cls.empty(n)
    if n == 0:
        return hl
    if kind == "ties":
        offsets = [float(random.choice([0, 100, 100, 250, 250, 400])) for _ in range(n)]
    elif kind == "neg":
        offsets = [float(random.randint(-500, 500)) for _ in range(n)]
    else:
        offsets = [round(random.uniform(0, 1000), 2) for _ in range(n)]
    if kind == "sorted":
        offsets.sort()
    if kind == "neg":
        lengths = [float(random.choice([-200, -50, 0, 0, 75, 300])) for _ in range(n)]
    elif kind == "ties":
        lengths = [float(random.choice([50, 150, 150, 300])) for _ in range(n)]
    else:
        lengths = [round(random.uniform(1, 400), 2) for _ in range(n)]
    hl.offset = offsets
    hl.length = lengths
    hl.column = [random.randint(0, 9) for _ in range(n)]
    if kind == "labels":
        # arbitrary, non-monotonic, partly duplicated row labels
        labels = [random.choice([7, 3, 3, 11, 0, 42]) + 5 * i * (i % 2) for i in range(n)]
        hl.df.index = pd.Index(labels)
    return hl


FLAGS = [False, True]


def run(tag, hl, op, *args, **kwargs):
    before = dump(hl)
    df_id = id(hl.df)
    with warnings.catch_warnings(record=True) as ws:
        warnings.simplefilter("always")
        try:
            res = getattr(hl, op)(*args, **kwargs)
            out = dump(res)
            # the result may be changed afterwards without touching the input
            shared = np.shares_memory(
                res.df["offset"].to_numpy(), hl.df["offset"].to_numpy()
            )
            out += f" shares_memory={shared}"
            arr = res.df["offset"].to_numpy()
            if arr.flags.writeable:
                arr += 1.0  # written straight into the result's buffer
        except Exception as e:  # noqa
            out = f"EXC {type(e).__name__}"
    wdump = sorted(f"{w.category.__name__}:{w.message}" for w in ws)
    after = dump(hl)
    emit(tag, op, args, sorted(kwargs.items()), out, wdump,
         "INPUT_SAME" if (before == after and df_id == id(hl.df)) else "INPUT_CHANGED",
         after)


case = 0
for cls in CLASSES:
    for kind, n in [
        ("sorted", 0),
        ("sorted", 1),
        ("sorted", 6),
        ("unsorted", 7),
        ("ties", 8),
        ("neg", 8),
        ("labels", 6),
    ]:
        hl = make_list(cls, n, kind)
        case += 1
        tag = f"{case}:{cls.__name__}:{kind}:{n}"
        if n:
            pool = sorted(set(hl.offset.tolist() + (hl.offset + hl.length).tolist()))
            bounds = [pool[0], pool[len(pool) // 2], pool[-1], pool[0] - 1, pool[-1] + 1,
                      random.choice(pool) + 0.5]
        else:
            bounds = [0.0, 100.0]
        bounds += [float("inf"), float("-inf"), float("nan"), 0, -0.0]
        for b in bounds:
            for ie in FLAGS:
                for it in FLAGS:
                    run(tag, hl, "after", b, include_end=ie, include_tail=it)
                    run(tag, hl, "before", b, include_end=ie, include_head=it)
            run(tag, hl, "after", b)
            run(tag, hl, "before", b)
            run(tag, hl, "after", b, True, True)
            run(tag, hl, "before", b, True, False)
        for lo, hi in [(bounds[0], bounds[2]), (bounds[1], bounds[1]), (bounds[2], bounds[0]),
                       (bounds[3], bounds[4]), (float("-inf"), float("inf"))]:
            run(tag, hl, "between", lo, hi)
            for ends in [True, False, (True, True), (False, True), (True, False), (False, False)]:
                for ih in FLAGS:
                    for it in FLAGS:
                        run(tag, hl, "between", lo, hi, include_ends=ends,
                            include_head=ih, include_tail=it)
        # sequences of operations on the same input
        with warnings.catch_warnings():
            warnings.simplefilter("ignore")
            r = hl.after(bounds[0], include_end=True, include_tail=True)
        run(tag + ":seq", r, "before", bounds[2], include_end=True, include_head=False)
        run(tag + ":seq", hl, "after", bounds[1], include_tail=True)
        # non-comparable bound: exception type is part of the behaviour
        run(tag, hl, "after", "x", include_tail=True)
        run(tag, hl, "before", "x", include_head=False)
        run(tag, hl, "after", None)
        run(tag, hl, "before", [1, 2, 3], include_end=True)
        # derived offsets used by the trims
        emit(tag, "tail_offset", dump(hl.tail_offset), "head_offset", dump(hl.head_offset),
             "last", repr(hl.last_offset()), "firstlast", repr(hl.first_last_offset()))

text = "\n".join(OUT)
import sys

print(f"lines {len(OUT)} changed {sum('INPUT_CHANGED' in l for l in OUT)} "
      f"exc {sum('| EXC ' in l for l in OUT)}", file=sys.stderr)
print("DIGEST", hashlib.sha256(text.encode()).hexdigest())
