"""Demo for the refactoring of bpm_changes_offset_to_snap.

Run:  cd /tmp/wt7/C10 && PYTHONPATH=/tmp/wt7/C10 /venv/bin/python demo.py
Prints one line `DIGEST <sha256>` over a canonical dump of every result.
"""
from __future__ import annotations

import hashlib
import logging
import random
import sys
from copy import deepcopy
from fractions import Fraction

import numpy as np

from reamber.algorithms.timing.TimingMap import TimingMap
from reamber.algorithms.timing.utils.BpmChangeOffset import BpmChangeOffset
from reamber.algorithms.timing.utils.BpmChangeSnap import BpmChangeSnap
from reamber.algorithms.timing.utils.Snapper import Snapper
from reamber.algorithms.timing.utils.bpm_changes_offset_to_snap import (
    bpm_changes_offset_to_snap,
)
from reamber.algorithms.timing.utils.snap import Snap

logging.disable(logging.CRITICAL)
random.seed(20261001)

OUT: list[str] = []


def emit(*parts):
    OUT.append(" | ".join(str(p) for p in parts))


def canon(x) -> str:
    """Canonical text of a value including its type."""
    if isinstance(x, BaseException):
        return f"EXC:{type(x).__name__}"
    if isinstance(x, Snap):
        return f"Snap({canon(x.measure)},{canon(x.beat)},{canon(x.metronome)})"
    if isinstance(x, BpmChangeSnap):
        return f"BCS({canon(x.bpm)},{canon(x.metronome)},{canon(x.snap)})"
    if isinstance(x, BpmChangeOffset):
        return f"BCO({canon(x.bpm)},{canon(x.metronome)},{canon(x.offset)})"
    if isinstance(x, TimingMap):
        return f"TM({canon(x.bpm_changes_offset)})"
    if isinstance(x, np.ndarray):
        return (
            f"nd[{x.dtype}]{x.shape}("
            + ",".join(canon(i) for i in x.ravel().tolist())
            + ")"
        )
    if isinstance(x, (list, tuple)):
        return (
            f"{type(x).__name__}[" + ",".join(canon(i) for i in x) + "]"
        )
    if isinstance(x, bool) or x is None:
        return repr(x)
    if isinstance(x, Fraction):
        return f"Fr:{x.numerator}/{x.denominator}"
    if isinstance(x, (float, np.floating)):
        return f"{type(x).__name__}:{float(x).hex()}"
    if isinstance(x, (int, np.integer)):
        return f"{type(x).__name__}:{int(x)}"
    return f"{type(x).__name__}:{x!r}"


def attempt(fn, *a, **k):
    try:
        return fn(*a, **k)
    except Exception as e:  # noqa
        return e


# --------------------------------------------------------------------------
# Generators
# --------------------------------------------------------------------------
BPMS = [
    60, 75, 90, 100, 120, 128, 150, 174, 180, 200, 240, 300, 1000,
    120.5, 99.99, 133.333, 60000 / 250, 60000 / 333, 0.5, 12345.678,
]
SNAP_DENS = [1, 2, 3, 4, 5, 6, 7, 8, 9, 12, 16, 32, 64, 96]


def gen_bco_s(n: int, const_metronome: bool, style: str):
    """A list of n tempo changes, in shuffled order."""
    first = random.choice(
        [0, 0.0, -1500, -37.25, 1234.5, 1e-3, -1e6, 250, random.uniform(-5e3, 5e3)]
    )
    met0 = random.randint(1, 8)
    bco_s = []
    offset = first
    bpm = random.choice(BPMS)
    met = met0
    bco_s.append(BpmChangeOffset(bpm, met, offset))
    for _ in range(n - 1):
        beat_len = 60000 / bpm
        if style == "measure":
            offset = offset + random.randint(1, 6) * beat_len * met
        elif style == "beat":
            offset = offset + random.randint(1, 20) * beat_len
        elif style == "grid":
            d = random.choice(SNAP_DENS)
            offset = offset + (
                random.randint(0, 12) + Fraction(random.randint(0, d - 1), d)
            ) * beat_len
            offset = float(offset)
        elif style == "dup":
            if random.random() < 0.5:
                offset = offset + random.randint(0, 3) * beat_len * met
        elif style == "close":
            offset = offset + random.choice([1e-9, 1e-4, 0.01, 0.4, 1, 3.3])
        else:  # free
            offset = offset + random.uniform(0, 8000)
        bpm = random.choice(BPMS)
        if not const_metronome:
            met = random.randint(1, 8)
        bco_s.append(BpmChangeOffset(bpm, met, offset))
    random.shuffle(bco_s)
    return bco_s


def gen_snappers():
    return [
        ("default", Snapper()),
        ("d4", Snapper([1, 2, 4])),
        ("d12", Snapper([1, 2, 3, 4, 6, 12])),
        ("d192", Snapper([192])),
        ("d1", Snapper([1])),
    ]


SNAPPERS = gen_snappers()


def gen_snap_queries(bcs_s, k):
    qs = []
    last = bcs_s[-1].snap
    for _ in range(k):
        r = random.random()
        if r < 0.25:
            base = random.choice(bcs_s).snap
            qs.append(Snap(base.measure, base.beat, None))
        elif r < 0.5:
            base = random.choice(bcs_s)
            d = random.choice(SNAP_DENS)
            qs.append(
                Snap(
                    int(base.snap.measure) + random.randint(0, 3),
                    base.snap.beat + Fraction(random.randint(0, d - 1), d),
                    base.metronome,
                )
            )
        else:
            d = random.choice(SNAP_DENS)
            qs.append(
                Snap(
                    random.randint(0, int(last.measure) + 5),
                    Fraction(random.randint(0, d - 1), d),
                    None,
                )
            )
    if qs:
        qs += random.choices(qs, k=max(1, k // 3))  # duplicates
    random.shuffle(qs)
    return qs


def gen_offset_queries(bco_s, k):
    first = min(b.offset for b in bco_s)
    last = max(b.offset for b in bco_s)
    qs = []
    for _ in range(k):
        r = random.random()
        if r < 0.25:
            qs.append(random.choice(bco_s).offset)
        elif r < 0.55:
            b = random.choice(bco_s)
            d = random.choice(SNAP_DENS)
            qs.append(
                float(
                    b.offset
                    + (random.randint(0, 9) + Fraction(random.randint(0, d - 1), d))
                    * ((60000 / b.bpm) if b.bpm else 1.0)
                )
            )
        else:
            qs.append(random.uniform(first, last + 6000))
    if qs:
        qs += random.choices(qs, k=max(1, k // 3))
    random.shuffle(qs)
    return qs


# --------------------------------------------------------------------------
# Scenario runner
# --------------------------------------------------------------------------
def run_case(tag, bco_s, const_metronome):
    emit("CASE", tag, "input", canon(bco_s))
    ids_before = [id(b) for b in bco_s]

    for sname, snapper in SNAPPERS:
        arg = deepcopy(bco_s)
        arg_ids = [id(b) for b in arg]
        res = attempt(bpm_changes_offset_to_snap, arg, snapper)
        emit(tag, sname, "direct", canon(res))
        # The argument afterwards (sorted in place, same objects, same values)
        emit(tag, sname, "arg_after", canon(arg))
        emit(tag, sname, "arg_perm", [arg_ids.index(id(b)) for b in arg])
        if isinstance(res, list):
            emit(
                tag, sname, "distinct_objs",
                len({id(b) for b in res}) == len(res),
                len({id(b.snap) for b in res}) == len(res),
            )
            # second call on the already sorted argument: idempotent
            res2 = attempt(bpm_changes_offset_to_snap, arg, snapper)
            emit(tag, sname, "again_equal", canon(res2) == canon(res))

    # Through the TimingMap
    own = deepcopy(bco_s)
    tm = attempt(TimingMap.from_bpm_changes_offset, own)
    emit(tag, "tm", canon(tm))
    if isinstance(tm, BaseException):
        return
    bcs_s = attempt(tm.bpm_changes_snap)
    emit(tag, "tm.bcs", canon(bcs_s))
    if isinstance(bcs_s, BaseException):
        return
    for sname, snapper in SNAPPERS[:3]:
        tm2 = TimingMap(bpm_changes_offset=deepcopy(bco_s), snapper=snapper)
        emit(tag, sname, "tm2.bcs", canon(attempt(tm2.bpm_changes_snap)))
        emit(tag, sname, "tm2.bco_after", canon(tm2.bpm_changes_offset))

        sq = gen_snap_queries(bcs_s, random.randint(0, 12))
        sq_before = canon(sq)
        offs = attempt(tm2.offsets, sq)
        emit(tag, sname, "offsets", canon(offs))
        emit(tag, sname, "offsets_q_unchanged", canon(sq) == sq_before)

        oq = gen_offset_queries(bco_s, random.randint(0, 12))
        oq_before = list(oq)
        sn = attempt(tm2.snaps, oq, snapper)
        emit(tag, sname, "snaps", canon(oq), canon(sn))
        emit(tag, sname, "snaps_q_unchanged", oq == oq_before)
        if isinstance(sn, np.ndarray) and len(sn):
            back = attempt(tm2.offsets, list(sn))
            emit(tag, sname, "roundtrip", canon(back))
        if const_metronome:
            emit(tag, sname, "beats", canon(attempt(tm2.beats, oq, snapper)))
        emit(
            tag, sname, "active",
            canon(attempt(tm2.get_active_bpm_by_offset, oq[0] if oq else 0)),
        )
    emit(tag, "reseat", canon(attempt(tm.reseat)))
    # the caller's list was never touched (we only passed deep copies)
    emit(tag, "input_after", canon(bco_s), [id(b) for b in bco_s] == ids_before)


def main():
    case = 0
    for style in ["measure", "beat", "grid", "dup", "close", "free"]:
        for const_metronome in (True, False):
            for n in [1, 2, 3, 4, 5, 7, 10]:
                case += 1
                bco_s = gen_bco_s(n, const_metronome, style)
                run_case(f"{case}:{style}:{int(const_metronome)}:{n}", bco_s,
                         const_metronome)

    # Hand written edge cases -------------------------------------------------
    edge = {
        "empty": [],
        "single_neg": [BpmChangeOffset(120, 4, -500)],
        "two_same_offset": [BpmChangeOffset(120, 4, 0), BpmChangeOffset(240, 3, 0)],
        "three_same_offset": [
            BpmChangeOffset(100, 4, 10),
            BpmChangeOffset(200, 4, 10),
            BpmChangeOffset(300, 4, 10),
        ],
        "reverse_sorted": [
            BpmChangeOffset(60, 4, 8000),
            BpmChangeOffset(120, 4, 4000),
            BpmChangeOffset(240, 4, 0),
        ],
        "float_metronome": [BpmChangeOffset(120, 4.0, 0), BpmChangeOffset(60, 3.0, 2000)],
        "fraction_metronome": [
            BpmChangeOffset(120, Fraction(4), 0),
            BpmChangeOffset(60, Fraction(7, 2), 2000),
        ],
        "mid_measure": [BpmChangeOffset(120, 4, 0), BpmChangeOffset(180, 4, 750),
                        BpmChangeOffset(90, 5, 1900)],
        "almost_one": [BpmChangeOffset(120, 4, 0), BpmChangeOffset(120, 4, 1999.9999)],
        "zero_bpm_first": [BpmChangeOffset(0, 4, 0), BpmChangeOffset(120, 4, 100)],
        "zero_bpm_later": [BpmChangeOffset(120, 4, 0), BpmChangeOffset(0, 4, 100),
                           BpmChangeOffset(60, 4, 300)],
        "zero_metronome": [BpmChangeOffset(120, 0, 0), BpmChangeOffset(120, 4, 100)],
        "none_metronome": [BpmChangeOffset(120, None, 0)],
        "neg_bpm": [BpmChangeOffset(-120, 4, 0), BpmChangeOffset(120, 4, 100)],
        "numpy_fields": [
            BpmChangeOffset(np.float64(120), np.int64(4), np.float64(-10.5)),
            BpmChangeOffset(np.float64(150), np.int64(3), np.float64(1989.5)),
        ],
        "int_offsets": [BpmChangeOffset(125, 4, 0), BpmChangeOffset(250, 4, 1920),
                        BpmChangeOffset(125, 2, 2880)],
    }
    for name, bco_s in edge.items():
        run_case("edge:" + name, bco_s, True)

    # Non-list arguments
    for name, arg in {
        "tuple": (BpmChangeOffset(120, 4, 0), BpmChangeOffset(60, 4, 2000)),
        "none": None,
        "ndarray": np.array([BpmChangeOffset(120, 4, 0)], dtype=object),
        "mixed": [BpmChangeOffset(120, 4, 0), "x"],
    }.items():
        emit("nonlist", name, canon(attempt(bpm_changes_offset_to_snap, arg, Snapper())))
    # Bad snapper: first element never needs it, the second does
    emit("badsnapper1", canon(attempt(bpm_changes_offset_to_snap,
                                      [BpmChangeOffset(120, 4, 0)], None)))
    emit("badsnapper2", canon(attempt(
        bpm_changes_offset_to_snap,
        [BpmChangeOffset(120, 4, 0), BpmChangeOffset(120, 4, 10)], None)))

    text = "\n".join(OUT)
    if "--dump" in sys.argv:
        print(text)
    print("DIGEST", hashlib.sha256(text.encode()).hexdigest())


if __name__ == "__main__":
    main()
