"""Demo for C02 refactoring 3: SMMap._read_notes finds the rows of each beat
with integer row bounds (b * rows // 4) instead of float-computed slices.

Prints one line ``DIGEST <sha256>`` over a canonical dump of
  * SMMapSet.read on generated .sm texts whose measures have every row count
    from the usual 4/8/12/16/24/32/48/64/96/192 up to 768 and 1000, and (as
    regression padding outside the quantified domain) row counts that are not a
    multiple of 4 (1,2,3,5,6,7,9,10,11,13,...), empty measures, ragged rows,
    unknown symbols, a symbol in column >= 18, unclosed holds and tails
    without a head; 1-3 charts per file, 3-8 keys, all note symbols, tempo
    changes in the middle of measures, comments and blank lines;
  * SMMap.read called directly on single-chart note sections for every row
    count 0..40 with a note on every row.
Dumped: raised exception type or all header fields, every chart's fields, every
note list and the tempo list (columns, dtypes, index, values as hex floats),
logged warnings, and whether the argument is unchanged afterwards.
"""
import hashlib
import logging
import random
import sys
from copy import deepcopy

import numpy as np
import pandas as pd

from reamber.algorithms.timing.utils.BpmChangeSnap import BpmChangeSnap
from reamber.algorithms.timing.utils.snap import Snap
from reamber.sm.SMMap import SMMap
from reamber.sm.SMMapSet import SMMapSet
from reamber.sm.lists.SMStopList import SMStopList

ROWS = [4, 4, 8, 8, 12, 16, 16, 24, 32, 48, 64, 96, 192]

OUT = []


def emit(*a):
    OUT.append(" ".join(str(x) for x in a))


class Counter(logging.Handler):
    def __init__(self):
        super().__init__()
        self.msgs = []

    def emit(self, record):
        self.msgs.append((record.levelname, record.getMessage()))


COUNTER = Counter()
logging.getLogger().addHandler(COUNTER)
logging.getLogger().setLevel(logging.WARNING)
# keep stderr quiet: lastResort handler is not used once a handler is attached


def cell(v):
    if isinstance(v, (float, np.floating)):
        return f"{type(v).__name__}:{float(v).hex()}"
    return f"{type(v).__name__}:{v!r}"


def dump_df(name, df: pd.DataFrame):
    emit(" ", name, "cols", list(df.columns), "dtypes", [str(t) for t in df.dtypes])
    emit(" ", name, "index", type(df.index).__name__, list(df.index))
    for row in df.itertuples(index=False):
        emit("   ", [cell(v) for v in row])


# ------------------------------------------------------------------ .sm reading
CHARTS = [("dance-single", 4), ("dance-double", 8), ("dance-solo", 6),
          ("dance-threepanel", 3), ("kb7-single", 7), ("pump-single", 5),
          ("dance-couple", 8), ("kb7-single", 7)]


def gen_notes(rng, keys, n_measures, row_choices=None):
    open_ = [False] * keys
    measures = []
    for m in range(n_measures + 1):
        last = m == n_measures
        rows = rng.choice(row_choices or ROWS)
        lines = []
        for r in range(rows):
            row = []
            dense = rng.random() < (0.5 if rows <= 16 else 0.12)
            for c in range(keys):
                if open_[c]:
                    if last or rng.random() < 0.25:
                        row.append("3")
                        open_[c] = False
                    else:
                        row.append("0")
                elif last or not dense or rng.random() < 0.5:
                    row.append("0")
                else:
                    ch = rng.choice("1111122244MLFK")
                    if ch in "24":
                        open_[c] = True
                    row.append(ch)
            lines.append("".join(row))
        if last and any(open_):
            raise AssertionError
        measures.append(lines)
    return measures


def gen_sm(rng, n_charts, n_bpms, style, row_choices=None):
    offset = rng.choice([0.0, -0.25, 1.337, 0.009, -2.5])
    bpms = [(0, float(rng.choice([60, 120, 128, 150, 174.5, 200])))]
    for b in sorted(rng.sample(range(1, 48 * 24), n_bpms)):
        how = rng.random()
        if how < 0.35:
            b = b - b % 48
        elif how < 0.55:
            b = b - b % 192
        if b == 0 or b in [x[0] for x in bpms]:
            continue
        bpms.append((b, float(rng.choice([45, 80, 100, 140, 180, 222.2, 400]))))
    out = [
        f"#TITLE:Song {rng.randrange(1000)};", "#SUBTITLE:sub;", "#ARTIST:Someone;",
        "#TITLETRANSLIT:;", "#SUBTITLETRANSLIT:;", "#ARTISTTRANSLIT:;",
        "#GENRE:g;", "#CREDIT:me;", "#BANNER:bn.png;", "#BACKGROUND:bg.png;",
        "#LYRICSPATH:;", "#CDTITLE:;", "#MUSIC:a.ogg;",
    ]
    if style != "nooffset":
        out.append(f"#OFFSET:{offset:.3f};")
    out.append("#BPMS:" + (",\n" if style == "multiline" else ",").join(
        f"{b / 48:.3f}={v:.3f}" if (b * 1000) % 48 == 0 else f"{b / 48:.6f}={v:.3f}"
        for b, v in bpms) + ";")
    out += ["#SAMPLESTART:12.500;", "#SAMPLELENGTH:9.000;", "#DISPLAYBPM:*;",
            "#SELECTABLE:YES;", "#BGCHANGES:;", "#FGCHANGES:;"]
    for ci in range(n_charts):
        chart, keys = rng.choice(CHARTS)
        measures = gen_notes(rng, keys, rng.choice([1, 2, 3, 5, 8]), row_choices)
        if style == "comments":
            out.append(f"//--------------- {chart} - chart {ci} ----------------")
        out.append("#NOTES:")
        out.append(f"     {chart}:")
        out.append(f"     desc {ci}:")
        out.append(f"     {rng.choice(['Beginner', 'Easy', 'Hard', 'Challenge', 'Edit'])}:")
        out.append(f"     {rng.randrange(1, 20)}:")
        out.append("     " + ",".join(f"{rng.random():.3f}" for _ in range(5)) + ":")
        for mi, lines in enumerate(measures):
            if style == "comments":
                out.append(f"  // measure {mi}")
            for ln in lines:
                out.append(ln)
                if style in ("comments", "blank") and rng.random() < 0.1:
                    out.append("")
            out.append("," if mi < len(measures) - 1 else ";")
    return "\n".join(out) + "\n"


META = ["title", "subtitle", "artist", "title_translit", "subtitle_translit",
        "artist_translit", "genre", "credit", "banner", "background", "lyrics_path",
        "cd_title", "music", "offset", "sample_start", "sample_length", "display_bpm",
        "selectable", "bg_changes", "fg_changes"]
LISTS = ["hits", "holds", "rolls", "mines", "lifts", "fakes", "keysounds", "bpms",
         "stops"]


def run_sm(tag, text):
    n0 = len(COUNTER.msgs)
    emit("SM", tag, hashlib.sha256(repr(text).encode()).hexdigest()[:16])
    keep = deepcopy(text)
    try:
        ms = SMMapSet.read(text)
    except Exception as e:  # noqa
        emit("  raised", type(e).__name__)
    else:
        emit("  meta", [(k, cell(getattr(ms, k))) for k in META])
        emit("  n maps", len(ms.maps))
        for i, m in enumerate(ms.maps):
            emit("  map", i, type(m).__name__, cell(m.chart_type), cell(m.description),
                 cell(m.difficulty), cell(m.difficulty_val),
                 [cell(x) for x in m.groove_radar])
            for name in LISTS:
                lst = getattr(m, name)
                emit("  list", name, type(lst).__name__)
                dump_df(name, lst.df)
    emit("  logged", COUNTER.msgs[n0:])
    emit("  input unchanged", keep == text)


def dump_map(i, m):
    emit("  map", i, type(m).__name__, cell(m.chart_type), cell(m.description),
         cell(m.difficulty), cell(m.difficulty_val), [cell(x) for x in m.groove_radar])
    for name in LISTS:
        lst = getattr(m, name)
        emit("  list", name, type(lst).__name__)
        dump_df(name, lst.df)


def run_map(tag, section, bcs_s, initial_offset):
    """SMMap.read directly (the static reader SMMapSet uses per chart)."""
    n0 = len(COUNTER.msgs)
    emit("MAP", tag, hashlib.sha256(section.encode()).hexdigest()[:16], cell(initial_offset))
    before = repr(bcs_s)
    stops = SMStopList([])
    try:
        m = SMMap.read(section, bcs_s, initial_offset, stops)
    except Exception as e:  # noqa
        emit("  raised", type(e).__name__)
    else:
        dump_map(0, m)
    emit("  logged", COUNTER.msgs[n0:])
    emit("  bcs unchanged", repr(bcs_s) == before, "stops len", len(stops))


HEADER = "#TITLE:t;#ARTIST:a;#OFFSET:-0.100;#BPMS:0.000=120.000,6.500=180.000,9.000=90.000;"
NOTES = "#NOTES:dance-single:d:Hard:7:0,0,0,0,0:"


def hand_cases():
    def sm(body, notes=NOTES):
        return HEADER + "\n" + notes + "\n" + body

    cases = {
        "one-measure-4": sm("1000\n0100\n0010\n0001\n;"),
        "empty-notes": sm(";"),
        "empty-measures": sm(",\n,\n1000\n0000\n0000\n0000\n,\n;"),
        "all-zero": sm("0000\n0000\n0000\n0000\n;"),
        "every-symbol": sm("12M4\n0000\nLFK0\n0303\n;"),
        "hold-then-roll-same-col": sm("2000\n4000\n3000\n3000\n;"),
        "two-heads-one-tail": sm("2000\n2000\n3000\n0000\n;"),
        "unclosed-hold": sm("2000\n0000\n0000\n0000\n;"),
        "tail-without-head": sm("0000\n3000\n0000\n0000\n;"),
        "unknown-symbols": sm("5x10\n0000\n9000\n000?\n;"),
        "ragged-rows": sm("1\n01\n001000\n0001\n;"),
        "col-17": sm(("0" * 17 + "1\n") * 4 + ";", NOTES.replace("dance-single", "x")),
        "col-18": sm(("0" * 18 + "1\n") * 4 + ";", NOTES.replace("dance-single", "x")),
        "col-18-zero": sm(("1" + "0" * 18 + "\n") * 4 + ";"),
        "rows-768": sm("".join("1000\n" if r % 97 == 0 else "0000\n" for r in range(768)) + ";"),
        "rows-1000": sm("".join("0010\n" if r % 7 == 0 else "0000\n" for r in range(1000)) + ";"),
        "rows-1-2-3": sm("1000\n,\n0100\n0010\n,\n0001\nM000\n0L00\n;"),
        "rows-5-6-7": sm("1000\n" * 5 + ",\n" + "0100\n" * 6 + ",\n" + "0010\n" * 7 + ";"),
        "kb7": sm("1000000\n0200000\n0300004\n0000003\n,\n" + "M00L00K\n" * 12 + ";",
                  NOTES.replace("dance-single", "kb7-single")),
        "double": sm("10000001\n" * 16 + ";", NOTES.replace("dance-single", "dance-double")),
    }
    for tag, text in cases.items():
        run_sm("hand-" + tag, text)


def direct_cases():
    syms = "1MLFK"
    bcs_a = [BpmChangeSnap(150.0, 4, Snap(0, 0, 4))]
    bcs_b = [BpmChangeSnap(120.0, 4, Snap(0, 0.0, 4)),
             BpmChangeSnap(200.0, 4, Snap(0, 2.5, 4)),
             BpmChangeSnap(75.0, 4, Snap(0, 5.0 + 1 / 3, 4)),
             BpmChangeSnap(160.0, 4, Snap(0, 8.0, 4))]
    for rows in range(0, 41):
        lines = []
        for r in range(rows):
            row = ["0"] * 4
            row[r % 4] = syms[r % len(syms)]
            lines.append("".join(row))
        # measure 0 with `rows` rows, measure 1 with 4 rows, measure 2 with `rows` rows
        body = "\n".join(lines) + "\n,\n1000\n0100\n0010\n0001\n,\n" + "\n".join(lines) + "\n"
        section = "#NOTES:\n dance-single:\n d:\n Edit:\n 3:\n 0,0,0,0,0:\n" + body
        run_map(f"rows{rows}-a", section, bcs_a, 0.0)
        run_map(f"rows{rows}-b", section, bcs_b, -37.5)


def sm_cases(rng):
    odd = [1, 2, 3, 5, 6, 7, 9, 10, 11, 13, 14, 15, 17, 18, 22, 30, 50]
    big = [20, 28, 36, 40, 128, 384, 768]
    for i in range(45):
        style = ["plain", "comments", "blank", "multiline", "nooffset"][i % 5]
        row_choices = None if i % 3 == 0 else (ROWS + big if i % 3 == 1 else ROWS + odd)
        text = gen_sm(rng, n_charts=rng.choice([1, 1, 2, 3]),
                      n_bpms=rng.choice([0, 1, 2, 3, 6]), style=style,
                      row_choices=row_choices)
        run_sm(f"gen{i}-{style}-{i % 3}", text)


def main():
    rng = random.Random(20803)
    random.seed(20803)
    np.random.seed(20803)
    hand_cases()
    direct_cases()
    sm_cases(rng)
    blob = "\n".join(OUT).encode()
    if len(sys.argv) > 1 and sys.argv[1] == "--dump":
        sys.stdout.write(blob.decode() + "\n")
    print("DIGEST", hashlib.sha256(blob).hexdigest())


if __name__ == "__main__":
    main()
