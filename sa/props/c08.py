"""C08 — converters preserve chart content exactly, from any source state (DESIGN §5 C08)."""
from __future__ import annotations

import ast
from typing import Dict, List, Optional, Tuple

from ..model import AnalysisError, walk_no_nested, params_of, TIMEDLIST
from .. import report as R
from ..report import RuleSpec
from .. import codec as C
from .common import (call_name, CTL, CONVERTERS, conv_qual, converter_entries, fn_loc, short, unparse, attr_chain,
                     concrete_classes, inline_locals)

CAST = "reamber.algorithms.convert.ConvertBase.ConvertBase.cast"
CORE = {
    "hits": ["offset", "column"],
    "holds": ["offset", "column", "length"],
    "bpms": ["offset", "bpm"],
    "svs": ["offset", "multiplier"],
}
# role -> per game: (where: 'chart'|'set', accepted source fields / callables)
ROLES = {
    "osu": dict(title=["title", "title_unicode"], artist=["artist", "artist_unicode"], creator=["creator"],
                diffname=["version"]),
    "qua": dict(title=["title"], artist=["artist"], creator=["creator"], diffname=["difficulty_name"]),
    "sm": dict(title=["title", "title_translit"], artist=["artist", "artist_translit"], creator=["credit"],
               diffname=["description", "difficulty"]),
    "bms": dict(title=["title"], artist=["artist"], diffname=["version"]),
    "o2j": dict(title=["title"], artist=["artist"], creator=["creator"], diffname=["level_name", "level"]),
}
GAME_OF = {"Osu": "osu", "Qua": "qua", "SM": "sm", "BMS": "bms", "O2J": "o2j"}


def games_of(conv: str) -> Tuple[str, str]:
    a, b = conv.split("To")
    return GAME_OF[a], GAME_OF[b]


class Conv:
    """Facts about one converter entry point."""

    def __init__(self, ctx, q: str):
        M, W = ctx.M, ctx.W
        self.q = q
        self.fn = M.nfn(q, ctor=True)
        self.ty = W.typer_for(self.fn)
        self.file = M.mods[self.fn.mod].rel
        self.name = q.split(".")[-2]
        self.src_game, self.tgt_game = games_of(self.name)
        ps = [p for p in params_of(self.fn.node) if p not in ("cls", "self")]
        self.src_param = ps[0]
        self.casts = []      # (call, target attribute node or None, stmt)
        self.stores = []     # (Assign stmt, target Attribute, base kind)
        for n in walk_no_nested(self.fn.node):
            if isinstance(n, ast.Assign):
                for t in n.targets:
                    if isinstance(t, ast.Attribute):
                        self.stores.append((n, t, self.ty.kind(t.value)))
                if isinstance(n.value, ast.Call) and self._is_cast(n.value):
                    tgt = n.targets[0] if isinstance(n.targets[0], ast.Attribute) else None
                    self.casts.append((n.value, tgt, n))
            elif isinstance(n, ast.Call) and self._is_cast(n):
                pass
        # cast calls that are not the value of an attribute assignment
        assigned = {id(c[0]) for c in self.casts}
        for n in walk_no_nested(self.fn.node):
            if isinstance(n, ast.Call) and self._is_cast(n) and id(n) not in assigned:
                self.casts.append((n, None, n))
        self.casts.sort(key=lambda c: c[0].lineno)

    def _is_cast(self, call: ast.Call) -> bool:
        k = self.ty.kind(call.func)
        return k[0] == "bound" and k[1] == CAST


def convs(ctx) -> List[Conv]:
    if "c08.convs" not in ctx.cache:
        ctx.cache["c08.convs"] = [Conv(ctx, q) for q in converter_entries(ctx.M)]
    return ctx.cache["c08.convs"]


# --------------------------------------------------------------------------- R1
def rule_r1(ctx) -> List[R.Inst]:
    M = ctx.M
    insts = []
    for cv in convs(ctx):
        seen_slots = set()
        src_chart = tgt_chart = None
        # a loop that casts one list per iteration (a table of the lists to copy) must run to its end: `break` / `return` inside it
        # leaves every later list of the table unconverted (empty in the result)
        early = False
        for lp in (n for n in ast.walk(cv.fn.node) if isinstance(n, ast.For)):
            if not any(isinstance(x, ast.Call) and call_name(x) == "cast" for x in ast.walk(lp)):
                continue
            ex = [x for x in ast.walk(lp) if isinstance(x, (ast.Break, ast.Return)) and
                  not any(isinstance(l2, (ast.For, ast.While)) and l2 is not lp and any(y is x for y in ast.walk(l2)) for l2 in ast.walk(lp))]
            if ex:
                early = True
                insts.append(R.viol("C08.R1", f"{cv.name}.{cv.fn.name}:list-loop", cv.file, ex[0].lineno,
                                    f"the loop that converts one list per iteration is left early ('{type(ex[0]).__name__.lower()}' at line "
                                    f"{ex[0].lineno}): the lists after that point in the table are not converted — the result has them empty "
                                    f"(tempo and scroll changes of a chart without long notes are gone)",
                                    construct=f"{cv.name}: {type(ex[0]).__name__.lower()} inside the per-list cast loop"))
        if early:
            continue
        for call, tgt, stmt in cv.casts:
            args = list(call.args)
            kw = {k.arg: k.value for k in call.keywords}
            src = args[0] if len(args) > 0 else kw.get("src")
            tl = args[1] if len(args) > 1 else kw.get("target")
            mp = args[2] if len(args) > 2 else kw.get("mapping")
            key = f"{cv.name}.{cv.fn.name}:{unparse(src) if src is not None else '?'}"
            if src is None or tl is None or mp is None:
                insts.append(R.undec("C08.R1", key, cv.file, call.lineno, "cast call without three arguments"))
                continue
            ch = attr_chain(src)
            sk = cv.ty.kind(src.value) if isinstance(src, ast.Attribute) else ("unknown",)
            if not ch or len(ch) != 2 or sk[0] != "chart":
                insts.append(R.undec("C08.R1", key, cv.file, call.lineno, f"source '{unparse(src)}' is not <chart>.<slot>"))
                continue
            slot = ch[1]
            src_chart = sk[1]
            if slot not in M.map_slots(sk[1]):
                insts.append(R.viol("C08.R1", key, cv.file, call.lineno,
                                    f"'{slot}' is not a list of {sk[1].split('.')[-1]}", construct=unparse(call)))
                continue
            seen_slots.add(slot)
            if tgt is None:
                insts.append(R.viol("C08.R1", key, cv.file, call.lineno,
                                    "result of cast is not assigned to a list of the target chart",
                                    construct=unparse(stmt)[:160]))
                continue
            tk = cv.ty.kind(tgt.value)
            if tk[0] != "chart":
                insts.append(R.undec("C08.R1", key, cv.file, call.lineno, f"assignment base '{unparse(tgt.value)}' is not a chart"))
                continue
            tgt_chart = tk[1]
            tslots = M.map_slots(tk[1])
            problems = []
            if tgt.attr != slot:
                problems.append(f"source list '{slot}' is assigned to target attribute '{tgt.attr}'")
            r = M.resolve_expr(cv.fn.mod, tl, cv.fn.cls)
            tlc = r[1] if r and r[0] == "class" else None
            want = tslots.get(tgt.attr) or tslots.get(slot)
            if tlc is None:
                insts.append(R.undec("C08.R1", key, cv.file, call.lineno, "target list class unresolved"))
                continue
            if want is not None and tlc != want:
                problems.append(f"cast to {tlc.split('.')[-1]} but {tk[1].split('.')[-1]}.{tgt.attr} holds {want.split('.')[-1]}")
            def _mapping(e, depth=0):
                """the mapping as {target field: source-field expression}: a dict display / dict(..) call, a local bound once to one,
                or dict(<such a local>, more=..) — a mapping shared by several casts and extended for one of them"""
                if depth > 3:
                    return None
                if isinstance(e, ast.Name):
                    ds = [n.value for n in ast.walk(cv.fn.node) if isinstance(n, ast.Assign) and len(n.targets) == 1 and
                          isinstance(n.targets[0], ast.Name) and n.targets[0].id == e.id]
                    stores = sum(1 for n in ast.walk(cv.fn.node) if isinstance(n, ast.Name) and n.id == e.id and isinstance(n.ctx, ast.Store))
                    mutated = any(isinstance(n, ast.Subscript) and isinstance(n.ctx, (ast.Store, ast.Del)) and isinstance(n.value, ast.Name) and
                                  n.value.id == e.id for n in ast.walk(cv.fn.node)) or any(
                        isinstance(n, ast.Call) and isinstance(n.func, ast.Attribute) and isinstance(n.func.value, ast.Name) and n.func.value.id == e.id and
                        n.func.attr in ("update", "pop", "setdefault", "clear", "popitem") for n in ast.walk(cv.fn.node))
                    return _mapping(ds[0], depth + 1) if len(ds) == 1 and stores == 1 and not mutated else None
                if isinstance(e, ast.Call) and isinstance(e.func, ast.Name) and e.func.id == "dict" and len(e.args) == 1 and all(k.arg for k in e.keywords):
                    base = _mapping(e.args[0], depth + 1)
                    if base is None:
                        return None
                    out_ = dict(base)
                    out_.update({k.arg: k.value for k in e.keywords})
                    return out_
                return C.dict_call_kwargs(e)
            m = _mapping(mp)
            if m is None:
                insts.append(R.undec("C08.R1", key, cv.file, call.lineno, "mapping is not a dict literal"))
                continue
            tcols = M.list_columns(tlc)
            scols = M.list_columns(M.map_slots(sk[1])[slot])
            for core in CORE.get(slot, []):
                v = m.get(core)
                if v is None:
                    problems.append(f"core field '{core}' is not copied")
                elif C.const_str(v) != core:
                    problems.append(f"core field '{core}' is filled from {unparse(v)!r}")
            for k, v in m.items():
                if k not in tcols:
                    problems.append(f"mapping key '{k}' is not a field of {tlc.split('.')[-1]}")
                sv = C.const_str(v)
                if sv is not None and sv not in scols:
                    problems.append(f"mapping reads '{sv}' which the source list does not have")
            if problems:
                insts.append(R.viol("C08.R1", key, cv.file, call.lineno, "; ".join(problems),
                                    construct=unparse(stmt)[:200]))
            else:
                insts.append(R.ok("C08.R1", key, cv.file, call.lineno,
                                  idiom=f"{slot} -> {tlc.split('.')[-1]}, identity on {CORE.get(slot)}"))
        # required slots: hits, holds, bpms always; svs when both sides have them
        if src_chart and tgt_chart:
            need = {"hits", "holds", "bpms"}
            if "svs" in M.map_slots(src_chart) and "svs" in M.map_slots(tgt_chart):
                need.add("svs")
            for s in sorted(need - seen_slots):
                insts.append(R.viol("C08.R1", f"{cv.name}.{cv.fn.name}:missing-{s}", cv.file, cv.fn.node.lineno,
                                    f"no cast copies the source '{s}' list", construct=f"{cv.name} missing {s}"))
    return insts


# --------------------------------------------------------------------------- R2
def rule_r2(ctx) -> List[R.Inst]:
    M = ctx.M
    insts = []
    for cv in convs(ctx):
        for stmt, t, bk in cv.stores:
            if bk[0] not in ("chart", "mapset"):
                continue
            c = bk[1]
            key = f"{cv.name}.{cv.fn.name}:{unparse(t)}"
            allowed = {f[0] for f in M.dataclass_fields(c)}
            if bk[0] == "chart":
                allowed |= set(M.map_slots(c))
            for k in M.mro(c):  # property setters
                if k in M.classes and (k + "." + t.attr + "@setter") in M.funcs:
                    allowed.add(t.attr)
            if t.attr in allowed:
                insts.append(R.ok("C08.R2", key, cv.file, stmt.lineno, idiom="declared list / field"))
            else:
                insts.append(R.viol("C08.R2", key, cv.file, stmt.lineno,
                                    f"'{t.attr}' is not a list or field of {c.split('.')[-1]}: the assignment creates a "
                                    f"stray attribute and the value is lost", construct=unparse(stmt)[:160]))
    return insts


# --------------------------------------------------------------------------- R3
def _loops(fn_node) -> List[ast.For]:
    return [n for n in walk_no_nested(fn_node) if isinstance(n, ast.For)]


def _chart_var(lp: ast.For, src: str):
    """the variable that names one chart when ``lp`` walks the source set: `for c in src` and `for i, c in enumerate(src)`"""
    if isinstance(lp.iter, ast.Name) and lp.iter.id == src:
        return lp.target if isinstance(lp.target, ast.Name) else None
    if isinstance(lp.iter, ast.Call) and isinstance(lp.iter.func, ast.Name) and lp.iter.func.id == "enumerate" and len(lp.iter.args) == 1 \
            and not lp.iter.keywords and isinstance(lp.iter.args[0], ast.Name) and lp.iter.args[0].id == src and \
            isinstance(lp.target, ast.Tuple) and len(lp.target.elts) == 2 and isinstance(lp.target.elts[1], ast.Name):
        return lp.target.elts[1]
    return None


def _walks_src(lp: ast.For, src: str) -> bool:
    return (isinstance(lp.iter, ast.Name) and lp.iter.id == src) or _chart_var(lp, src) is not None


def rule_r3(ctx) -> List[R.Inst]:
    M = ctx.M
    insts = []
    for cv in convs(ctx):
        key = f"{cv.name}.{cv.fn.name}"
        fnode = cv.fn.node
        rets = [n for n in walk_no_nested(fnode) if isinstance(n, ast.Return) and n.value is not None]
        loops = [lp for lp in _loops(fnode) if _walks_src(lp, cv.src_param)]
        if not loops:
            # single-chart converter: returns an object constructed in the function
            good = False
            for r in rets:
                if isinstance(r.value, ast.Name):
                    k = cv.ty.kind(r.value)
                    built = any(isinstance(n, ast.Assign) and isinstance(n.targets[0], ast.Name)
                                and n.targets[0].id == r.value.id and isinstance(n.value, ast.Call)
                                for n in walk_no_nested(fnode))
                    good = built and k[0] in ("chart", "mapset")
            if len(rets) == 1 and good:
                insts.append(R.ok("C08.R3", key, cv.file, rets[0].lineno, idiom="returns the object it filled"))
            else:
                insts.append(R.undec("C08.R3", key, cv.file, fnode.lineno, "return shape not recognised"))
            continue
        lp = loops[0]
        if len(rets) != 1 or not isinstance(rets[0].value, ast.Name):
            insts.append(R.undec("C08.R3", key, cv.file, fnode.lineno, "mapset converter does not return a single name"))
            continue
        acc = rets[0].value.id
        # accumulator must not be rebound inside the loop
        rebound = [n for n in ast.walk(lp) if isinstance(n, ast.Assign) and any(
            isinstance(t, ast.Name) and t.id == acc for t in n.targets)]
        if rebound:
            insts.append(R.viol("C08.R3", key, cv.file, rebound[0].lineno,
                                f"accumulator '{acc}' is rebound inside the per-chart loop: only the last chart survives",
                                construct=unparse(rebound[0])))
            continue
        # exactly one append per iteration on every path
        from ..paths import paths_through, count_calls
        def is_append(n):
            if isinstance(n, ast.Call) and isinstance(n.func, ast.Attribute) and n.func.attr == "append":
                ch = attr_chain(n.func.value)
                return bool(ch) and ch[0] == acc
            return False
        counts = set()
        for p in paths_through(lp.body):
            if p.exit in ("raise",):
                continue
            counts.add((count_calls(p, is_append), p.exit))
        bad = [c for c in counts if c[0] != 1]
        if bad:
            insts.append(R.viol("C08.R3", key, cv.file, lp.lineno,
                                f"a path through the per-chart loop appends {sorted({b[0] for b in bad})} target chart(s) "
                                f"instead of exactly one", construct=f"{key} appends {sorted(counts)}"))
            continue
        # a fresh target per iteration
        made = [n for n in lp.body if isinstance(n, ast.Assign) and isinstance(n.value, ast.Call) and
                cv.ty.kind(n.value)[0] == "chart"]
        shallow = [n for n in made if not (cv.ty.kind(n.value.func)[0] == "type" or
                                           (isinstance(n.value.func, (ast.Name, ast.Attribute)) and
                                            unparse(n.value.func).split(".")[-1] == "deepcopy"))]
        fresh = bool(made) and not shallow
        if shallow:
            insts.append(R.viol("C08.R3", key, cv.file, shallow[0].lineno,
                                f"the per-chart target is made by '{unparse(shallow[0].value)}', a shallow copy: every target shares "
                                f"the template's list container, so all converted charts end up with the lists of the last source chart",
                                construct=unparse(shallow[0])))
            continue
        if not fresh:
            insts.append(R.viol("C08.R3", key, cv.file, lp.lineno,
                                "no fresh target chart is constructed per source chart", construct=f"{key} no ctor in loop"))
            continue
        insts.append(R.ok("C08.R3", key, cv.file, lp.lineno, idiom="fresh target, one append per iteration, accumulator stable"))
    return insts


# --------------------------------------------------------------------------- R4
def _mentions_src(expr, srcvars: Dict[str, str], fields: List[str]) -> bool:
    for n in ast.walk(expr):
        if isinstance(n, ast.Attribute) and isinstance(n.value, ast.Name) and n.value.id in srcvars and n.attr in fields:
            return True
    return False


def _local_names(fn_node) -> set:
    return {n.id for n in ast.walk(fn_node) if isinstance(n, ast.Name) and isinstance(n.ctx, ast.Store)}


def _tuple_stores(cv):
    """`a.x, a.y = v, w` and `a.x, a.y = map(f, (v, w))` as the stores (stmt, target, value) they are; value None when the right-hand
    side does not split by position"""
    out = []
    for n in walk_no_nested(cv.fn.node):
        if not (isinstance(n, ast.Assign) and len(n.targets) == 1 and isinstance(n.targets[0], (ast.Tuple, ast.List))):
            continue
        ts = n.targets[0].elts
        v = n.value
        parts = None
        if isinstance(v, (ast.Tuple, ast.List)) and len(v.elts) == len(ts) and not any(isinstance(e, ast.Starred) for e in v.elts):
            parts = list(v.elts)
        elif isinstance(v, ast.Call) and isinstance(v.func, ast.Name) and v.func.id == "map" and len(v.args) == 2 and not v.keywords and \
                isinstance(v.args[1], (ast.Tuple, ast.List)) and len(v.args[1].elts) == len(ts):
            parts = [ast.Call(func=v.args[0], args=[e], keywords=[]) for e in v.args[1].elts]
        for i, t in enumerate(ts):
            if isinstance(t, ast.Attribute) and cv.ty.kind(t.value)[0] in ("chart", "mapset"):
                out.append((n, t, parts[i] if parts else None))
    return out


def rule_r4(ctx) -> List[R.Inst]:
    M = ctx.M
    insts = []
    for cv in convs(ctx):
        sroles, troles = ROLES[cv.src_game], ROLES[cv.tgt_game]
        # variables denoting the source: the parameter and loop variables over it
        srcvars = {cv.src_param: "set"}
        for lp in _loops(cv.fn.node):
            if _chart_var(lp, cv.src_param) is not None:
                srcvars[_chart_var(lp, cv.src_param).id] = "chart"
        for role in ("title", "artist", "creator", "diffname"):
            if role not in sroles or role not in troles:
                continue
            key = f"{cv.name}.{cv.fn.name}:{role}"
            cands = [(stmt, t, stmt.value) for stmt, t, bk in cv.stores if bk[0] in ("chart", "mapset") and t.attr in troles[role]]
            cands += [c for c in _tuple_stores(cv) if c[1].attr in troles[role]]
            # a local bound once reads as its value: `title = enc(src.title)` hoisted out of the chart loop
            vals = [(stmt, t, None if v is None else inline_locals(cv.fn.node, v)) for stmt, t, v in cands]
            hit = [(stmt, t) for stmt, t, v in vals if v is not None and _mentions_src(v, srcvars, sroles[role])]
            # the PRIMARY field of the role (the one the target's writer emits as Title / Artist / …: the first of the role's fields)
            # is the one that must be filled; a transliteration / unicode twin alone leaves the written file without it
            primary = troles[role][0]
            if hit and role in ("title", "artist") and len(troles[role]) > 1 and not any(t.attr == primary for _, t in hit) and \
                    not any(t.attr == primary for _, t, _v in cands):
                insts.append(R.viol("C08.R4", key, cv.file, hit[0][0].lineno,
                                    f"only '{hit[0][1].attr}' receives the source's {role}; the target's primary field '{primary}' (what its "
                                    f"writer emits as the {role}) is never assigned and keeps its default", construct=f"{cv.name}.{cv.fn.name} leaves {primary}"))
            elif hit:
                insts.append(R.ok("C08.R4", key, cv.file, hit[0][0].lineno,
                                  idiom=f"{unparse(hit[0][1])} <- source {sroles[role]}"))
            elif cands:
                stmt, t, v = vals[0]
                params = set(params_of(cv.fn.node))
                unknown = v is None or [n.id for n in ast.walk(v) if isinstance(n, ast.Name) and n.id in _local_names(cv.fn.node) - params
                                        and n.id not in srcvars]
                if unknown:
                    insts.append(R.undec("C08.R4", key, cv.file, stmt.lineno,
                                         f"target {role} is assigned from {unparse(stmt.value)[:80]!r}; where "
                                         f"{'that value' if v is None else '/'.join(sorted(set(unknown)))} comes from is not resolved"))
                    continue
                insts.append(R.viol("C08.R4", key, cv.file, stmt.lineno,
                                    f"target {role} is assigned from {unparse(stmt.value)!r}, not from the source's "
                                    f"{'/'.join(sroles[role])}", construct=unparse(stmt)[:160]))
            else:
                insts.append(R.viol("C08.R4", key, cv.file, cv.fn.node.lineno,
                                    f"target {role} ({'/'.join(troles[role])}) is never assigned: the source's "
                                    f"{'/'.join(sroles[role])} is lost", construct=f"{cv.name}.{cv.fn.name} drops {role}"))
    return insts


# --------------------------------------------------------------------------- R5
def M_cols(ctx, cv, tgt: ast.Attribute) -> List[str]:
    """declared columns of the target slot a cast is assigned to"""
    M = ctx.M
    k = cv.ty.kind(tgt.value)
    if k[0] == "chart" and k[1] in M.classes:
        slots = M.map_slots(k[1])
        if tgt.attr in slots:
            return M.list_columns(slots[tgt.attr])
    return []


def rule_r5(ctx) -> List[R.Inst]:
    insts = []
    for cv in convs(ctx):
        key = f"{cv.name}.{cv.fn.name}"
        params = set(params_of(cv.fn.node))
        writes = []
        for n in walk_no_nested(cv.fn.node):
            tgt = None
            if isinstance(n, ast.AugAssign):
                tgt = n.target
            elif isinstance(n, ast.Assign):
                tgt = n.targets[0]
            if tgt is None:
                continue
            names = [x.attr for x in ast.walk(tgt) if isinstance(x, ast.Attribute)] + \
                    [x.value for x in ast.walk(tgt) if isinstance(x, ast.Constant) and isinstance(x.value, str)]
            if "column" in names:
                writes.append(n)
        if not writes:
            insts.append(R.ok("C08.R5", key, cv.file, cv.fn.node.lineno, idiom="columns never rewritten"))
            continue
        # enclosing conditions of every statement
        guards = {}
        def _walk(stmts, conds):
            for st in stmts:
                guards[id(st)] = conds
                if isinstance(st, ast.If):
                    _walk(st.body, conds + [(st.test, True)])
                    _walk(st.orelse, conds + [(st.test, False)])
                elif isinstance(st, (ast.For, ast.While, ast.With, ast.Try)):
                    for blk in ("body", "orelse", "finalbody"):
                        _walk(getattr(st, blk, []) or [], conds)
        _walk(cv.fn.node.body, [])
        for w in writes:
            good = isinstance(w, ast.AugAssign) and isinstance(w.op, ast.Add) and isinstance(w.value, ast.Name) \
                and w.value.id in params
            # the shift may be skipped only when it is 0 (`if shift:` / `if shift != 0:`): any other test on the shift parameter
            # drops part of its domain (a negative shift is a shift)
            bad_guard = None
            if good:
                for test, pol in guards.get(id(w), []):
                    if any(isinstance(x, ast.Name) and x.id == w.value.id for x in ast.walk(test)):
                        t = unparse(test).replace(" ", "")
                        if pol and t in (w.value.id, f"{w.value.id}!=0", f"0!={w.value.id}"):
                            continue
                        bad_guard = test
            if bad_guard is not None:
                insts.append(R.viol("C08.R5", key, cv.file, w.lineno,
                                    f"the shift is applied only when '{unparse(bad_guard)}': for the other values of '{w.value.id}' the "
                                    f"requested shift is silently ignored", construct=f"{key}: shift guarded by {unparse(bad_guard)}"))
                continue
            late_casts = [c for c, tgt, st in cv.casts if tgt is not None and st.lineno > w.lineno and
                          any(f in ("column",) for f in (M_cols(ctx, cv, tgt)))]
            if good and late_casts and isinstance(w.target, ast.Attribute) and "stack()" in unparse(w.target):
                c0 = late_casts[0]
                insts.append(R.viol("C08.R5", key, cv.file, w.lineno,
                                    f"the column shift is applied before '{unparse(c0)[:60]}…' is cast into the target: the lists assigned "
                                    f"afterwards keep their unshifted columns", construct=f"{key}: shift precedes a cast of a list with columns"))
            elif good:
                insts.append(R.ok("C08.R5", key, cv.file, w.lineno, idiom=f"column += {w.value.id} (explicit shift argument)"))
            else:
                insts.append(R.viol("C08.R5", key, cv.file, w.lineno,
                                    "columns are changed by something other than '+= <shift parameter>'",
                                    construct=unparse(w)))
    return insts


# --------------------------------------------------------------------------- R6
def rule_r6(ctx) -> List[R.Inst]:
    E = ctx.E
    insts = []
    for cv in convs(ctx):
        s = E.summary(cv.q)
        key = f"{cv.name}.{cv.fn.name}"
        bad = {r: sites for r, sites in s.mut.items() if r[0] != "cls"}
        if not bad:
            insts.append(R.ok("C08.R6", key, cv.file, cv.fn.node.lineno, idiom="Mut = {}"))
        for (p, f), sites in sorted(bad.items()):
            st = sites[0]
            insts.append(R.viol("C08.R6", f"{key}:{p}", cv.file, st.line,
                                f"source parameter '{p}' is modified: {st.text} {('(' + st.via + ')') if st.via else ''}",
                                construct=st.text))
    return insts


# --------------------------------------------------------------------------- R7
def _chain_calls(e) -> List[ast.Call]:
    """method-call chain a.b().c().d() -> [b(), c(), d()] outermost last."""
    out = []
    while True:
        if isinstance(e, ast.Call) and isinstance(e.func, ast.Attribute):
            out.append(e)
            e = e.func.value
        elif isinstance(e, ast.Subscript):
            e = e.value
        elif isinstance(e, ast.Attribute):
            e = e.value
        else:
            break
    return out[::-1]


def extra_columns_of_empty(ctx, q: str) -> Tuple[List[str], Optional[ast.AST]]:
    """Columns ``empty`` adds on top of ``_default()`` (['index'] for a bare reset_index)."""
    fn = ctx.M.fn(q)
    extra = []
    node = None
    for n in walk_no_nested(fn.node):
        if isinstance(n, ast.Call) and isinstance(n.func, ast.Attribute) and n.func.attr == "reset_index":
            drop = any(k.arg == "drop" and isinstance(k.value, ast.Constant) and k.value.value is True for k in n.keywords)
            if not drop:
                extra.append("index")
                node = n
        if isinstance(n, ast.Assign):
            for t in n.targets:
                if isinstance(t, ast.Subscript) and C.const_str(t.slice):
                    extra.append(C.const_str(t.slice))
                    node = n
    return extra, node


def default_series_shape(ctx) -> Tuple[str, ast.AST]:
    """How list_props._default turns a declared default into a column:
    'scalar' = pd.Series(default, dtype) (length 0 for an empty-list default),
    'row'    = pd.Series([default], dtype) (always one row)."""
    M = ctx.M
    q = "reamber.base.Property.list_props.<locals>.gen_props.<locals>._default"
    fn = M.fn(q)
    for n in ast.walk(fn.node):
        if isinstance(n, ast.Call) and unparse(n.func).endswith("Series") and n.args:
            a = n.args[0]
            if isinstance(a, (ast.List, ast.Tuple)) and len(a.elts) == 1:
                return "row", n
            if isinstance(a, ast.BinOp) and isinstance(a.op, ast.Mult):
                return "row", n
            return "scalar", n
    raise AnalysisError("list_props._default: Series construction not found")


def rule_r7(ctx) -> List[R.Inst]:
    M = ctx.M
    insts = []
    # (a) empty(n) yields exactly the declared columns
    empties = {}
    for c in concrete_classes(M, "list"):
        m = M.method(c, "empty")
        if m is None:
            raise AnalysisError(f"{c}: no empty()")
        empties.setdefault(m, []).append(c)
    for m, users in sorted(empties.items()):
        file, line = fn_loc(M, m)
        extra, node = extra_columns_of_empty(ctx, m)
        key = f"{short(m)}[{len(users)} list classes]"
        if extra:
            insts.append(R.viol("C08.R7", key, file, node.lineno,
                                f"empty() adds column(s) {extra} that are not declared fields (a bare reset_index() keeps "
                                f"the old labels as an 'index' column)", construct=unparse(node)[:160]))
        else:
            insts.append(R.ok("C08.R7", key, file, line, idiom="_default() columns, reset_index(drop=True)"))
    # (b) every declared default can be replicated to n rows
    shape, node = default_series_shape(ctx)
    pfile = M.mods["reamber.base.Property"].rel
    for c in concrete_classes(M, "list"):
        ic = M.item_class_of_list(c)
        bad = [f for f, (dt, dv) in M.item_fields(ic).items() if isinstance(dv, (list, tuple, dict, set)) and len(dv) == 0]
        key = f"{c.split('.')[-1]}.defaults"
        if bad and shape == "scalar":
            insts.append(R.viol("C08.R7", key, pfile, node.lineno,
                                f"default of {bad} is an empty container: pd.Series(default) has length 0, so empty(n) and "
                                f"cast() leave NaN in that column", construct=f"{c.split('.')[-1]} {bad} {unparse(node)[:80]}"))
        else:
            insts.append(R.ok("C08.R7", key, pfile, node.lineno, idiom=f"{len(M.item_fields(ic))} defaults replicable"))
    return insts


# --------------------------------------------------------------------------- R8
STRIPPERS = {"to_numpy", "tolist", "to_list", "values", "array"}


def _strips(e) -> bool:
    """expression removes a Series' index"""
    if isinstance(e, ast.Call):
        f = e.func
        if isinstance(f, ast.Attribute) and f.attr in STRIPPERS:
            return True
        if isinstance(f, ast.Attribute) and f.attr == "reset_index" and any(
                k.arg == "drop" and isinstance(k.value, ast.Constant) and k.value.value is True for k in e.keywords):
            return True
        if isinstance(f, ast.Attribute) and f.attr in ("asarray", "array") and isinstance(f.value, ast.Name):
            return True
        if isinstance(f, ast.Name) and f.id == "list":
            return True
    if isinstance(e, ast.Attribute) and e.attr in STRIPPERS:
        return True
    return False


def _is_reflective_get(e) -> bool:
    return (isinstance(e, ast.Call) and isinstance(e.func, ast.Attribute) and e.func.attr in
            ("__getattribute__", "__getattr__")) or (
        isinstance(e, ast.Call) and isinstance(e.func, ast.Name) and e.func.id == "getattr")


def _series_test(t) -> Optional[str]:
    """isinstance(<name>, <...Series...>) -> name"""
    if isinstance(t, ast.Call) and isinstance(t.func, ast.Name) and t.func.id == "isinstance" and len(t.args) == 2 and \
            isinstance(t.args[0], ast.Name) and "Series" in unparse(t.args[1]):
        return t.args[0].id
    return None


def _pjoin(a: str, b: str) -> str:
    for k in ("unknown", "foreign", "caller", "stripped"):
        if k in (a, b):
            return k
    return "other"


def _bind_iter(target, it, env: Dict[str, str], out: Dict[str, str]) -> None:
    """provenance of the loop / comprehension variables from what is iterated: the values of the mapping are the caller's, the
    elements of a sequence have the sequence's provenance (zip: position by position); anything else that mentions a value with
    row labels is 'unknown' — never silently 'other'"""
    names = [x for x in ast.walk(target) if isinstance(x, ast.Name)]
    if isinstance(it, ast.Call) and isinstance(it.func, ast.Attribute) and it.func.attr in ("items", "values") and not it.args:
        if it.func.attr == "values" and isinstance(target, ast.Name):
            out[target.id] = "caller"
        elif it.func.attr == "items" and isinstance(target, ast.Tuple) and len(target.elts) == 2 and isinstance(target.elts[1], ast.Name):
            out[target.elts[1].id] = "caller"
        return
    if isinstance(it, ast.Call) and isinstance(it.func, ast.Name) and it.func.id == "zip" and isinstance(target, ast.Tuple) and \
            len(target.elts) == len(it.args) and not it.keywords:
        for t, a in zip(target.elts, it.args):
            if isinstance(t, ast.Name):
                if isinstance(a, ast.Call) and isinstance(a.func, ast.Attribute) and a.func.attr == "values" and not a.args:
                    out[t.id] = "caller"
                else:
                    out[t.id] = prov(a, env)
        return
    if isinstance(it, ast.Name) and isinstance(target, ast.Name):
        out[target.id] = env.get(it.id, "other")
        return
    tainted = any(env.get(x.id) in ("foreign", "caller", "unknown") for x in ast.walk(it) if isinstance(x, ast.Name))
    for x in names:
        out[x.id] = "unknown" if tainted else out.get(x.id, "other")


def prov(e, env: Dict[str, str]) -> str:
    """'foreign' | 'stripped' | 'other' for an expression in cast()."""
    if isinstance(e, ast.Name):
        return env.get(e.id, "other")
    if _strips(e):
        return "stripped"
    if _is_reflective_get(e):
        return "foreign"
    if isinstance(e, ast.IfExp):
        a, b = prov(e.body, env), prov(e.orelse, env)
        nm = _series_test(e.test)
        if nm and a == "stripped" and isinstance(e.orelse, ast.Name) and e.orelse.id == nm:
            return "stripped"       # `x.to_numpy() if isinstance(x, pd.Series) else x`: what is left is not a Series
        return _pjoin(a, b)
    if isinstance(e, (ast.ListComp, ast.GeneratorExp)) and len(e.generators) == 1:
        # a list of looked-up values: each element has the provenance of the element expression
        g = e.generators[0]
        env2 = dict(env)
        _bind_iter(g.target, g.iter, env, env2)
        return prov(e.elt, env2)
    if isinstance(e, (ast.List, ast.Tuple)) and e.elts:
        out = "other"
        for x in e.elts:
            out = _pjoin(out, prov(x.value if isinstance(x, ast.Starred) else x, env))
        return out
    if isinstance(e, ast.Call):
        # wrappers such as pd.Series(x) keep the index
        ps = [prov(a, env) for a in e.args]
        if "foreign" in ps:
            return "foreign"
        if isinstance(e.func, ast.Name) and e.func.id.startswith("_") and ("caller" in ps or "unknown" in ps):
            return "unknown"        # a helper of the repository that the normal form could not expand
    if isinstance(e, (ast.BinOp,)):
        if "foreign" in (prov(e.left, env), prov(e.right, env)):
            return "foreign"
    return "other"


def rule_r8(ctx) -> List[R.Inst]:
    M = ctx.M
    fn = M.nfn(CAST)        # private helpers (also a singledispatch family, merged at load) expanded in place
    file = M.mods[fn.mod].rel
    found = []

    def run(stmts, env):
        for s in stmts:
            if isinstance(s, ast.Assign) and isinstance(s.targets[0], ast.Name):
                env[s.targets[0].id] = prov(s.value, env)
            elif isinstance(s, ast.If):
                e1, e2 = dict(env), dict(env)
                t = s.test
                narrowed = _series_test(t)
                if narrowed and s.orelse and e2.get(narrowed) in ("foreign", "caller"):
                    e2[narrowed] = "stripped"     # on the else side the value is not a Series: it carries no row labels
                run(s.body, e1)
                run(s.orelse, e2)
                if narrowed and narrowed not in {x.id for b_ in s.orelse for x in ast.walk(b_) if isinstance(x, ast.Name) and isinstance(x.ctx, ast.Store)}:
                    e2[narrowed] = env.get(narrowed, "other")     # the narrowing ends with the branch
                for k in set(e1) | set(e2):
                    a, b = e1.get(k, "other"), e2.get(k, "other")
                    if k == narrowed and a == "stripped" and b in ("foreign", "caller"):
                        env[k] = "stripped"   # a Series took the stripping branch; what is left is not a Series
                    else:
                        env[k] = _pjoin(a, b)
            elif isinstance(s, (ast.For, ast.While)):
                # `for to_, from_ in mapping.items()`: the values are whatever the call sites put into the mapping
                if isinstance(s, ast.For):
                    _bind_iter(s.target, s.iter, env, env)
                run(s.body, env)
                run(s.body, env)
            elif isinstance(s, ast.Expr):
                sink(s.value, env)
            for n in ([s.value] if isinstance(s, ast.Assign) else []):
                sink(n, env)

    def sink(e, env):
        for n in ast.walk(e):
            if isinstance(n, ast.Call) and isinstance(n.func, ast.Attribute) and n.func.attr == "__setattr__" and len(n.args) == 2:
                found.append((n, prov(n.args[1], env)))
            elif isinstance(n, ast.Call) and isinstance(n.func, ast.Name) and n.func.id == "setattr" and len(n.args) == 3:
                found.append((n, prov(n.args[2], env)))

    run(fn.node.body, {})
    found = list({id(n): (n, p) for n, p in found}.values())
    # direct column stores (buffer.df[to_] = ...) would also be sinks
    if not found:
        return [R.undec("C08.R8", "cast.store", file, fn.node.lineno, "no reflective store found in cast()")]
    n_uses = sum(len(cv.casts) for cv in convs(ctx))
    insts = []
    for n, p in found:
        key = f"ConvertBase.cast.store[{n_uses} uses]"
        if p == "caller":
            # the value is stored exactly as the call site wrote it: every non-constant mapping value must then be label-free
            bad = []
            for cv in convs(ctx):
                for call, tgt, st in cv.casts:
                    mp = call.args[2] if len(call.args) > 2 else next((k.value for k in call.keywords if k.arg == "mapping"), None)
                    vals = []
                    if isinstance(mp, ast.Call) and isinstance(mp.func, ast.Name) and mp.func.id == "dict":
                        vals = [(k.arg, k.value) for k in mp.keywords]
                    elif isinstance(mp, ast.Dict):
                        vals = [(unparse(k), v) for k, v in zip(mp.keys, mp.values)]
                    for name, v in vals:
                        if isinstance(v, ast.Constant):
                            continue
                        kk = cv.ty.kind(v)
                        txt = unparse(v)
                        if kk[0] in ("series", "df") or (cv.src_param + ".") in txt and not _strips(v):
                            bad.append((cv, call, name, txt))
            if bad:
                cv, call, name, txt = bad[0]
                insts.append(R.viol("C08.R8", "ConvertBase.cast.store", file, n.lineno,
                                    f"mapping values that are not field names are stored as passed; {cv.name} passes the Series "
                                    f"'{txt[:70]}' for '{name}', which carries the source's row labels: after a sort / filter / rate "
                                    f"change of the source the values land on other rows (label alignment)",
                                    construct=f"cast stores caller value; {cv.name}: {name}={txt[:80]}"))
            else:
                insts.append(R.ok("C08.R8", "ConvertBase.cast.store", file, n.lineno,
                                  idiom=f"caller values stored as passed; all {n_uses} call sites pass constants or label-free values"))
        elif p == "unknown":
            insts.append(R.undec("C08.R8", "ConvertBase.cast.store", file, n.lineno,
                                 f"the stored value goes through a helper that could not be expanded: {unparse(n)[:120]}"))
        elif p == "foreign":
            insts.append(R.viol("C08.R8", "ConvertBase.cast.store", file, n.lineno,
                                "a column of the caller's frame (its own row labels) is stored into the 0..n-1 indexed buffer: "
                                "pandas aligns on labels, so any source whose labels are not 0..n-1 yields NaN / shifted rows",
                                construct=unparse(n)[:200]))
        else:
            insts.append(R.ok("C08.R8", "ConvertBase.cast.store", file, n.lineno,
                              idiom=f"value index-stripped before the store ({n_uses} uses)"))
    return insts


def rule_r9(ctx):
    """key-count and sample-set tables that converters, readers and writers use in both directions agree
    (sa/props/tablepairs.py): back(fwd(k)) = k"""
    from .tablepairs import pair_insts
    return pair_insts(ctx, "C08.R9")



def _container_fields(M) -> set:
    """names of dataclass fields (of any chart / mapset metadata class) annotated as a mutable container"""
    out = set()
    for c, k in M.classes.items():
        for st in k.node.body:
            if isinstance(st, ast.AnnAssign) and isinstance(st.target, ast.Name):
                a = unparse(st.annotation)
                if a.split("[")[0] in ("List", "Dict", "list", "dict", "Set", "set", "typing.List", "typing.Dict"):
                    out.add(st.target.id)
    return out


def rule_r10(ctx) -> List[R.Inst]:
    """the converted chart owns its containers: a list / dict valued metadata field of the source is copied, not handed over
    (`qua.tags = osu.tags` makes `qua.tags.append(...)` change the source chart)"""
    M = ctx.M
    insts = []
    cont = _container_fields(M)
    COPY = ("list", "dict", "set", "tuple", "copy", "deepcopy", "sorted")
    for cv in convs(ctx):
        params = {a.arg for a in cv.fn.node.args.args if a.arg not in ("cls", "self")}
        # loop variables over a source parameter are sources too
        src = set(params)
        for n in ast.walk(cv.fn.node):
            if isinstance(n, ast.For) and isinstance(n.target, ast.Name) and any(
                    isinstance(x, ast.Name) and x.id in src for x in ast.walk(n.iter)):
                src.add(n.target.id)
        found = False
        for n in ast.walk(cv.fn.node):
            if isinstance(n, ast.Assign) and len(n.targets) == 1 and isinstance(n.targets[0], ast.Attribute) and \
                    isinstance(n.value, ast.Attribute) and isinstance(n.value.value, ast.Name) and n.value.value.id in src and \
                    n.value.attr in cont:
                found = True
                insts.append(R.viol("C08.R10", f"{cv.name}:{n.targets[0].attr}", cv.file, n.lineno,
                                    f"'{unparse(n)}' hands the source chart's own {n.value.attr} container to the result: changing "
                                    f"the result's {n.targets[0].attr} afterwards changes the source", construct=f"{cv.name}: {unparse(n)}"))
            elif isinstance(n, ast.Assign) and len(n.targets) == 1 and isinstance(n.targets[0], ast.Attribute) and \
                    isinstance(n.value, ast.Call) and call_name(n.value) in COPY and n.value.args and \
                    isinstance(n.value.args[0], ast.Attribute) and isinstance(n.value.args[0].value, ast.Name) and \
                    n.value.args[0].value.id in src and n.value.args[0].attr in cont:
                found = True
                insts.append(R.ok("C08.R10", f"{cv.name}:{n.targets[0].attr}", cv.file, n.lineno, idiom=f"{call_name(n.value)}(source.{n.value.args[0].attr})"))
        if not found:
            insts.append(R.ok("C08.R10", f"{cv.name}:containers", cv.file, cv.fn.node.lineno, idiom="no container-valued field is taken from the source"))
    return insts


UNIVERSAL_CODECS = {"utf-8", "utf8", "utf_8", "utf-16", "utf16", "utf-32", "utf32", "utf_8_sig", "utf-8-sig"}


def rule_r11(ctx) -> List[R.Inst]:
    """a converter is total on its domain: the source's title / artist / difficulty name are arbitrary text (osu!, Quaver, StepMania
    and O2Jam store Unicode), so an ENCODING into a legacy code page (`codecs.encode(s, "shift_jis")`, `s.encode("sjis")`) must say
    what happens to a character the code page lacks (errors=…), or the conversion of a chart called "Café" raises instead of
    returning a chart.  Decoding the bytes of a BMS chart is reported as an advisory only: the format defines them as Shift-JIS."""
    M = ctx.M
    rid = "C08.R11"
    insts = []
    for cv in convs(ctx):
        n_enc = 0
        for n in walk_no_nested(cv.fn.node):
            if not isinstance(n, ast.Call):
                continue
            f = n.func
            which = None
            codec = errs = None
            kw = {k.arg: k.value for k in n.keywords}
            if isinstance(f, ast.Attribute) and f.attr in ("encode", "decode") and isinstance(f.value, ast.Name) and f.value.id == "codecs":
                which = f.attr
                codec = kw.get("encoding", n.args[1] if len(n.args) > 1 else None)
                errs = kw.get("errors", n.args[2] if len(n.args) > 2 else None)
            elif isinstance(f, ast.Name) and f.id in ("encode", "decode") and M.resolve(cv.fn.mod, f.id) and M.resolve(cv.fn.mod, f.id)[0] in ("import", "external"):
                which = f.id
                codec = kw.get("encoding", n.args[1] if len(n.args) > 1 else None)
                errs = kw.get("errors", n.args[2] if len(n.args) > 2 else None)
            elif isinstance(f, ast.Attribute) and f.attr in ("encode", "decode") and not (isinstance(f.value, ast.Name) and f.value.id == "codecs"):
                which = f.attr
                codec = kw.get("encoding", n.args[0] if n.args else None)
                errs = kw.get("errors", n.args[1] if len(n.args) > 1 else None)
            if which is None:
                continue
            cname = codec.value.lower() if isinstance(codec, ast.Constant) and isinstance(codec.value, str) else None
            if codec is None or (cname is not None and cname in UNIVERSAL_CODECS):
                continue          # (the default and the UTF family encode every character)
            n_enc += 1
            key = f"{cv.name}:{which}@{n_enc}"
            strict = errs is None or (isinstance(errs, ast.Constant) and errs.value == "strict")
            if not strict:
                insts.append(R.ok(rid, key, cv.file, n.lineno, idiom=f"{which} to {cname or unparse(codec)} with errors={unparse(errs)}"))
            elif which == "encode":
                insts.append(R.viol(rid, key, cv.file, n.lineno,
                                    f"'{unparse(n)[:70]}' raises UnicodeEncodeError for every character {cname or 'the code page'} lacks (é, 한, …): "
                                    f"a source chart with such a title / artist / difficulty name is not converted at all",
                                    construct=f"{cv.name}: strict encode of {unparse(n.args[0])[:40] if n.args else '?'} to {cname}"))
            else:
                insts.append(R.adv(rid, key, cv.file, n.lineno,
                                   f"'{unparse(n)[:70]}' is strict: bytes that are not {cname} (a BMS file saved as UTF-8) make the conversion raise"))
        if n_enc == 0:
            insts.append(R.ok(rid, f"{cv.name}:codecs", cv.file, cv.fn.node.lineno, idiom="no conversion into or out of a legacy code page"))
    return insts


def rule_dep(ctx):
    """obligations inherited from shared code reached through the call graph (sa/props/deps.py)"""
    from .deps import dep_insts
    return dep_insts(ctx, "C08", __import__("sa.props.common", fromlist=["x"]).converter_entries(ctx.M), skip_groups=("tables",))


def rule_r12(ctx) -> List[R.Inst]:
    """every option a converter accepts is read: `move_right_by`, `raise_bad_mode`, … default to 'nothing special', so a converter
    that stops reading one still passes every test and silently ignores what the caller asks for"""
    from .common import unused_param_insts
    return unused_param_insts(ctx, "C08.R12", ("reamber.algorithms.convert.",), "converter functions",
                              "the conversion ignores what the caller asks for (a column shift that is not applied, a bad key count that is "
                              "not refused)")


SPECS = [
    RuleSpec("C08.R1", rule_r1, 50, "A1", "per-converter column mapping tables"),
    RuleSpec("C08.R2", rule_r2, 120, "M0", "every attribute store on a target chart/mapset hits a declared list or field"),
    RuleSpec("C08.R3", rule_r3, 17, "A8", "one target chart per source chart on every path"),
    RuleSpec("C08.R4", rule_r4, 50, "A1", "title/artist/creator/difficulty name come from the source"),
    RuleSpec("C08.R5", rule_r5, 17, "A7", "columns change only by '+= shift parameter'"),
    RuleSpec("C08.R6", rule_r6, 17, "A3", "source untouched"),
    RuleSpec("C08.R7", rule_r7, 35, "A2", "empty()/cast() results have exactly the declared fields, no undefined cells"),
    RuleSpec("C08.R8", rule_r8, 1, "A4", "label-agnostic copy in cast()"),
    RuleSpec("C08.R9", rule_r9, 3, "A1", "paired lookup tables (keys <-> chart type / mode, sample set code <-> name) are mutually consistent"),
    RuleSpec("C08.R10", rule_r10, 17, "A3", "container-valued metadata is copied into the result, not shared with the source"),
    RuleSpec("C08.R11", rule_r11, 17, "A7", "conversions into a legacy code page say what happens to characters it lacks (total on Unicode metadata)"),
    RuleSpec("C08.R12", rule_r12, 1, "A8", "every option a converter accepts is read"),
    RuleSpec("C08.D", rule_dep, 1, "M0", "rules of the shared code (timing engine, list classes, stacker) that the operations of this property reach"),
]

META = dict(
    explanation=(
        "For the 16 converters and convert_merge: every cast(source list, target list class, mapping) call site is "
        "checked against the declared list slots of both chart classes (identity on the core columns, SVs carried "
        "when both games have them); every attribute store on a target object must hit a declared list or field; "
        "mapset converters must construct and append exactly one target per source chart on every path; the four "
        "metadata roles must be assigned from the source; the source parameter must be free of mutation (A3); "
        "empty()/default frames must contain exactly the declared fields; and the copy in cast() must not align on "
        "row labels (A4). The lookup tables used in both directions (keys <-> StepMania chart type, keys <-> Quaver mode, osu sample-set code <-> name) are extracted as finite tables (if-chains, dict lookups, search loops) and must satisfy back(fwd(k)) = k (R9). Every option a converter accepts is read (R12)."),
    not_decided="value equality is implied by the tables, not executed",
)
