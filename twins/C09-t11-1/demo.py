"""Demo for the O2JToOsu.convert refactoring (C09, change 1).

Generates .ojn byte strings (3 levels each), reads them, converts every level to
an osu map, writes the osu text and reads it back.  Everything observable is put
into a canonical text dump, of which the sha256 is printed.
"""
import hashlib
import logging
import random
import struct

import pandas as pd

from reamber.algorithms.convert.O2JToOsu import O2JToOsu
from reamber.o2jam.O2JMap import O2JMap
from reamber.o2jam.O2JMapSet import O2JMapSet
from reamber.o2jam.O2JHit import O2JHit
from reamber.o2jam.O2JHold import O2JHold
from reamber.o2jam.O2JBpm import O2JBpm
from reamber.o2jam.lists.O2JBpmList import O2JBpmList
from reamber.o2jam.lists.notes.O2JHitList import O2JHitList
from reamber.o2jam.lists.notes.O2JHoldList import O2JHoldList
from reamber.osu.OsuMap import OsuMap

import warnings

warnings.simplefilter("ignore")
logging.disable(logging.CRITICAL)
random.seed(90912)

OUT = []


def emit(*parts):
    OUT.append(" ".join(str(p) for p in parts))


# --------------------------------------------------------------------- dumping
def dump_df(tag, df: pd.DataFrame):
    emit(tag, "type", type(df).__name__, "shape", df.shape)
    emit(tag, "columns", list(df.columns))
    emit(tag, "dtypes", [str(t) for t in df.dtypes])
    emit(tag, "index", type(df.index).__name__, [repr(i) for i in df.index.tolist()])
    for c in df.columns:
        emit(tag, "col", c, [repr(v) for v in df[c].tolist()])


LIST_NAMES = ("hits", "holds", "bpms", "svs", "samples")


def dump_obj(tag, obj):
    """Dumps a Map / MapSet: class, every plain attribute, every list"""
    emit(tag, "class", type(obj).__module__, type(obj).__name__)
    for k in sorted(vars(obj)):
        v = vars(obj)[k]
        if k == "objs":
            emit(tag, "objs-keys", list(v.keys()))
            for name, lst in v.items():
                emit(tag, "list", name, type(lst).__name__)
                dump_df(f"{tag}.{name}", lst.df)
        elif k == "maps":
            emit(tag, "maps", len(v))
            for i, m in enumerate(v):
                dump_obj(f"{tag}.maps[{i}]", m)
        elif hasattr(v, "df"):
            emit(tag, "attr-list", k, type(v).__name__)
            dump_df(f"{tag}.{k}", v.df)
        else:
            emit(tag, "attr", k, type(v).__name__, repr(v))


# --------------------------------------------------------------- ojn generator
def header(title, artist, creator, levels, bpm, pkg_counts):
    def s(text, n):
        b = text.encode("ascii", errors="replace")[:n]
        return b + b"\x00" * (n - len(b))

    h = b""
    h += struct.pack("<i", random.randrange(1, 5000))  # song id
    h += b"ojn\x00"  # signature
    h += struct.pack("<f", 2.9)  # encode version
    h += struct.pack("<i", random.randrange(0, 11))  # genre
    h += struct.pack("<f", bpm)
    h += struct.pack("<4h", *levels)  # level SHORT[4]
    h += struct.pack("<3i", 0, 0, 0)  # event count
    h += struct.pack("<3i", 0, 0, 0)  # note count
    h += struct.pack("<3i", 0, 0, 0)  # measure count
    h += struct.pack("<3i", *pkg_counts)  # package count
    h += struct.pack("<h", 29)  # old encode version
    h += struct.pack("<h", 1)  # old song id
    h += s("", 20)  # old genre
    h += struct.pack("<i", 0)  # bmp size
    h += struct.pack("<i", 0)  # old file version
    h += s(title, 64)
    h += s(artist, 32)
    h += s(creator, 32)
    h += s("x.ojm", 32)
    h += struct.pack("<i", 0)  # cover size
    h += struct.pack("<3i", 0, 0, 0)  # duration
    h += struct.pack("<3i", 300, 300, 300)  # note offset
    h += struct.pack("<i", 0)  # cover offset
    assert len(h) == 300, len(h)
    return h


def note_event(kind):
    """kind: None (disabled), 'hit', 'head', 'tail'"""
    if kind is None:
        return b"\x00\x00\x00\x00"
    vol_pan = random.randrange(0, 256)
    t = {"hit": 0, "head": 2, "tail": 3}[kind]
    return struct.pack("<h", random.randrange(1, 300)) + bytes([vol_pan, t])


def gen_level(n_measures, density, with_bpm_changes, with_autoplay):
    """Returns the packages (as bytes) of one level and their count"""
    pkgs = []
    open_hold = {}  # column -> True while a hold head waits for its tail
    for measure in range(n_measures):
        if with_bpm_changes and random.random() < 0.5:
            div = random.choice([1, 2, 4, 8])
            ev = b""
            for _ in range(div):
                if random.random() < 0.6:
                    ev += struct.pack(
                        "<f", random.choice([60.0, 90.5, 120.0, 133.33, 180.0, 240.0])
                    )
                else:
                    ev += struct.pack("<f", 0.0)
            pkgs.append(struct.pack("<ihh", measure, 1, div) + ev)
        if with_autoplay and random.random() < 0.3:
            div = random.choice([1, 2, 4])
            ev = b"".join(note_event("hit") for _ in range(div))
            pkgs.append(struct.pack("<ihh", measure, random.randrange(9, 23), div) + ev)
        cols = list(range(7))
        random.shuffle(cols)  # packages of a measure come in any column order
        for col in cols:
            if random.random() > density:
                continue
            div = random.choice([1, 2, 3, 4, 6, 8, 12, 16])
            ev = b""
            for _ in range(div):
                r = random.random()
                if open_hold.get(col):
                    if r < 0.5:
                        ev += note_event("tail")
                        open_hold[col] = False
                    else:
                        ev += note_event(None)
                elif r < 0.35:
                    ev += note_event("hit")
                elif r < 0.5:
                    ev += note_event("head")
                    open_hold[col] = True
                else:
                    ev += note_event(None)
            pkgs.append(struct.pack("<ihh", measure, col + 2, div) + ev)
    # Close all holds still open in one last measure
    for col, is_open in sorted(open_hold.items()):
        if is_open:
            pkgs.append(struct.pack("<ihh", n_measures, col + 2, 1) + note_event("tail"))
    return b"".join(pkgs), len(pkgs)


def gen_ojn(case):
    titles = ["Fly Magpie", "", "a" * 64, "Title: with, punct | #1", "x y  z"]
    title = random.choice(titles)
    artist = random.choice(["", "Artist", "B" * 40, "nobody,really"])
    creator = random.choice(["", "me", "some:one"])
    levels = [random.randrange(-3, 200) for _ in range(4)]
    if case % 7 == 0:
        levels = [5, 5, 5, 5]  # ties between the level names
    bpm = random.choice([60.0, 120.0, 147.5, 200.0, 333.0])
    bodies, counts = [], []
    for lvl in range(3):
        if case % 5 == 1 and lvl == 1:
            body, cnt = b"", 0  # an empty level
        else:
            body, cnt = gen_level(
                n_measures=random.randrange(1, 6),
                density=random.choice([0.15, 0.4, 0.8]),
                with_bpm_changes=case % 3 != 0,
                with_autoplay=case % 4 == 0,
            )
        bodies.append(body)
        counts.append(cnt)
    return header(title, artist, creator, levels, bpm, counts) + b"".join(bodies)


# ------------------------------------------------------------------- the runs
def run(tag, make_set):
    """make_set() -> O2JMapSet.  Converts, dumps results and the input after"""
    try:
        o2js = make_set()
    except Exception as e:  # reading is not what is under test, but record it
        emit(tag, "READ-RAISED", type(e).__name__)
        return
    try:
        osus = O2JToOsu.convert(o2js)
    except Exception as e:
        emit(tag, "CONVERT-RAISED", type(e).__name__, repr(str(e)))
        dump_obj(tag + ".input-after", o2js)
        return
    emit(tag, "result", type(osus).__name__, len(osus))
    emit(tag, "distinct-result-objects", len({id(o) for o in osus}))
    for i, osu in enumerate(osus):
        t = f"{tag}.osu[{i}]"
        dump_obj(t, osu)
        # Results must not share their frames with the source
        for name in ("hits", "holds", "bpms"):
            emit(t, "shares-df", name, getattr(osu, name).df is getattr(o2js[i], name).df)
        try:
            lines = osu.write()
            emit(t, "written", len(lines))
            for ln in lines:
                emit(t, "line", repr(ln))
            back = OsuMap.read("\n".join(lines).split("\n"))
            dump_obj(t + ".reread", back)
        except Exception as e:
            emit(t, "WRITE-RAISED", type(e).__name__)
    dump_obj(tag + ".input-after", o2js)


def main():
    # 1. generated .ojn files
    for case in range(40):
        b = gen_ojn(case)
        run(f"ojn{case}", lambda b=b: O2JMapSet.read(b))

    # 2. hand-built sets: the edge cases of the level lookup
    def mk_map(n_hits, n_holds, n_bpms, shuffle=False):
        m = O2JMap()
        hits = [
            O2JHit(offset=random.choice([-50.0, 0.0, 12.5, 1000.0, 1000.0, 3e5]),
                   column=random.randrange(7), volume=random.randrange(16),
                   pan=random.randrange(16))
            for _ in range(n_hits)
        ]
        holds = [
            O2JHold(offset=random.choice([-1.0, 0.0, 250.25, 1000.0]),
                    column=random.randrange(7), length=random.choice([0.0, 1.0, 333.3]),
                    volume=random.randrange(16), pan=random.randrange(16))
            for _ in range(n_holds)
        ]
        bpms = [
            O2JBpm(offset=random.choice([0.0, 0.0, 500.0, 1234.5]),
                   bpm=random.choice([1.0, 120.0, 999.0]))
            for _ in range(n_bpms)
        ]
        if shuffle:
            random.shuffle(hits), random.shuffle(holds), random.shuffle(bpms)
        m.hits, m.holds, m.bpms = O2JHitList(hits), O2JHoldList(holds), O2JBpmList(bpms)
        return m

    def mk_set(maps, level, **meta):
        s = O2JMapSet(maps=list(maps))
        s.level = level
        for k, v in meta.items():
            setattr(s, k, v)
        return s

    a, b, c = mk_map(3, 2, 1), mk_map(0, 0, 0), mk_map(5, 0, 2, shuffle=True)
    hand = {
        "empty-set": lambda: mk_set([], [1, 2, 3, 0]),
        "empty-set-no-level": lambda: mk_set([], []),
        "one-map": lambda: mk_set([a], [9, 8, 7, 0], title="T", artist="A", creator="C"),
        "three-maps": lambda: mk_set([a, b, c], [3, 14, 15, 0], title="ttl"),
        "same-object-twice": lambda: mk_set([a, b, a], [10, 20, 30, 0]),
        "same-object-thrice": lambda: mk_set([c, c, c], [1, 2, 3]),
        "repeat-then-short-level": lambda: mk_set([a, a, a, a], [77]),
        "equal-but-distinct": lambda: mk_set([a, a.deepcopy(), a.deepcopy()], [4, 5, 6]),
        "level-too-short": lambda: mk_set([a, b, c], [1, 2]),
        "level-empty": lambda: mk_set([a], []),
        "five-maps": lambda: mk_set([a, b, c, b, mk_map(1, 1, 1)], [1, 2, 3, 4, 5, 6]),
        "level-tuple-of-str": lambda: mk_set([a, b], ("easy", "hard")),
        "level-dict": lambda: mk_set([a, b], {0: "zero", 1: "one"}),
        "level-dict-missing": lambda: mk_set([a, b], {0: "zero"}),
        "unicode-meta": lambda: mk_set([b, a], [0, -1], title="タイトル",
                                       artist="é", creator=""),
    }
    for name, make in hand.items():
        run("hand:" + name, make)

    text = "\n".join(OUT)
    print("DIGEST", hashlib.sha256(text.encode("utf-8")).hexdigest())
    import sys

    stats = [sum(1 for o in OUT if k in o) for k in ("CONVERT-RAISED", "WRITE-RAISED", "READ-RAISED")]
    print("lines", len(OUT), "convert/write/read raised", stats, file=sys.stderr)


if __name__ == "__main__":
    main()
