"""F45–F47 (C02): .sm tokenising.  Comments and blank lines are part of the property's domain.
  F45  C02.R11 comments-first   a comment containing ':' ',' or ';' is taken for structure; an inline comment drops its row
  F46  C02.R11 rows-stripped    whitespace-only lines count as rows, indentation is read as columns, CRLF text misplaces rows
  F47  C02.R11 offset-default   a file without #OFFSET raises TypeError
Run:  cd /repo && /venv/bin/python /verif/triage/probes/F45_F47_sm_tokeniser.py
"""
import warnings
warnings.simplefilter("ignore")
from reamber.sm.SMMapSet import SMMapSet

HDR = "#TITLE:t;\n#OFFSET:0.5;\n#BPMS:0=120.0;\n#NOTES:\n dance-single:\n d:\n Easy:\n 3:\n 0,0,0,0,0:\n"
M1 = "1000\n0100\n0010\n0001\n"
WANT = [(-500.0, 0), (0.0, 1), (500.0, 2), (1000.0, 3), (1500.0, 0), (2000.0, 1), (2500.0, 2), (3000.0, 3)]
bad = []


def hits(text):
    m = SMMapSet.read(text)[0]
    return sorted(zip(m.hits.offset.round(6).tolist(), m.hits.column.tolist()))


def case(name, text, want=WANT):
    try:
        got = hits(text)
        ok = got == want
    except Exception as e:  # noqa: BLE001
        got, ok = repr(e), False
    print("ok  " if ok else "FAIL", name, "" if ok else f"-> {got}")
    if not ok:
        bad.append(name)


case("plain", HDR + M1 + ",\n" + M1 + ";")
case("F45 comment with ':'", HDR + "// measure 1: intro\n" + M1 + ",\n// measure 2: verse\n" + M1 + ";")
case("F45 comment with ','", HDR + "// a, b\n" + M1 + ",\n" + M1 + ";")
case("F45 comment with ';'", HDR + "// x; y\n" + M1 + ",\n" + M1 + ";")
case("F45 inline comment", HDR + "1000 // kick\n0100\n0010\n0001\n,\n" + M1 + ";")
case("F46 whitespace-only line", HDR + "1000\n0100\n   \n0010\n0001\n,\n" + M1 + ";")
case("F46 indented rows", HDR + "  1000\n  0100\n  0010\n  0001\n,\n" + M1 + ";")
case("F46 CRLF text", (HDR + M1 + ",\n" + M1 + ";").replace("\n", "\r\n"))
case("F47 no #OFFSET", (HDR + M1 + ",\n" + M1 + ";").replace("#OFFSET:0.5;\n", ""), [(o + 500.0, c) for o, c in WANT])
assert not bad, bad
print("ok")
