"""C18 — hitsound copy moves sounds, never notes, and loses nothing it promises to keep (DESIGN §5 C18)."""
from __future__ import annotations

import ast
from typing import Dict, List, Optional, Tuple

from ..model import AnalysisError, walk_no_nested, params_of
from .. import report as R
from ..report import RuleSpec
from .. import codec as C
from .. import sym
from ..flow import ctor_kwargs
from .common import unparse, call_name, local_defs, short
from .c17 import _branch_paths

HSC = "reamber.algorithms.osu.hitsound_copy.hitsound_copy"
OSUMAP = "reamber.osu.OsuMap.OsuMap"
SOUND_STORE_COLS = {"hitsound_set", "volume", "hitsound_file"}
# columns of an osu note that carry sound (the source filter of hitsound_copy tests exactly these)
SOUND_COLS = ["hitsound_set", "hitsound_file", "sample_set", "addition_set", "custom_set"]


def _u(e):
    return ast.unparse(e) if e is not None else ""


# roles of the locals of hitsound_copy the rules talk about (sa/normal.py: with_roles)
HSC_ROLES = (
    ("df_src", lambda n, v, st: isinstance(v, ast.Call) and call_name(v) == "groupby" and v.args and C.const_str(v.args[0]) == "offset"),
    ("offset", lambda n, v, st: isinstance(st, ast.For) and _u(st.iter) == "df_src" and isinstance(st.target, ast.Tuple) and
     isinstance(st.target.elts[0], ast.Name) and st.target.elts[0].id == n),
    ("offset_group", lambda n, v, st: isinstance(st, ast.For) and _u(st.iter) == "df_src" and isinstance(st.target, ast.Tuple) and
     isinstance(st.target.elts[1], ast.Name) and st.target.elts[1].id == n),
    ("hitsound_files", lambda n, v, st: isinstance(v, ast.ListComp) and ".split(" in _u(v.generators[0].iter) and "hitsound_file" in _u(v.generators[0].iter)),
    ("slot", lambda n, v, st, node: isinstance(v, ast.Constant) and v.value == 0 and isinstance(st, ast.Assign) and any(
        isinstance(x, ast.AugAssign) and isinstance(x.target, ast.Name) and x.target.id == n and isinstance(x.op, ast.Add) and
        isinstance(x.value, ast.Constant) and x.value.value == 1 for x in ast.walk(node))),
)


def _fn(ctx):
    from ..normal import with_roles
    return with_roles(ctx.M.nfn(HSC, subst=True), HSC_ROLES)


def _frames(fn) -> Dict[str, ast.Assign]:
    """local frame <- pd.concat([i.df for i in X.notes])  (first definition)"""
    out = {}
    for n in fn.node.body:
        if isinstance(n, ast.Assign) and isinstance(n.targets[0], ast.Name) and isinstance(n.value, ast.Call) and \
                call_name(n.value) == "concat" and n.targets[0].id not in out:
            out[n.targets[0].id] = n
    return out


def _notes_source(a: ast.Assign) -> Optional[str]:
    for n in ast.walk(a.value):
        if isinstance(n, ast.comprehension) and isinstance(n.iter, ast.Attribute) and n.iter.attr == "notes" and \
                isinstance(n.iter.value, ast.Name):
            return n.iter.value.id
    return None


def rule_r1(ctx) -> List[R.Inst]:
    M, E = ctx.M, ctx.E
    rid = "C18.R1"
    fn = _fn(ctx)
    file = M.mods[fn.mod].rel
    s = E.summary(HSC)
    insts = []
    ps = params_of(fn.node)
    for p in ps:
        hits = [(root, sites) for root, sites in s.mut.items() if root[0] == p]
        if hits:
            (pp, f), sites = hits[0]
            insts.append(R.viol(rid, f"input:{p}", file, sites[0].line, f"hitsound_copy modifies its input '{p}': {sites[0].text}",
                                construct=sites[0].text))
        else:
            insts.append(R.ok(rid, f"input:{p}", file, fn.node.lineno, idiom="Mut = {} (the target is deep-copied before any write)"))
    if s.ret.all():
        insts.append(R.viol(rid, "result-fresh", file, fn.node.lineno, "the result shares storage with an input", construct="result aliases input"))
    else:
        insts.append(R.ok(rid, "result-fresh", file, fn.node.lineno, idiom="result is rooted in deepcopy(target)"))
    return insts


def rule_r2(ctx) -> List[R.Inst]:
    M = ctx.M
    rid = "C18.R2"
    fn = _fn(ctx)
    file = M.mods[fn.mod].rel
    src_p, tgt_p = params_of(fn.node)[:2]
    frames = _frames(fn)
    insts = []
    res = [nm for nm, a in frames.items() if _notes_source(a) == tgt_p]
    if len(res) != 1:
        return [R.viol(rid, "result-frame", file, fn.node.lineno,
                       f"the result frame is not built from the target's notes ({ {k: _notes_source(v) for k, v in frames.items()} })",
                       construct="result frame source")]
    df = res[0]
    insts.append(R.ok(rid, "result-frame", file, frames[df].lineno, idiom=f"{df} = concat of {tgt_p}.notes"))
    # stores into the result frame
    cols = {}
    rows_dropped = []
    for n in walk_no_nested(fn.node):
        if isinstance(n, ast.Assign):
            t = n.targets[0]
            if isinstance(t, ast.Subscript) and isinstance(t.value, ast.Attribute) and t.value.attr in ("at", "loc", "iat", "iloc") and \
                    isinstance(t.value.value, ast.Name) and t.value.value.id == df and isinstance(t.slice, ast.Tuple):
                c = C.const_str(t.slice.elts[1])
                cols.setdefault(c or unparse(t.slice.elts[1]), []).append(n)
            elif isinstance(t, ast.Subscript) and isinstance(t.value, ast.Name) and t.value.id == df:
                cols.setdefault(C.const_str(t.slice) or unparse(t.slice), []).append(n)
            elif isinstance(t, ast.Name) and t.id == df and n is not frames[df]:
                # rebinding: only order/index changes are allowed (sort, reset_index)
                root = n.value
                names = []
                while isinstance(root, ast.Call) and isinstance(root.func, ast.Attribute):
                    names.insert(0, root.func.attr)
                    root = root.func.value
                if not (isinstance(root, ast.Name) and root.id == df and set(names) <= {"sort_values", "reset_index", "copy"}):
                    rows_dropped.append(n)
    bad = sorted(c for c in cols if c not in SOUND_STORE_COLS)
    if bad:
        n = cols[bad[0]][0]
        insts.append(R.viol(rid, "stored-columns", file, n.lineno,
                            f"hitsound_copy writes column(s) {bad} of the result notes; only {sorted(SOUND_STORE_COLS)} may change "
                            f"(time, column, length and kind of every target note stay)", construct=unparse(n)))
    else:
        insts.append(R.ok(rid, "stored-columns", file, frames[df].lineno, idiom=f"stores only into {sorted(cols)}"))
    if rows_dropped:
        insts.append(R.viol(rid, "rows-kept", file, rows_dropped[0].lineno,
                            "the result frame is filtered / rebuilt: target notes may be lost or duplicated", construct=unparse(rows_dropped[0])))
    else:
        insts.append(R.ok(rid, "rows-kept", file, frames[df].lineno, idiom="the frame is only re-ordered and re-indexed"))
    # positional write precondition: fresh positional index before label-based .at
    ri = [n for n in fn.node.body if isinstance(n, ast.Assign) and isinstance(n.targets[0], ast.Name) and n.targets[0].id == df and
          any(isinstance(c, ast.Call) and call_name(c) == "reset_index" and any(k.arg == "drop" and unparse(k.value) == "True" for k in c.keywords)
              for c in ast.walk(n.value))]
    insts.append(R.ok(rid, "unique-labels", file, ri[0].lineno, idiom="reset_index(drop=True): labels are unique positions, .at[label] hits one row")
                 if ri else
                 R.viol(rid, "unique-labels", file, frames[df].lineno,
                        "after concatenating hits and holds the row labels repeat (0..n-1 twice): .at[label, col] then writes a hit "
                        "and a hold at once; the frame must be re-indexed first", construct=f"{df} lacks reset_index(drop=True)"))
    # split back: holds = rows with a length, hits = rows without (and without the length column)
    tgt_asg = {}
    for n in walk_no_nested(fn.node):
        if isinstance(n, ast.Assign) and isinstance(n.targets[0], ast.Attribute) and n.targets[0].attr == "df" and \
                isinstance(n.targets[0].value, ast.Attribute):
            tgt_asg.setdefault(n.targets[0].value.attr, []).append(n)
    h = [a for a in tgt_asg.get("holds", [])]
    hi = [a for a in tgt_asg.get("hits", [])]

    def mask_polarity(e) -> Optional[bool]:
        """True: rows where length is NaN; False: rows where it is not"""
        if isinstance(e, ast.Subscript) and isinstance(e.value, ast.Name) and e.value.id == df:
            m = e.slice
            neg = False
            if isinstance(m, ast.UnaryOp) and isinstance(m.op, ast.Invert):
                neg, m = True, m.operand
            if isinstance(m, ast.Call) and call_name(m) in ("isnan", "isna", "isnull") and "length" in unparse(m):
                return not neg
            if isinstance(m, ast.Call) and call_name(m) in ("notna", "notnull") and "length" in unparse(m):
                return neg
        return None
    ok_h = any(mask_polarity(a.value) is False for a in h)
    ok_hit = False
    for a in hi:
        v = a.value
        if isinstance(v, ast.Call) and call_name(v) == "drop" and v.args and C.const_str(v.args[0]) == "length" and \
                mask_polarity(v.func.value) is True:
            ok_hit = True
    if ok_h and ok_hit:
        insts.append(R.ok(rid, "split", file, h[0].lineno, idiom="holds = rows with a length; hits = rows without, length column dropped"))
    else:
        insts.append(R.viol(rid, "split", file, (h or hi or [fn.node])[0].lineno,
                            "the result must be split back into holds (rows that have a length) and hits (rows that do not, "
                            "without the length column)", construct="; ".join(unparse(a) for a in h + hi)[:200]))
    return insts


def _named_loop(fn) -> Optional[ast.For]:
    for n in ast.walk(fn.node):
        if isinstance(n, ast.For) and isinstance(n.iter, ast.Name) and n.iter.id == "hitsound_files":
            return n
    return None


def rule_r3(ctx) -> List[R.Inst]:
    M = ctx.M
    rid = "C18.R3"
    fn = _fn(ctx)
    file = M.mods[fn.mod].rel
    lp = _named_loop(fn)
    if lp is None:
        return [R.undec(rid, "named-samples", file, fn.node.lineno, "loop over the named samples not found")]
    var = lp.target.id if isinstance(lp.target, ast.Name) else "?"
    insts = []
    # the named samples of EVERY source time must reach that loop: no early exit from the per-time body before it
    outer = None
    for n in walk_no_nested(fn.node):
        if isinstance(n, ast.For) and n is not lp and any(x is lp for x in ast.walk(n)):
            if outer is None or any(x is n for x in ast.walk(outer)) is False:
                outer = n if outer is None else outer
    chain = []
    cur = outer
    while cur is not None and cur is not lp:
        chain.append(cur)
        nxt = None
        for st in cur.body:
            if st is lp or any(x is lp for x in ast.walk(st)):
                nxt = st if isinstance(st, ast.For) else None
                break
        cur = nxt
    skipped = None
    for loop_ in chain:
        pre = []
        for st in loop_.body:
            if st is lp or any(x is lp for x in ast.walk(st)):
                break
            pre.append(st)
        for c, sts, ex in _branch_paths([p for p in pre if not isinstance(p, (ast.For, ast.While))]):
            if ex != "fall":
                skipped = (loop_, c, ex)
    # the slot cursor is initialised once per source time: all volume groups of that time share the target's notes
    inits = [n for n in ast.walk(fn.node) if isinstance(n, ast.Assign) and isinstance(n.targets[0], ast.Name) and
             n.targets[0].id == "slot" and isinstance(n.value, ast.Constant) and n.value.value == 0]
    if not inits:
        # iterator form of the cursor: slots = iter(<the target's notes at this time>), consumed with next(slots, None)
        its = [n for n in ast.walk(fn.node) if isinstance(n, ast.Assign) and isinstance(n.targets[0], ast.Name) and
               isinstance(n.value, ast.Call) and isinstance(n.value.func, ast.Name) and n.value.func.id == "iter"]
        inits = [n for n in its if any(isinstance(x, ast.Call) and isinstance(x.func, ast.Name) and x.func.id == "next" and x.args and
                                       isinstance(x.args[0], ast.Name) and x.args[0].id == n.targets[0].id for x in ast.walk(fn.node))]
    if outer is not None and len(inits) == 1:
        direct = any(st is inits[0] for st in outer.body)
        if direct:
            insts.append(R.ok(rid, "slot-cursor", file, inits[0].lineno, idiom="slot = 0 once per source time"))
        else:
            insts.append(R.viol(rid, "slot-cursor", file, inits[0].lineno,
                                "the slot cursor is reset inside an inner loop: the second volume group of a time starts again at the "
                                "first target note and overwrites what the first group placed (sounds the target could hold are lost)",
                                construct="slot = 0 inside the per-volume / per-sample loop"))
    else:
        insts.append(R.undec(rid, "slot-cursor", file, fn.node.lineno, f"{len(inits)} initialisations of the slot cursor found"))
    if skipped:
        loop_, c, ex = skipped
        ctxt = " and ".join(("" if pol else "not ") + f"({unparse(t)})" for t, pol in c) or "always"
        insts.append(R.viol(rid, "reach-named-loop", file, loop_.lineno,
                            f"when [{ctxt}] the per-time body exits early ({ex}) before the named samples of that time are handled: they "
                            f"reach neither a target note nor the event samples", construct=f"per-time body: {ctxt} -> {ex}"))
    else:
        insts.append(R.ok(rid, "reach-named-loop", file, (outer or lp).lineno, idiom="every source time reaches the named-sample loop"))
    for conds, stmts, ex in _branch_paths(lp.body):
        cond_txt = " and ".join(("" if pol else "not ") + f"({unparse(t)})" for t, pol in conds) or "always"
        key = f"path:{cond_txt[:60]}"
        sinks = []
        for s in stmts:
            for n in ast.walk(s):
                if isinstance(n, ast.Assign) and isinstance(n.targets[0], ast.Subscript) and isinstance(n.targets[0].slice, ast.Tuple) and \
                        C.const_str(n.targets[0].slice.elts[1]) == "hitsound_file" and unparse(n.value) == var:
                    sinks.append("slot")
                if isinstance(n, ast.Call) and call_name(n) == "OsuSample":
                    kw = ctor_kwargs(n) or {}
                    if unparse(kw.get("sample_file", ast.Constant(value=None))) == var and \
                            unparse(kw.get("offset", ast.Constant(value=None))) == "offset":
                        sinks.append("event-sample")
        if len(sinks) != 1:
            insts.append(R.viol(rid, key, file, lp.lineno,
                                f"on the path [{cond_txt}] a named sample reaches {len(sinks)} sinks (must be exactly one: a target "
                                f"note's hitsound_file or an event sample at the same time)", construct=f"{cond_txt}: sinks={sinks}"))
        elif ex in ("break", "return"):
            insts.append(R.viol(rid, key, file, lp.lineno,
                                f"after sending one overflowing sample to the events the loop exits ({ex}): the remaining named "
                                f"samples of this time are lost", construct=f"{cond_txt}: {sinks[0]} then {ex}"))
        else:
            insts.append(R.ok(rid, key, file, lp.lineno, idiom=f"{sinks[0]}, loop continues"))
    # event samples accumulate on the result (append result is re-assigned)
    apps = [n for n in ast.walk(lp) if isinstance(n, ast.Assign) and isinstance(n.value, ast.Call) and call_name(n.value) == "append"
            and unparse(n.targets[0]).endswith(".samples")]
    if apps and unparse(apps[0].targets[0]) == unparse(apps[0].value.func.value):
        insts.append(R.ok(rid, "event-samples-accumulate", file, apps[0].lineno, idiom="x.samples = x.samples.append(...)"))
    else:
        insts.append(R.viol(rid, "event-samples-accumulate", file, lp.lineno,
                            "TimedList.append returns a new list; the result must be assigned back or the event sample is dropped",
                            construct="; ".join(unparse(a) for a in apps) or "no re-assignment of samples"))
    return insts


def rule_r4(ctx) -> List[R.Inst]:
    M, E = ctx.M, ctx.E
    rid = "C18.R4"
    fn = _fn(ctx)
    file = M.mods[fn.mod].rel
    src_p, tgt_p = params_of(fn.node)[:2]
    frames = _frames(fn)
    res = [nm for nm, a in frames.items() if _notes_source(a) == tgt_p]
    if len(res) != 1:
        return [R.undec(rid, "kill", file, fn.node.lineno, "result frame not found")]
    df = res[0]
    body = fn.node.body
    i_frame = body.index(frames[df])
    loops = [i for i, s in enumerate(body) if isinstance(s, ast.For)]
    i_loop = loops[0] if loops else len(body)
    # (a) an effective reset before the frame is taken
    reset_idx = [i for i, s in enumerate(body) if isinstance(s, ast.Expr) and isinstance(s.value, ast.Call) and
                 call_name(s.value) == "reset_samples"]
    rs = E.summary(OSUMAP + ".reset_samples")
    resets_notes = any(f in ("hits", "holds", "objs", "*") or "df" in f for (p, f) in rs.mut)
    # which columns of which note lists the reset really writes: stores through the generated list setters
    # (confirmed as frame writes by the effect summary) on receivers that denote self.hits / self.holds
    reset_cols: Dict[str, set] = {}
    rfn = M.nfn(OSUMAP + ".reset_samples")
    if not resets_notes:
        # the effect summary reads the function as written; a table-driven `setattr(notes, name, value)` over a literal table is, on
        # the normal form, a store through the generated column setter of a note list (what such a setter does is C16.R11's business)
        slots0 = M.map_slots(OSUMAP)
        lv0 = {n.target.id: {x.attr for x in n.iter.elts if isinstance(x, ast.Attribute) and unparse(x.value) == "self"}
               for n in ast.walk(rfn.node) if isinstance(n, ast.For) and isinstance(n.target, ast.Name) and isinstance(n.iter, (ast.Tuple, ast.List))}
        for n in ast.walk(rfn.node):
            if isinstance(n, ast.Assign) and isinstance(n.targets[0], ast.Attribute):
                r0 = n.targets[0].value
                owners = lv0.get(r0.id, set()) if isinstance(r0, ast.Name) else ({r0.attr} if isinstance(r0, ast.Attribute) and unparse(r0.value) == "self" else set())
                if any(o in slots0 and n.targets[0].attr in M.list_columns(slots0[o]) and M.method(slots0[o], n.targets[0].attr) is None for o in owners):
                    resets_notes = True
    real_sites = {st.text for sites in rs.mut.values() for st in sites if "setter" in (st.via or "")}
    real_attrs = set()
    for t in real_sites:
        try:
            a = ast.parse(t).body[0]
            if isinstance(a, ast.Assign) and isinstance(a.targets[0], ast.Attribute):
                real_attrs.add(a.targets[0].attr)
        except SyntaxError:
            pass
    last_bound = {}
    slots = M.map_slots(OSUMAP)

    loopvars: Dict[str, set] = {}
    for n in walk_no_nested(rfn.node):
        if isinstance(n, ast.For) and isinstance(n.target, ast.Name) and isinstance(n.iter, (ast.Tuple, ast.List)):
            loopvars[n.target.id] = {x.attr for x in n.iter.elts if isinstance(x, ast.Attribute) and unparse(x.value) == "self"}

    def generated_store(t: ast.Attribute) -> bool:
        """`self.<slot>.<col> = ..` (or `<v>.<col> = ..` with v ranging over (self.<slot>, …)) on the normal form: a store through the
        generated column setter of the slot's list class"""
        r = t.value
        owners = {r.attr} if isinstance(r, ast.Attribute) and unparse(r.value) == "self" else (loopvars.get(r.id, set()) if isinstance(r, ast.Name) else set())
        return bool(owners) and resets_notes and all(o in slots and t.attr in M.list_columns(slots[o]) and M.method(slots[o], t.attr) is None for o in owners)
    loops_of = {n.target.id: n for n in walk_no_nested(rfn.node) if isinstance(n, ast.For) and isinstance(n.target, ast.Name)}
    last_of = {n.target.id: {n.iter.elts[-1].attr} for n in loops_of.values() if isinstance(n.iter, (ast.Tuple, ast.List)) and n.iter.elts
               and isinstance(n.iter.elts[-1], ast.Attribute)}
    for n in walk_no_nested(rfn.node):
        if isinstance(n, ast.Assign) and isinstance(n.targets[0], ast.Name) and isinstance(n.value, ast.Attribute) and \
                unparse(n.value.value) == "self":
            last_bound[n.targets[0].id] = {n.value.attr}      # `notes = self.holds` (also: the value an unrolled loop leaves)
        if isinstance(n, ast.Assign) and isinstance(n.targets[0], ast.Attribute) and \
                (unparse(n) in real_sites or n.targets[0].attr in real_attrs or generated_store(n.targets[0])):
            recv = n.targets[0].value
            lists = set()
            if isinstance(recv, ast.Name) and recv.id in last_bound and recv.id not in loopvars:
                lists = last_bound[recv.id]
            elif isinstance(recv, ast.Name) and recv.id in loopvars:
                inside = any(x is n for x in ast.walk(loops_of[recv.id])) if recv.id in loops_of else False
                # after the loop the variable still names the LAST list only
                lists = loopvars[recv.id] if inside else last_of.get(recv.id, set())
            elif isinstance(recv, ast.Attribute) and unparse(recv.value) == "self":
                lists = {recv.attr}
            reset_cols.setdefault(n.targets[0].attr, set()).update(lists)
    reset_before_frame = bool(reset_idx) and resets_notes and reset_idx[0] < i_frame
    insts = []
    # the reset is guarded by flags: bind the call's arguments (and the defaults of the omitted ones) and require both
    # guarded parts — the notes' sound columns and the event samples — to run
    if reset_idx:
        call = body[reset_idx[0]].value
        ps = [a for a in rfn.node.args.args if a.arg != "self"]
        dflt = dict(zip([a.arg for a in ps][::-1], rfn.node.args.defaults[::-1]))
        bound = {}
        for i, a in enumerate(call.args):
            if i < len(ps):
                bound[ps[i].arg] = a
        for k in call.keywords:
            if k.arg:
                bound[k.arg] = k.value
        for a in ps:
            bound.setdefault(a.arg, dflt.get(a.arg))
        for st in rfn.node.body:
            if isinstance(st, ast.If) and isinstance(st.test, ast.Name) and st.test.id in bound:
                v = bound[st.test.id]
                does = "the event samples" if any(isinstance(x, ast.Attribute) and x.attr == "samples" for x in ast.walk(st)) else "the notes' sound columns"
                key = f"reset:{st.test.id}"
                if isinstance(v, ast.Constant) and bool(v.value) is True:
                    insts.append(R.ok(rid, key, file, call.lineno, idiom=f"{st.test.id} = {v.value!r} at the call: {does} are reset"))
                elif isinstance(v, ast.Constant):
                    insts.append(R.viol(rid, key, M.mods[rfn.mod].rel, st.lineno,
                                        f"hitsound_copy calls reset_samples({unparse(call)[len('osu_tgt.reset_samples('):-1]}) and relies on it to clear "
                                        f"{does}, but '{st.test.id}' is {v.value!r} there (its default): {does} of the target survive in the result — "
                                        f"sounds the source never had", construct=f"reset_samples: {st.test.id}={v.value!r} at the call in hitsound_copy"))
                else:
                    insts.append(R.undec(rid, key, file, call.lineno, f"value of '{st.test.id}' at the call is not a constant"))
    for c in SOUND_COLS:
        key = f"kill:{c}"
        kills = []
        for s in body[i_frame + 1:i_loop]:
            if isinstance(s, ast.Assign) and isinstance(s.targets[0], ast.Subscript) and isinstance(s.targets[0].value, ast.Name) and \
                    s.targets[0].value.id == df:
                cs = s.targets[0].slice
                names = [C.const_str(cs)] if C.const_str(cs) else ([C.const_str(x) for x in cs.elts] if isinstance(cs, ast.List) else [])
                if c in names:
                    kills.append(s)
        effective_reset = reset_before_frame and {"hits", "holds"} <= reset_cols.get(c, set())
        if kills or effective_reset:
            insts.append(R.ok(rid, key, file, (kills[0] if kills else body[reset_idx[0]]).lineno,
                              idiom="overwritten before slotting" if kills else "reset before the frame is taken"))
        else:
            why = (f"reset_samples() clears '{c}' only on {sorted(reset_cols.get(c, set())) or 'no list'}"
                   if reset_before_frame else "reset_samples() only re-assigns self.samples: iterating a list yields fresh items, so resetting them never "
                   "reaches the note frames" if reset_idx and not resets_notes else
                   "the frame is taken before the reset" if reset_idx else "no reset at all")
            # stores into frames that the attribution above does not follow (a frame reached through a local, a computed column)
            loose = [n for n in walk_no_nested(rfn.node) if isinstance(n, ast.Assign) and isinstance(n.targets[0], ast.Subscript) and
                     isinstance(n.targets[0].value, ast.Name) and n.targets[0].value.id != "self"]
            if reset_before_frame and loose:
                insts.append(R.undec(rid, key, file, frames[df].lineno,
                                     f"reset_samples() writes frame columns through a local ({unparse(loose[0])[:60]}): which lists and "
                                     f"columns that reaches is not followed"))
                continue
            insts.append(R.viol(rid, key, file, frames[df].lineno,
                                f"column '{c}' of the result is never cleared before the source's sounds are slotted in ({why}): a "
                                f"sound the target had and the source lacks survives in the result",
                                construct=f"{c} of the result frame is never killed"))
    return insts


def _dict_lookup(fn, src_loop, t) -> Optional[List[R.Inst]]:
    """third form of the lookup: a dict from time to the row indices at that time, filled in one pass over the target's times
    (`for ix, k in enumerate(times): D[k].append(ix)` / `D.setdefault(k, []).append(ix)`) and read as `D.get(t, [])` / `D[t]`.
    Every row must be ACCUMULATED under its own time: `D[k] = [ix]` keeps only the last row of each time (a chord gets its sounds
    on one note only, and which one depends on the row order)."""
    rid = "C18.R6"
    reads = []
    for n in ast.walk(src_loop):
        if isinstance(n, ast.Call) and isinstance(n.func, ast.Attribute) and n.func.attr == "get" and isinstance(n.func.value, ast.Name) and n.args and \
                unparse(n.args[0]) == t:
            reads.append((n.func.value.id, n))
        elif isinstance(n, ast.Subscript) and isinstance(n.value, ast.Name) and isinstance(n.ctx, ast.Load) and unparse(n.slice) == t:
            reads.append((n.value.id, n))
    reads = [(d, n) for d, n in reads if any(isinstance(x, ast.Subscript) and isinstance(x.value, ast.Name) and x.value.id == d and
                                             not any(y is x for y in ast.walk(src_loop)) for x in ast.walk(fn.node)) or
             any(isinstance(x, ast.Call) and isinstance(x.func, ast.Attribute) and x.func.attr == "setdefault" and unparse(x.func.value) == d
                 for x in ast.walk(fn.node))]
    if not reads:
        return None
    d, rd = reads[0]
    out: List[R.Inst] = []
    fills = []        # (loop, key expr, kind, value expr, node)
    for lp in ast.walk(fn.node):
        if not isinstance(lp, ast.For) or lp is src_loop or any(x is lp for x in ast.walk(src_loop)):
            continue
        for st in ast.walk(lp):
            if isinstance(st, ast.Expr) and isinstance(st.value, ast.Call) and call_name(st.value) == "append" and len(st.value.args) == 1:
                recv = st.value.func.value
                if isinstance(recv, ast.Subscript) and unparse(recv.value) == d:
                    fills.append((lp, recv.slice, "append", st.value.args[0], st))
                elif isinstance(recv, ast.Call) and call_name(recv) == "setdefault" and unparse(recv.func.value) == d and recv.args:
                    fills.append((lp, recv.args[0], "append", st.value.args[0], st))
            elif isinstance(st, ast.Assign) and len(st.targets) == 1 and isinstance(st.targets[0], ast.Subscript) and unparse(st.targets[0].value) == d:
                acc = any(isinstance(x, ast.Name) and x.id == d for x in ast.walk(st.value))
                fills.append((lp, st.targets[0].slice, "accumulate" if acc else "overwrite", st.value, st))
    if not fills:
        return [R.undec(rid, "slot-lookup", "", rd.lineno, f"how the dict '{d}' of target rows per time is filled was not found")]
    over = [f for f in fills if f[2] == "overwrite"]
    if over:
        return [R.viol(rid, "slot-lookup", "", over[0][4].lineno,
                       f"'{unparse(over[0][4])}' replaces the rows recorded for a time instead of adding to them: of several target notes at one "
                       f"time only the last row remains a slot, so a chord receives the sounds on one note only — which one depends on the "
                       f"row order", construct=f"{d}[time] overwritten: {unparse(over[0][4])[:80]}")]
    lp, key, _k, val, node = fills[0]
    # the pass runs over the target's times, the key is the row's time and the value its index
    en = lp.iter
    ok_ = isinstance(en, ast.Call) and call_name(en) == "enumerate" and len(en.args) == 1 and not en.keywords and "offset" in unparse(en.args[0]) and \
        isinstance(lp.target, ast.Tuple) and len(lp.target.elts) == 2 and unparse(lp.target.elts[1]) == unparse(key) and \
        unparse(lp.target.elts[0]) == unparse(val)
    if ok_:
        return [R.ok(rid, "slot-lookup", "", rd.lineno, idiom=f"{d}[time] accumulates the row indices of the target at that time; read with the source's time")]
    return [R.undec(rid, "slot-lookup", "", node.lineno, f"the pass filling '{d}' is not `for ix, time in enumerate(<target times>)` storing ix under time")]


def _slot_lookup(fn) -> List[R.Inst]:
    """the target notes that may receive the sounds of time t are the rows whose time EQUALS t: a mask `K == t`, or the run
    [searchsorted(K, t, "left"), searchsorted(K, t, "right")) of the sorted times — both ends searched with t itself"""
    rid = "C18.R6"
    file = None
    out: List[R.Inst] = []
    src_loop = next((n for n in ast.walk(fn.node) if isinstance(n, ast.For) and unparse(n.iter) == "df_src" and isinstance(n.target, ast.Tuple)), None)
    if src_loop is None or not isinstance(src_loop.target.elts[0], ast.Name):
        return out
    t = src_loop.target.elts[0].id
    ss = [n for n in ast.walk(src_loop) if isinstance(n, ast.Call) and call_name(n) in ("searchsorted", "bisect_left", "bisect_right", "bisect")]
    masks = [n for n in ast.walk(src_loop) if isinstance(n, ast.Compare) and len(n.ops) == 1 and
             any(isinstance(x, ast.Name) and x.id == t for x in (n.left, n.comparators[0])) and
             not any(isinstance(x, ast.Constant) for x in (n.left, n.comparators[0]))]
    file_rel = None
    if ss:
        def side_of(c):
            if call_name(c) == "bisect_left":
                return "left"
            if call_name(c) in ("bisect_right", "bisect"):
                return "right"
            k = next((k.value for k in c.keywords if k.arg == "side"), None)
            return k.value if isinstance(k, ast.Constant) else ("left" if k is None else None)
        keys = []
        for c in ss:
            args = c.args[1:] if isinstance(c.func, ast.Attribute) and isinstance(c.func.value, ast.Name) and c.func.value.id in ("np", "numpy", "bisect") or isinstance(c.func, ast.Name) else c.args
            keys.append((unparse(args[0]) if args else "?", side_of(c), c))
        sides = sorted(s_ for _, s_, _ in keys if s_)
        bad = [k for k, _, _ in keys if k != t]
        if bad:
            out.append(R.viol(rid, "slot-lookup", "", ss[0].lineno,
                              f"the run of target notes for time '{t}' is searched with '{bad[0]}': notes whose time is not exactly '{t}' "
                              f"(fractional times) receive the sounds of a time the source has nothing at", construct=f"searchsorted key {bad[0]}"))
        elif len(keys) == 2 and sides == ["left", "right"]:
            out.append(R.ok(rid, "slot-lookup", "", ss[0].lineno, idiom=f"[searchsorted(times, {t}, left), searchsorted(times, {t}, right)): exactly the rows at {t}"))
        else:
            out.append(R.undec(rid, "slot-lookup", "", ss[0].lineno, f"search of the target rows at '{t}' not recognised: {[(k, s_) for k, s_, _ in keys]}"))
    elif _dict_lookup(fn, src_loop, t) is not None:
        out.extend(_dict_lookup(fn, src_loop, t))
    elif masks:
        bad = [m for m in masks if not isinstance(m.ops[0], ast.Eq)]
        if bad:
            out.append(R.viol(rid, "slot-lookup", "", bad[0].lineno,
                              f"target notes are selected by '{unparse(bad[0])}', not by equality with the source's time", construct=unparse(bad[0])))
        else:
            out.append(R.ok(rid, "slot-lookup", "", masks[0].lineno, idiom=f"rows whose time == {t}"))
    return out


def rule_r6(ctx) -> List[R.Inst]:
    """same-time matching: source and target times are compared as they are (no one-sided rounding / casting)"""
    M = ctx.M
    rid = "C18.R6"
    fn = _fn(ctx)
    file = M.mods[fn.mod].rel
    src_p, tgt_p = params_of(fn.node)[:2]
    frames = _frames(fn)
    side = {nm: ("source" if _notes_source(a) == src_p else "target" if _notes_source(a) == tgt_p else None) for nm, a in frames.items()}
    xf: Dict[str, List[Tuple[str, ast.AST]]] = {"source": [], "target": []}
    for n in walk_no_nested(fn.node):
        if not isinstance(n, ast.Assign):
            continue
        t = n.targets[0]
        nm = t.id if isinstance(t, ast.Name) else (t.value.id if isinstance(t, ast.Subscript) and isinstance(t.value, ast.Name) else None)
        if nm not in side or side[nm] is None:
            continue
        v = n.value
        # frame-level: df.astype({'offset': ...}) / df.round(...) ; column-level: df['offset'] = <anything but itself>
        for c in ast.walk(v):
            if isinstance(c, ast.Call) and call_name(c) in ("astype", "round") and isinstance(t, ast.Name):
                txt = unparse(c)
                if "offset" in txt or (call_name(c) == "round" and not c.args) or (call_name(c) == "astype" and c.args and
                                                                                   not isinstance(c.args[0], (ast.Dict, ast.Call))):
                    xf[side[nm]].append((call_name(c), n))
        if isinstance(t, ast.Subscript) and C.const_str(t.slice) == "offset":
            xf[side[nm]].append(("assign", n))
    a, b = [k for k, _ in xf["source"]], [k for k, _ in xf["target"]]
    look = _slot_lookup(fn)
    for i_ in look:
        i_.file = file
    if a == b:
        return [R.ok(rid, "same-time-key", file, fn.node.lineno,
                     idiom="offsets of both charts are compared as stored" if not a else f"the same transforms {a} on both sides")] + look
    which = "source" if len(a) > len(b) else "target"
    node = xf[which][0][1]
    return [R.viol(rid, "same-time-key", file, node.lineno,
                   f"the {which} offsets are transformed ({unparse(node)[:80]}) but the other chart's are not: sounds are matched to "
                   f"notes by exact equality of time, so charts with fractional times (rate-changed, converted) no longer match at all",
                   construct=f"one-sided offset transform on the {which}: {unparse(node)[:100]}")]


def rule_r5(ctx) -> List[R.Inst]:
    """integer bit tests on sound columns vs. the dtype those columns can have after a stack write-back"""
    M = ctx.M
    rid = "C18.R5"
    fn = _fn(ctx)
    file = M.mods[fn.mod].rel
    # (fact 1) declared-int columns that some list of an osu chart lacks: pd.concat fills them with NaN -> float64
    slots = M.map_slots(OSUMAP)
    colsets = {s: set(M.list_columns(lc)) for s, lc in slots.items()}
    note_item = M.item_class_of_list(slots["hits"])
    fields = M.item_fields(note_item)
    prone = sorted(c for c, (dt, _) in fields.items() if str(dt).startswith("int") and any(c not in cs for cs in colsets.values()))
    # (fact 2) does the stack write-back restore the lists' dtypes?
    upd = M.fn("reamber.base.Map.Map.Stacker._update")
    restores = any(isinstance(n, ast.Call) and call_name(n) == "astype" for n in ast.walk(upd.node))
    insts = []
    casted = set()
    for n in walk_no_nested(fn.node):
        if isinstance(n, ast.Assign):
            t = unparse(n.targets[0]).replace('"', "'")
            v = unparse(n.value).replace('"', "'")
            for c in prone:
                if t.endswith(f"['{c}']") and f"['{c}']" in v and ".astype(int" in v.replace(" ", ""):
                    casted.add(c)
                if isinstance(n.value, ast.Call) and call_name(n.value) == "astype" and f"'{c}'" in v:
                    casted.add(c)
    k = 0
    for n in walk_no_nested(fn.node):
        if isinstance(n, ast.BinOp) and isinstance(n.op, (ast.BitAnd, ast.BitOr, ast.RShift, ast.LShift)):
            for side in (n.left, n.right):
                # the column through a local bound once (bits = F["c"].to_numpy()) and representation changes that keep the dtype
                for _ in range(3):
                    if isinstance(side, ast.Name):
                        ds_ = [x.value for x in walk_no_nested(fn.node) if isinstance(x, ast.Assign) and len(x.targets) == 1 and
                               isinstance(x.targets[0], ast.Name) and x.targets[0].id == side.id]
                        if len(ds_) != 1:
                            break
                        side = ds_[0]
                    elif isinstance(side, ast.Call) and isinstance(side.func, ast.Attribute) and side.func.attr in ("to_numpy", "copy") and not side.args:
                        side = side.func.value
                    elif isinstance(side, ast.Attribute) and side.attr in ("values", "array"):
                        side = side.value
                    else:
                        break
                if isinstance(side, ast.Subscript) and isinstance(side.slice, ast.Constant) and side.slice.value in prone:
                    c = side.slice.value
                    key = f"bit-test:{c}@{k}"
                    k += 1
                    if restores or c in casted:
                        insts.append(R.ok(rid, key, file, n.lineno,
                                          idiom="column cast to int before the bit test" if c in casted else "write-back restores dtypes"))
                    else:
                        insts.append(R.viol(rid, key, file, n.lineno,
                                            f"'{unparse(n)}' needs an integer column, but '{c}' is float64 in any chart that went through a "
                                            f"stack write-back (rate, stack assignment): the stacked frame is a concat in which lists without "
                                            f"'{c}' contribute NaN, and Stacker._update writes the upcast column back. hitsound_copy of a "
                                            f"rate-changed chart raises TypeError", construct=f"bit test on {c} without int cast"))
                elif isinstance(side, ast.Call) and call_name(side) == "astype" and any(
                        isinstance(x, ast.Constant) and x.value in prone for x in ast.walk(side)):
                    c = [x.value for x in ast.walk(side) if isinstance(x, ast.Constant) and x.value in prone][0]
                    insts.append(R.ok(rid, f"bit-test:{c}@{k}", file, n.lineno, idiom="astype(int) at the bit test"))
                    k += 1
    if not insts:
        insts.append(R.undec(rid, "bit-tests", file, fn.node.lineno, "no bit test on a sound column found"))
    return insts


def rule_r7(ctx) -> List[R.Inst]:
    """sound-kind consistency, split -> count -> recombine: every sound bit B of the source (clap 2, finish 4, whistle 8) is split
    into its own column, counted per (time, volume) and written back bit by bit.  For each kind the three places must agree:
    (split) the column is computed from `hitsound_set & B` with ITS constant; (unit) the values summed are B per sound and the sum
    is divided by the same B, or they are 1 per sound and the sum is taken as it is — so that the count is the number of sounds;
    (recombine) the count that is decremented / compared guards the addition of the SAME constant B.  A swapped pair, the
    neighbour's constant, or a count that is B times too large turns claps into finishes or invents sounds."""
    M = ctx.M
    rid = "C18.R7"
    fn = _fn(ctx)
    file = M.mods[fn.mod].rel
    insts: List[R.Inst] = []

    def once(name):
        ds = [x.value for x in ast.walk(fn.node) if isinstance(x, ast.Assign) and len(x.targets) == 1 and isinstance(x.targets[0], ast.Name) and
              x.targets[0].id == name]
        return ds[0] if len(ds) == 1 else None

    def cval(e, depth=0) -> Optional[int]:
        if isinstance(e, ast.Constant) and isinstance(e.value, int) and not isinstance(e.value, bool):
            return e.value
        if isinstance(e, ast.Name) and depth < 3:
            d = once(e.id)
            if d is not None:
                return cval(d, depth + 1)
            try:
                v = M.lit(fn.mod, e)
                return v if isinstance(v, int) and not isinstance(v, bool) else None
            except Exception:
                return None
        return None

    def strip_repr(e):
        while True:
            if isinstance(e, ast.Call) and isinstance(e.func, ast.Attribute) and e.func.attr in ("astype", "to_numpy", "copy") :
                if e.func.attr == "astype" and e.args and "bool" in unparse(e.args[0]):
                    return e
                e = e.func.value
            else:
                return e
    # ---- (split) columns computed from <bits> & B
    split: Dict[str, Tuple[int, Optional[int], ast.AST]] = {}
    for n in ast.walk(fn.node):
        if not (isinstance(n, ast.Assign) and len(n.targets) == 1 and isinstance(n.targets[0], ast.Subscript) and C.const_str(n.targets[0].slice)):
            continue
        ands = [x for x in ast.walk(n.value) if isinstance(x, ast.BinOp) and isinstance(x.op, ast.BitAnd) and
                (cval(x.left) is not None or cval(x.right) is not None)]
        if not ands:
            continue
        b = cval(ands[0].right) if cval(ands[0].right) is not None else cval(ands[0].left)
        if b is None or b <= 0 or b & (b - 1):
            continue
        e = strip_repr(n.value)
        unit: Optional[int] = None
        if isinstance(e, ast.Call) and call_name(e) == "where" and len(e.args) == 3:
            a1, a0 = cval(e.args[1]), cval(e.args[2])
            unit = a1 if a1 is not None and a0 == 0 else None
        elif isinstance(e, ast.Compare) or (isinstance(e, ast.Call) and call_name(e) == "astype"):
            unit = 1
        elif isinstance(e, ast.BinOp) and isinstance(e.op, ast.BitAnd):
            unit = b
        elif isinstance(e, ast.BinOp) and isinstance(e.op, (ast.FloorDiv, ast.Div)) and cval(e.right) == b and isinstance(strip_repr(e.left), ast.BinOp):
            unit = 1
        split[C.const_str(n.targets[0].slice)] = (b, unit, n)
    if len(split) < 2:
        return [R.undec(rid, "split", file, fn.node.lineno, f"split of the sound bits into columns not found ({sorted(split)})")]
    # ---- (count) K <- column, with what divisor
    counts: Dict[str, Tuple[str, int, ast.AST]] = {}     # count variable -> (column, divisor, node)
    # positional row unpacking: for a, b, c in V.itertuples(index=False): the columns of V in order
    for lp in ast.walk(fn.node):
        if isinstance(lp, ast.For) and isinstance(lp.iter, ast.Call) and call_name(lp.iter) == "itertuples" and isinstance(lp.target, ast.Tuple):
            no_index = any(k.arg == "index" and isinstance(k.value, ast.Constant) and k.value.value is False for k in lp.iter.keywords)
            src = lp.iter.func.value
            cols = None
            for _ in range(3):
                if isinstance(src, ast.Name):
                    # the last selection / aggregation bound to the name before the loop
                    ds = sorted((x for x in ast.walk(fn.node) if isinstance(x, ast.Assign) and len(x.targets) == 1 and isinstance(x.targets[0], ast.Name) and
                                 x.targets[0].id == src.id and x.lineno <= lp.lineno), key=lambda x: x.lineno)
                    if not ds:
                        break
                    src = ds[-1].value
                    continue
                if isinstance(src, ast.Subscript) and isinstance(src.slice, ast.List) and all(C.const_str(x) for x in src.slice.elts):
                    cols = [C.const_str(x) for x in src.slice.elts]
                elif isinstance(src, ast.Call) and call_name(src) == "agg" and src.args and isinstance(src.args[0], ast.Dict):
                    g = src.func.value
                    keycol = C.const_str(g.args[0]) if isinstance(g, ast.Call) and call_name(g) == "groupby" and g.args else None
                    as_ix = isinstance(g, ast.Call) and any(k.arg == "as_index" and isinstance(k.value, ast.Constant) and k.value.value is False for k in g.keywords)
                    if keycol and as_ix:
                        cols = [keycol] + [C.const_str(k) for k in src.args[0].keys]
                break
            if cols and no_index and len(cols) == len(lp.target.elts):
                for t, c in zip(lp.target.elts, cols):
                    if isinstance(t, ast.Name) and c in split:
                        counts[t.id] = (c, 1, lp)
    for n in ast.walk(fn.node):
        if isinstance(n, ast.Assign) and len(n.targets) == 1 and isinstance(n.targets[0], ast.Name):
            v = n.value
            while isinstance(v, ast.Call) and isinstance(v.func, ast.Name) and v.func.id in ("int", "round") and len(v.args) == 1:
                v = v.args[0]
            div = 1
            if isinstance(v, ast.BinOp) and isinstance(v.op, (ast.Div, ast.FloorDiv)) and cval(v.right) is not None:
                div, v = cval(v.right), v.left
            col = None
            if isinstance(v, ast.Subscript) and C.const_str(v.slice) in split:
                col = C.const_str(v.slice)
            elif isinstance(v, ast.Attribute) and v.attr in split:
                col = v.attr
            elif isinstance(v, ast.Name) and v.id in counts and v.id == n.targets[0].id:
                col = counts[v.id][0]           # re-binding of a positional variable: claps = int(claps / B)
            if col is not None:
                counts[n.targets[0].id] = (col, div, n)
    # ---- (recombine) the constant added under a count
    recomb: Dict[str, List[Tuple[int, ast.AST, Optional[str]]]] = {}
    for n in ast.walk(fn.node):
        if isinstance(n, ast.If) and isinstance(n.test, ast.Name) and n.test.id in counts:
            dec = any(isinstance(x, ast.AugAssign) and isinstance(x.op, ast.Sub) and isinstance(x.target, ast.Name) and x.target.id == n.test.id for x in n.body)
            adds = [cval(x.value) for x in n.body if isinstance(x, ast.AugAssign) and isinstance(x.op, (ast.Add, ast.BitOr)) and cval(x.value) is not None]
            if dec and len(adds) == 1:
                recomb.setdefault(n.test.id, []).append((adds[0], n, None))
        if isinstance(n, ast.IfExp) and isinstance(n.test, ast.Compare) and len(n.test.ops) == 1 and cval(n.body) is not None and cval(n.orelse) == 0:
            l, r_, op = n.test.left, n.test.comparators[0], n.test.ops[0]
            if isinstance(op, ast.Lt) and isinstance(r_, ast.Name) and r_.id in counts:
                recomb.setdefault(r_.id, []).append((cval(n.body), n, unparse(l)))
            elif isinstance(op, ast.Gt) and isinstance(l, ast.Name) and l.id in counts:
                recomb.setdefault(l.id, []).append((cval(n.body), n, unparse(r_)))
    by_col = {}
    for k, (col, div, node) in counts.items():
        by_col.setdefault(col, []).append((k, div, node))
    for col, (b, unit, node) in sorted(split.items()):
        key = f"sound:{col}"
        ks = by_col.get(col, [])
        if unit is None:
            insts.append(R.undec(rid, key, file, node.lineno, f"value of the split column not recognised: {unparse(node.value)[:80]}"))
            continue
        if not ks:
            twice = sorted(c_ for c_, v_ in by_col.items() if len(v_) > 1)
            if twice:
                insts.append(R.viol(rid, key, file, node.lineno,
                                    f"the sounds of '{col}' are never counted ('{twice[0]}' is counted twice instead): they are dropped",
                                    construct=f"{col} not counted; {twice[0]} counted by {sorted(k_ for k_, _, _ in by_col[twice[0]])}"))
            else:
                insts.append(R.undec(rid, key, file, node.lineno, f"count of '{col}' per volume group not found"))
            continue
        probs = []
        rc_: list = []
        undec_k = None
        for k, div, knode in ks:
            if unit != div:
                probs.append(f"each sound contributes {unit} to the sum of '{col}' and the sum is divided by {div}: the count '{k}' is "
                             f"{'%g' % (unit / div)} per sound, so {'sounds are invented' if unit > div else 'sounds are lost'} whenever the target has room")
            rk = recomb.get(k, [])
            if not rk:
                undec_k = (k, knode)
            rc_ += rk
            for const, rnode, _ in rk:
                if const != b:
                    probs.append(f"'{col}' is the bit {b} of the source, but a sound counted by '{k}' is written back as {const}")
        k, div, knode = ks[0]
        if undec_k is not None and not probs:
            insts.append(R.undec(rid, key, file, undec_k[1].lineno, f"where the count '{undec_k[0]}' is turned back into a bit was not found"))
            continue
        if probs:
            insts.append(R.viol(rid, key, file, (rc_[0][1] if any(c_ != b for c_, _, _ in rc_) else knode).lineno, "; ".join(probs),
                                construct=f"{col}: bit {b}, unit {unit}, divisor {div}, written back as {sorted({c_ for c_, _, _ in rc_})}"))
        else:
            insts.append(R.ok(rid, key, file, node.lineno, idiom=f"bit {b}: {unit} per sound / {div}, counted by '{k}', written back as {b}"))
    # closed form: every kind is tested against the SAME running index
    idx = {x for v in recomb.values() for _, _, x in v if x is not None}
    if len(idx) > 1:
        n0 = next(rn for v in recomb.values() for _, rn, x in v if x is not None)
        insts.append(R.viol(rid, "sound:index", file, n0.lineno,
                            f"the kinds of one slot are decided against different indices {sorted(idx)}: the n-th note of a volume group must get "
                            f"the n-th clap, finish and whistle of that group", construct=f"indices {sorted(idx)}"))
    elif len(idx) == 1:
        # ... and that index counts the sounds of THIS volume group from 0: the variable of a `for n in range(..)` around the test.
        # A counter that lives across the groups of one time (the slot cursor) is not it: from the second volume on it is already
        # past the counts, and the sounds of that volume are dropped although notes are free
        ix = next(iter(idx))
        n0 = next(rn for v in recomb.values() for _, rn, x in v if x is not None)
        parents = {}
        for a_ in ast.walk(fn.node):
            for ch in ast.iter_child_nodes(a_):
                parents[id(ch)] = a_
        anc, cur = [], n0
        while id(cur) in parents:
            cur = parents[id(cur)]
            if isinstance(cur, ast.For):
                anc.append(cur)
        own = [l_ for l_ in anc if isinstance(l_.target, ast.Name) and l_.target.id == ix and isinstance(l_.iter, ast.Call) and call_name(l_.iter) == "range"]
        # ... or the counter of an enumerate(..) from 0 around the test
        own += [l_ for l_ in anc if isinstance(l_.target, ast.Tuple) and l_.target.elts and isinstance(l_.target.elts[0], ast.Name) and
                l_.target.elts[0].id == ix and isinstance(l_.iter, ast.Call) and call_name(l_.iter) == "enumerate" and len(l_.iter.args) == 1 and
                all(k.arg == "start" and unparse(k.value) == "0" for k in l_.iter.keywords)]
        bumped = [x for l_ in anc[:1] for x in ast.walk(l_) if isinstance(x, ast.AugAssign) and unparse(x.target) == ix]
        if own and not bumped:
            insts.append(R.ok(rid, "sound:index", file, fn.node.lineno, idiom=f"all kinds are tested against the one index '{ix}', counted from 0 per volume group"))
        elif not own and isinstance(ast.parse(ix, mode="eval").body, ast.Name) and anc:
            inits = [x for x in ast.walk(fn.node) if isinstance(x, ast.Assign) and len(x.targets) == 1 and unparse(x.targets[0]) == ix]
            inner = anc[0]
            # the loop over the volume groups: the innermost enclosing loop that is not a range loop
            grp = next((l_ for l_ in anc if not (isinstance(l_.iter, ast.Call) and call_name(l_.iter) == "range")), None)
            outside = grp is not None and inits and not any(any(y is i_ for y in ast.walk(grp)) for i_ in inits)
            if outside:
                insts.append(R.viol(rid, "sound:index", file, n0.lineno,
                                    f"the kinds of a slot are decided against '{ix}', which is set before the loop over the volume groups and "
                                    f"keeps counting across them: the n-th note of a volume group must get the n-th clap / finish / whistle of "
                                    f"THAT group, so with two volumes at one time the sounds of the second are dropped",
                                    construct=f"index '{ix}' initialised outside the volume-group loop"))
            else:
                insts.append(R.undec(rid, "sound:index", file, n0.lineno, f"what the index '{ix}' counts was not established"))
        else:
            insts.append(R.undec(rid, "sound:index", file, n0.lineno, f"what the index '{ix}' counts was not established"))
    return insts


def rule_r8(ctx) -> List[R.Inst]:
    """slot cursor discipline: when the notes of one batch are taken as a SLICE of the time's slot list (`slots[a:b]`, walked by a
    loop) and the cursor is then advanced by `cursor += n`, the slice must be exactly the n slots from the cursor: a = cursor and
    b - a = n.  `slots[cursor:n]` is that only for the first batch of a time; from the second volume group on it is short or empty
    while the cursor still advances — sounds are dropped although notes are free."""
    M = ctx.M
    rid = "C18.R8"
    fn = _fn(ctx)
    file = M.mods[fn.mod].rel
    insts = []
    # the pinned tree takes one slot per step (nothing to check): the rule carries a positive and a negative example of its own
    ex = ast.parse("def bad(S, cur, n):\n    for i, s in enumerate(S[cur:n]):\n        use(s)\n    cur += n\n"
                   "def good(S, cur, n):\n    for i, s in enumerate(S[cur:cur + n]):\n        use(s)\n    cur += n\n")
    got = [[st for st, _k, _m in _slot_slices(f_)] for f_ in ex.body]
    if got != [["viol"], ["ok"]]:
        return [R.undec(rid, "slot-slice:self-example", file, 0, f"the rule no longer tells its own examples apart: {got}")]
    insts.append(R.ok(rid, "slot-slice:self-example", file, 0, idiom="S[cur:n] followed by cur += n recognised, S[cur:cur + n] accepted"))
    for st_, key, msg in _slot_slices(fn.node):
        node_line = msg[0]
        if st_ == "ok":
            insts.append(R.ok(rid, key, file, node_line, idiom=msg[1]))
        elif st_ == "viol":
            insts.append(R.viol(rid, key, file, node_line, msg[1], construct=msg[2]))
        else:
            insts.append(R.undec(rid, key, file, node_line, msg[1]))
    if len(insts) == 1:
        insts.append(R.ok(rid, "slot-slice:none", file, fn.node.lineno, idiom="no batch of slots is taken as a slice (one slot per step, cursor += 1)"))
    return insts


def _slot_slices(fn_node):
    """[(status, key, (line, message[, construct]))] for every loop over a slice of a slot list whose cursor advances afterwards"""
    out = []
    for lp in (n for n in ast.walk(fn_node) if isinstance(n, ast.For)):
        it = lp.iter
        # enumerate(S[a:b]) / zip(S[a:b], ..) / S[a:b]
        cands = [it] + (list(it.args) if isinstance(it, ast.Call) and call_name(it) in ("enumerate", "zip") else [])
        sl = next((c for c in cands if isinstance(c, ast.Subscript) and isinstance(c.slice, ast.Slice) and isinstance(c.value, ast.Name) and
                   c.slice.lower is not None and c.slice.upper is not None and c.slice.step is None), None)
        if sl is None or not isinstance(sl.slice.lower, ast.Name):
            continue
        cur = sl.slice.lower.id
        # the advance that follows the loop in the same block
        parent_blocks = [b for b in _blocks_of(fn_node) if lp in b]
        adv = None
        for b in parent_blocks:
            for st in b[b.index(lp) + 1:]:
                if isinstance(st, ast.AugAssign) and isinstance(st.op, ast.Add) and isinstance(st.target, ast.Name) and st.target.id == cur:
                    adv = st
                    break
        if adv is None:
            continue
        key = f"slot-slice:{cur}"
        width = sym.canon(sl.slice.upper) - sym.canon(sl.slice.lower)
        if width.same(sym.canon(adv.value)):
            out.append(("ok", key, (lp.lineno, f"{unparse(sl)}: exactly the {unparse(adv.value)} slots from the cursor, which then advances by as many")))
        elif width.symbols() <= sym.canon(adv.value).symbols() | {cur}:
            out.append(("viol", key, (lp.lineno,
                                               f"the batch is '{unparse(sl)}' ({unparse(sl.slice.upper)} - {cur} slots) but the cursor advances by "
                                               f"'{unparse(adv.value)}': only for {cur} = 0 (the first volume group of a time) are these the same; later groups get "
                                               f"fewer notes than they are charged for and their sounds are dropped although notes are free",
                                               f"{unparse(sl)} ; {unparse(adv)}")))
        else:
            out.append(("undec", key, (lp.lineno, f"slice '{unparse(sl)}' against advance '{unparse(adv.value)}' not decided")))
    return out


def _blocks_of(node):
    out = []
    for n in ast.walk(node):
        for fld in ("body", "orelse", "finalbody"):
            v = getattr(n, fld, None)
            if isinstance(v, list) and v and isinstance(v[0], ast.stmt):
                out.append(v)
    return out


def rule_dep(ctx):
    """obligations inherited from shared code reached through the call graph (sa/props/deps.py)"""
    from .deps import dep_insts
    return dep_insts(ctx, "C18", [HSC], skip_groups=())


SPECS = [
    RuleSpec("C18.R1", rule_r1, 3, "A3", "both inputs untouched; result rooted in a deep copy"),
    RuleSpec("C18.R2", rule_r2, 5, "A2", "result frame = target's notes; only sound columns stored; rows kept; unique labels; split back"),
    RuleSpec("C18.R3", rule_r3, 5, "A8", "every named sample reaches exactly one sink on every path, with no early exit"),
    RuleSpec("C18.R4", rule_r4, 7, "A2", "sound columns of the result are cleared before slotting"),
    RuleSpec("C18.R6", rule_r6, 1, "A1", "source and target times are matched as stored (no one-sided transform)"),
    RuleSpec("C18.R7", rule_r7, 3, "A1", "sound kinds stay themselves through split -> count -> recombine (same bit constant, count = number of sounds)"),
    RuleSpec("C18.R8", rule_r8, 2, "A7", "a batch of slots taken as a slice is exactly as long as the cursor's advance, from the cursor"),
    RuleSpec("C18.R5", rule_r5, 3, "A2", "bit tests on sound columns act on integer data for every history of the chart"),
    RuleSpec("C18.D", rule_dep, 1, "M0", "rules of the shared code (timing engine, list classes, stacker) that the operations of this property reach"),
]

META = dict(
    explanation=(
        "hitsound_copy: both inputs have an empty mutation summary and the result is rooted in a deep copy (effect "
        "analysis); the result frame is the concatenation of the target's notes, is only re-ordered / re-indexed, "
        "receives stores only into hitsound_set, volume and hitsound_file through unique positional labels, and is "
        "split back into holds (rows with a length) and hits; every path through the loop over the named samples of a "
        "time sends the sample to exactly one sink (a target note or an event sample at that time) and continues; and "
        "each sound column of the result must be cleared before slotting (decided with the effect summary of "
        "reset_samples, which shows whether the reset reaches the note frames)."),
    not_decided="that no MORE sounds than the source had are written when several volume groups share a time (the slot arithmetic across groups), which of several notes at one time receives a sound",
)
