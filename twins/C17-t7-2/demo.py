"""Demo / regression digest for property C17 (full_ln).

Run:  cd /tmp/wt7/C17 && PYTHONPATH=/tmp/wt7/C17 /venv/bin/python demo.py
Prints one line `DIGEST <hex>`: sha256 over a canonical dump of every result
(values, dtypes, column order, row labels, exception types, warnings raised,
and the input maps after the call).
"""
import hashlib
import random
import warnings

import numpy as np
import pandas as pd

from reamber.algorithms.generate import full_ln
from reamber.base.Map import Map
from reamber.base.lists.BpmList import BpmList
from reamber.base.lists.TimedList import TimedList
from reamber.base.lists.notes.HitList import HitList
from reamber.base.lists.notes.HoldList import HoldList
from reamber.bms.BMSMap import BMSMap
from reamber.o2jam.O2JMap import O2JMap
from reamber.osu.OsuMap import OsuMap
from reamber.quaver.QuaMap import QuaMap
from reamber.sm.SMMap import SMMap

random.seed(1717)
OUT = []


def emit(*a):
    OUT.append(" ".join(str(x) for x in a))


def cell(v):
    return f"{type(v).__name__}:{v!r}"


def dump_df(tag, df):
    emit(tag, "type", type(df).__name__, "shape", df.shape)
    emit(tag, "columns", [cell(c) for c in df.columns])
    emit(tag, "dtypes", [str(t) for t in df.dtypes])
    emit(tag, "index", type(df.index).__name__, str(df.index.dtype), [cell(i) for i in df.index])
    for c in df.columns:
        emit(tag, "col", c, [cell(v) for v in df[c].tolist()])


def dump_map(tag, m):
    emit(tag, "map", type(m).__name__, list(m.objs.keys()))
    for k, v in m.objs.items():
        emit(tag, k, type(v).__name__)
        dump_df(f"{tag}.{k}", v.df)
    extra = {k: v for k, v in vars(m).items() if k != "objs"}
    emit(tag, "meta", sorted((k, repr(v)) for k, v in extra.items()))


def guarded(tag, fn):
    with warnings.catch_warnings(record=True) as w:
        warnings.simplefilter("always")
        try:
            r = fn()
            err = None
        except Exception as e:  # noqa
            r, err = None, type(e).__name__
    emit(tag, "exception", err)
    emit(tag, "warnings", sorted(x.category.__name__ for x in w))
    return r


# ------------------------------------------------------------------ generators
def gen_notes(keys, n_hits, n_holds, kind, tie_p=0.0, empty_cols=()):
    """Returns (hit dict of lists, hold dict of lists)."""
    cols = [c for c in range(keys) if c not in empty_cols] or [0]

    def off():
        if kind == "int":
            return random.randrange(0, 4000, 25)
        if kind == "float":
            return round(random.uniform(-500, 4000), 3)
        if kind == "grid":  # lots of chords / exact thresholds
            return float(random.randrange(0, 12) * 125)
        if kind == "neg":
            return float(random.randrange(-2000, 2000, 50))
        raise ValueError(kind)

    pool = []
    hits = dict(offset=[], column=[])
    holds = dict(offset=[], column=[], length=[])
    for _ in range(n_hits):
        if pool and random.random() < tie_p:
            o, c = random.choice(pool)
        else:
            o, c = off(), random.choice(cols)
        pool.append((o, c))
        hits["offset"].append(o)
        hits["column"].append(c)
    for _ in range(n_holds):
        if pool and random.random() < tie_p:
            o, c = random.choice(pool)
        else:
            o, c = off(), random.choice(cols)
        pool.append((o, c))
        holds["offset"].append(o)
        holds["column"].append(c)
        ln = random.choice([0, 1, 50, 99.5, 100, 250, 1000, 5000])
        holds["length"].append(int(ln) if kind == "int" else float(ln))
    return hits, holds


def make_map(cls, hits, holds, with_bpm=True, extra=None):
    m = cls()
    if hits["offset"]:
        m.hits = type(m.hits).from_dict(hits)
    if holds["offset"]:
        m.holds = type(m.holds).from_dict(holds)
    if with_bpm:
        m.bpms = type(m.bpms).from_dict(dict(offset=[0.0, 1500.0], bpm=[120.0, 180.5]))
    if extra:
        extra(m)
    return m


def run_case(tag, m, gap, thres):
    before = m.deepcopy()
    out = guarded(tag, lambda: full_ln(m, gap, thres))
    emit(tag, "args", cell(gap), cell(thres))
    if out is not None:
        emit(tag, "same_object", out is m,
             [out.objs[k] is m.objs[k] for k in m.objs],
             [out.objs[k].df is m.objs[k].df for k in m.objs])
        dump_map(tag + ".out", out)
    dump_map(tag + ".in_after", m)
    # input must be unmodified: compare to the snapshot as text
    emit(tag, "input_unchanged",
         all(before.objs[k].df.equals(m.objs[k].df)
             and list(before.objs[k].df.dtypes) == list(m.objs[k].df.dtypes)
             for k in m.objs))


GAPS = [(150, 100), (0, 0), (0, 100), (125, 0), (125.0, 125.0), (37.5, 62.25),
        (150, 100.0), (1e9, 0), (0, 1e9), (250, 250), (np.float64(100.0), np.int64(25))]

# ------------------------------------------------------------------ 1. hand-made edge cases (base Map)
E = dict(offset=[], column=[])
EH = dict(offset=[], column=[], length=[])
hand = [
    ("empty", E, EH),
    ("one_hit", dict(offset=[100.0], column=[2]), EH),
    ("one_hold", E, dict(offset=[100.0], column=[2], length=[75.0])),
    ("one_hit_int", dict(offset=[100], column=[2]), EH),
    ("one_hold_int", E, dict(offset=[100], column=[2], length=[75])),
    ("two_hits_exact", dict(offset=[0, 250], column=[0, 0]), EH),
    ("two_hits_below", dict(offset=[0, 249], column=[0, 0]), EH),
    ("holds_only_int", E, dict(offset=[0, 250, 600], column=[1, 1, 1], length=[100, 100, 7])),
    ("hit_then_hold", dict(offset=[0.0], column=[3]), dict(offset=[400.0], column=[3], length=[30.0])),
    ("hold_then_hit", dict(offset=[400.0], column=[3]), dict(offset=[0.0], column=[3], length=[3000.0])),
    ("unsorted", dict(offset=[900.0, 0.0, 450.0, 300.0], column=[0, 0, 1, 0]),
     dict(offset=[1200.0, 100.0], column=[1, 1], length=[10.0, 2000.0])),
    ("chord", dict(offset=[0.0, 0.0, 0.0, 500.0, 500.0], column=[0, 1, 2, 0, 2]),
     dict(offset=[0.0, 500.0], column=[3, 3], length=[100.0, 100.0])),
    ("tie_same_col_hits", dict(offset=[0.0, 0.0, 500.0], column=[1, 1, 1]), EH),
    ("tie_same_col_mixed", dict(offset=[0.0, 500.0], column=[1, 1]),
     dict(offset=[0.0, 500.0], column=[1, 1], length=[40.0, 60.0])),
    ("tie_last", dict(offset=[0.0, 500.0], column=[1, 1]),
     dict(offset=[500.0], column=[1], length=[60.0])),
    ("single_note_columns", dict(offset=[10.0, 20.0, 30.0], column=[0, 5, 9]),
     dict(offset=[40.0], column=[7], length=[1.0])),
    ("negative_offsets", dict(offset=[-1000.0, -500.0, 0.0], column=[0, 0, 0]),
     dict(offset=[-750.0], column=[0], length=[500.0])),
    ("zero_length_hold_last", dict(offset=[0.0], column=[0]),
     dict(offset=[1000.0], column=[0], length=[0.0])),
    ("fractional", dict(offset=[0.1, 0.2 + 0.1, 250.1 + 0.2], column=[0, 0, 0]), EH),
    ("float_columns", dict(offset=[0.0, 400.0, 800.0], column=[0.0, 1.0, 0.0]), EH),
]
for name, h, ho in hand:
    for gi, (gap, thres) in enumerate(GAPS[:6]):
        m = make_map(Map, h, ho, with_bpm=(gi % 2 == 0))
        run_case(f"hand.{name}.{gi}", m, gap, thres)

# default arguments
m = make_map(Map, dict(offset=[0.0, 250.0, 499.0, 1000.0], column=[0, 0, 0, 0]), EH)
before = m.deepcopy()
out = guarded("defaults", lambda: full_ln(m))
dump_map("defaults.out", out)
out = guarded("defaults_kw", lambda: full_ln(m, ln_as_hit_thres=10, gap=20))
dump_map("defaults_kw.out", out)
dump_map("defaults.in_after", m)


# ------------------------------------------------------------------ 2. random charts, every game
def osu_extra(m):
    if len(m.hits):
        m.hits.volume = [random.randrange(0, 100) for _ in range(len(m.hits))]
        m.hits.hitsound_file = [random.choice(["", "a.wav"]) for _ in range(len(m.hits))]
    m.svs = type(m.svs).from_dict(dict(offset=[0.0, 10.0], multiplier=[1.0, 0.5]))
    m.title = "t"
    m.preview_time = 123


def qua_extra(m):
    if len(m.holds):
        m.holds.keysounds = [[random.choice(["x", "y"])] for _ in range(len(m.holds))]
    m.svs = type(m.svs).from_dict(dict(offset=[5.0], multiplier=[2.0]))


def sm_extra(m):
    m.mines = type(m.mines).from_dict(dict(offset=[125.0, 875.0], column=[0, 1]))
    m.rolls = type(m.rolls).from_dict(dict(offset=[333.0], column=[1], length=[111.0]))
    m.stops = type(m.stops).from_dict(dict(offset=[50.0], length=[10.0]))


def bms_extra(m):
    if len(m.hits):
        m.hits.sample = [random.choice([b"", b"k.wav"]) for _ in range(len(m.hits))]


GAMES = [(Map, None), (OsuMap, osu_extra), (QuaMap, qua_extra), (SMMap, sm_extra),
         (BMSMap, bms_extra), (O2JMap, None)]

case = 0
for kind in ("int", "float", "grid", "neg"):
    for cls, extra in GAMES:
        for rep in range(3):
            keys = random.choice([1, 2, 4, 7, 10])
            n_hits = random.choice([0, 1, 2, 5, 12, 30])
            n_holds = random.choice([0, 1, 3, 8, 20])
            tie_p = random.choice([0.0, 0.0, 0.2, 0.5])
            empty_cols = tuple(random.sample(range(keys), k=random.randrange(0, keys)))
            h, ho = gen_notes(keys, n_hits, n_holds, kind, tie_p, empty_cols)
            m = make_map(cls, h, ho, with_bpm=rep != 1, extra=extra)
            gap, thres = GAPS[case % len(GAPS)]
            run_case(f"rand.{kind}.{cls.__name__}.{rep}", m, gap, thres)
            case += 1

# a big one (exercises the sort on many ties)
h, ho = gen_notes(7, 400, 300, "grid", 0.3)
run_case("big", make_map(OsuMap, h, ho, extra=osu_extra), 60, 65)
h, ho = gen_notes(4, 300, 0, "int", 0.1)
run_case("big_hits_only", make_map(Map, h, ho), 100, 50)
h, ho = gen_notes(4, 0, 300, "int", 0.1)
run_case("big_holds_only", make_map(Map, h, ho), 100, 50)

# ------------------------------------------------------------------ 3. full_ln on a map built from item lists, applied twice
from reamber.base.Hit import Hit
from reamber.base.Hold import Hold

m = Map()
m.hits = HitList([Hit(offset=o, column=c) for o, c in [(0, 0), (300, 0), (300, 1), (1000, 1)]])
m.holds = HoldList([Hold(offset=o, column=c, length=l) for o, c, l in [(100, 2, 50), (600, 0, 10)]])
m.bpms = BpmList.from_dict(dict(offset=[0], bpm=[100]))
once = guarded("twice.1", lambda: full_ln(m, 100, 50))
dump_map("twice.1.out", once)
twice = guarded("twice.2", lambda: full_ln(once, 10, 500))
dump_map("twice.2.out", twice)
dump_map("twice.in_after", m)

# ------------------------------------------------------------------ 4. TimedList.from_dict / Map.stack directly
FD = [
    ("hit.records", HitList, [dict(offset=1.0, column=1), dict(offset=2.5, column=0)]),
    ("hit.records_int", HitList, [dict(offset=1, column=1), dict(offset=2, column=0)]),
    ("hit.records_mixed", HitList, [dict(offset=1, column=1), dict(offset=2.5, column=0)]),
    ("hit.lists", HitList, dict(offset=[1.0, 2.0], column=[3, 4])),
    ("hit.offset_only", HitList, dict(offset=[1.0, 2.0, 3.0])),
    ("hit.column_only", HitList, dict(column=[1, 2])),
    ("hit.empty_list", HitList, []),
    ("hit.empty_dict", HitList, {}),
    ("hit.empty_lists", HitList, dict(offset=[], column=[])),
    ("hit.empty_offset_only", HitList, dict(offset=[])),
    ("hit.bad_col", HitList, dict(offset=[1.0], length=[2.0])),
    ("hit.bad_col2", HitList, [dict(offset=1.0, column=1, foo=2)]),
    ("hit.ragged", HitList, [dict(offset=1.0, column=1), dict(offset=2.0)]),
    ("hit.unequal", HitList, dict(offset=[1.0, 2.0], column=[1])),
    ("hold.records", HoldList, [dict(offset=1.0, column=1, length=4.5)]),
    ("hold.no_length", HoldList, [dict(offset=1.0, column=1), dict(offset=9.0, column=2)]),
    ("hold.length_int", HoldList, dict(offset=[1, 2], column=[0, 0], length=[5, 6])),
    ("hold.reordered", HoldList, dict(length=[5.0], offset=[1.0])),
    ("bpm.offset_only", BpmList, dict(offset=[0.0, 10.0])),
    ("bpm.bad", BpmList, dict(offset=[0.0], column=[1])),
    ("timed.plain", TimedList, dict(offset=[3, 1, 2])),
    ("hit.dup_index", HitList, dict(offset=pd.Series([1.0, 2.0], index=[5, 5]))),
    ("hit.str_index", HoldList, dict(offset=pd.Series([1.0, 2.0], index=["a", "b"]))),
    ("hit.ndarray_values", HitList, dict(offset=np.array([1.0, 2.0]), column=np.array([1, 2]))),
    ("hit.ndarray_arg", HitList, np.array([1, 2])),
    ("hit.str_arg", HitList, "abc"),
    ("hit.np_scalars", HoldList, [dict(offset=np.float64(1.0), column=np.int64(2))]),
    ("hit.none_arg", HitList, None),
    ("hit.nan_values", HoldList, dict(offset=[1.0, float("nan")], length=[float("nan"), 2.0])),
]
for cls, _ in GAMES:
    proto = cls()
    for k, v in proto.objs.items():
        FD.append((f"{cls.__name__}.{k}.offset_only", type(v), dict(offset=[10.0, 5.0, 7.5])))
        FD.append((f"{cls.__name__}.{k}.records", type(v), [dict(offset=10), dict(offset=5)]))
        FD.append((f"{cls.__name__}.{k}.empty", type(v), []))
        FD.append((f"{cls.__name__}.{k}.bad", type(v), dict(offset=[1.0], nonsense=[1])))
for name, cls, d in FD:
    import copy
    d_before = copy.deepcopy(d)
    tl = guarded("from_dict." + name, lambda: cls.from_dict(d))
    emit("from_dict." + name, "arg_unchanged", repr(d) == repr(d_before))
    if tl is not None:
        emit("from_dict." + name, type(tl).__name__)
        dump_df("from_dict." + name, tl.df)
        # mutable defaults must not be shared between rows
        for c in tl.df.columns[tl.df.dtypes == object]:
            vals = tl.df[c].tolist()
            emit("from_dict." + name, "obj_ids_distinct", c,
                 len({id(v) for v in vals if isinstance(v, list)}) == sum(isinstance(v, list) for v in vals))

h, ho = gen_notes(4, 6, 4, "float", 0.0)
for cls, extra in GAMES:
    m = make_map(cls, h, ho, extra=extra)
    for inc in (None, (HitList, HoldList), (HitList,), (HoldList,), (BpmList,), (TimedList,), (int,), ()):
        tag = f"stack.{cls.__name__}.{[t.__name__ for t in inc] if inc is not None else None}"
        s = guarded(tag, lambda: m.stack(inc))
        if s is not None:
            emit(tag, "ixs", [cell(i) for i in s._ixs])
            emit(tag, "unstacked", [type(o).__name__ for o in s._unstacked],
                 [o is v for o in s._unstacked for v in m.objs.values() if o is v])
            dump_df(tag, s._stacked)
    # stack mutation round trip still writes through
    s = m.stack()
    s.offset += 1
    s.loc[s.column == 0, "column"] = 9
    dump_map(f"stack.{cls.__name__}.after_mutation", m)

print("DIGEST", hashlib.sha256("\n".join(OUT).encode()).hexdigest())
