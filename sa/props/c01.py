"""C01 — osu!mania file <-> chart (DESIGN §5 C01)."""
from __future__ import annotations

import ast
import copy
from typing import Dict, List, Optional, Tuple

from ..model import AnalysisError, NotLiteral, walk_no_nested, params_of
from .. import report as R
from ..report import RuleSpec
from .. import codec as C
from .common import fn_loc, node_loc, short, unparse, returns_of, call_name

META_CLS = "reamber.osu.OsuMapMeta.OsuMapMeta"
READ_META = META_CLS + "._read_meta_string_list"
WRITE_META = META_CLS + ".write_meta_string_list"
OSUMAP = "reamber.osu.OsuMap.OsuMap"
CODECS = {
    "OsuHit": "reamber.osu.OsuHit.OsuHit",
    "OsuHold": "reamber.osu.OsuHold.OsuHold",
    "OsuBpm": "reamber.osu.OsuBpm.OsuBpm",
    "OsuSv": "reamber.osu.OsuSv.OsuSv",
    "OsuSample": "reamber.osu.OsuSample.OsuSample",
}
# slots that are bit fields in the .osu format (osu! file format v14, timing points: `effects`, bit 0 = kiai, bit 3 = omit first
# barline); the model keeps only the named bit
BIT_FLAGS = {"kiai": (1, "effects")}
# trailing fields the format makes optional (storyboard `Sample,time,layer,"file"[,volume]`, volume defaults to 100)
OPTIONAL_SLOTS = {"OsuSample": (4, "volume", 100)}
CTL_ = "_sa_controls"
NOTE_META = "reamber.osu.OsuNoteMeta.OsuNoteMeta"
TP_META = "reamber.osu.OsuTimingPointMeta.OsuTimingPointMeta"


# --------------------------------------------------------------------------- R1
from .. import emit as EM

def _resolver(M, mod, cls=None):
    def resolve_call(f):
        if isinstance(f, ast.Name):
            r = M.resolve(mod, f.id)
            if r and r[0] == "external":
                return r[1].split(".")[-1]
            if r and r[0] == "func":
                return r[1].split(".")[-1]
            return None
        if isinstance(f, ast.Attribute):
            r = M.resolve_expr(mod, f, cls)
            if r and r[0] == "func":
                return ".".join(r[1].split(".")[-2:])
            if isinstance(f.value, ast.Name) and f.value.id in ("self", "cls") and cls:
                m = M.method(cls, f.attr)
                if m:
                    return ".".join(m.split(".")[-2:])
        return None
    return resolve_call


def read_meta_table(ctx):
    """key -> (field, ops, If node) from the reader's k == "Key" chain."""
    M = ctx.M
    fn = M.fn(READ_META)
    # the variables holding key and value: ``k, *v = line.split(":")``
    kvar = vvar = None
    split_stmt = None
    for n in walk_no_nested(fn.node):
        if isinstance(n, ast.Assign) and isinstance(n.value, ast.Call) and isinstance(n.value.func, ast.Attribute) \
                and n.value.func.attr in ("split", "partition") and isinstance(n.targets[0], ast.Tuple):
            names = [(t.value.id if isinstance(t, ast.Starred) else t.id) for t in n.targets[0].elts
                     if isinstance(t, (ast.Name, ast.Starred))]
            if len(names) >= 2:
                kvar, vvar = names[0], names[-1]
                split_stmt = n
                break
    if kvar is None:
        raise AnalysisError("osu meta reader: key/value split statement not found")
    branches = C.eq_chain(fn.node.body, lambda n: isinstance(n, ast.Name) and n.id == kvar, lambda e: M.lit(fn.mod, e, fn.cls))
    res = _resolver(M, fn.mod, fn.cls)
    table = {}
    others = []
    for const, body, ifn in branches:
        key = C.const_str(const)
        if key is None:
            continue
        mentions_v = any(isinstance(x, ast.Name) and x.id == vvar for b in body for x in ast.walk(b))
        if len(body) == 1 and isinstance(body[0], ast.Assign) and C.self_attr(body[0].targets[0]) and mentions_v:
            field = C.self_attr(body[0].targets[0])
            val = body[0].value
            try:
                if isinstance(val, ast.ListComp) and isinstance(val.generators[0].iter, ast.Call) and \
                        isinstance(val.generators[0].iter.func, ast.Attribute) and \
                        val.generators[0].iter.func.attr == "split" and \
                        isinstance(val.generators[0].iter.func.value, ast.Name) and \
                        val.generators[0].iter.func.value.id == vvar:
                    sp = val.generators[0].iter
                    sep = sp.args[0].value if sp.args and isinstance(sp.args[0], ast.Constant) else None
                    ops = ["split_ws"] if sep == " " else (["split_any"] if not sp.args else [f"split:{sep!r}"])
                elif isinstance(val, ast.Call) and isinstance(val.func, ast.Attribute) and val.func.attr == "split" and \
                        isinstance(val.func.value, ast.Name) and val.func.value.id == vvar:
                    sep = val.args[0].value if val.args and isinstance(val.args[0], ast.Constant) else None
                    ops = ["split_any"] if not val.args else (["split_ws_nofilter"] if sep == " " else [f"split:{sep!r}"])
                else:
                    leaf, ops = C.chain(val, lambda n: isinstance(n, ast.Name) and n.id == vvar, res)
            except C.Unknown as e:
                ops = ["?" + str(e)]
            table[key] = (field, ops, ifn)
        else:
            others.append((key, body, ifn))
    return table, others, (kvar, vvar, split_stmt), fn


def write_meta_table(ctx):
    """key -> (field, ops, space_after_colon, node) from the writer's list of f-strings."""
    M = ctx.M
    fn = M.fn(WRITE_META)
    rets = returns_of(fn.node)
    if len(rets) != 1 or not isinstance(rets[0].value, ast.List):
        raise AnalysisError("osu meta writer: expected a single returned list literal")
    res = _resolver(M, fn.mod, fn.cls)
    table = {}
    plain = []   # literal lines and other elements in order: (text or None, node)
    for el in rets[0].value.elts:
        toks = C.fstring_tokens(el.value if isinstance(el, ast.Starred) else el)
        if isinstance(el, ast.Starred):
            plain.append((None, el))
            continue
        vals = [t for t in toks if t[0] == "val"]
        lead = toks[0][1] if toks and toks[0][0] == "lit" else ""
        if not vals:
            plain.append((C.literal_text(toks), el))
            continue
        if ":" in lead and len(vals) == 1 and toks[-1][0] == "val" and not lead.startswith("0,"):
            key, after = lead.split(":", 1)
            e = vals[0][1]
            spec = vals[0][2]
            try:
                if isinstance(e, ast.Call) and isinstance(e.func, ast.Attribute) and e.func.attr == "join" and \
                        isinstance(e.func.value, ast.Constant) and e.args and C.self_attr(e.args[0]):
                    field, ops = C.self_attr(e.args[0]), ["join_ws"]
                else:
                    leaf, ops = C.chain(e, lambda n: C.self_attr(n) is not None, res)
                    field = C.self_attr(leaf)
            except C.Unknown as ex:
                field, ops = None, ["?" + str(ex)]
            if spec:
                ops = ops + ["fmt:" + spec]
            table[key] = (field, ops, after != "", el)
        else:
            plain.append((("<mixed>", toks), el))
    return table, plain, fn


def _compat(rops: List[str], wops: List[str], space_after: bool) -> Tuple[str, str]:
    """(status, reason) for a reader chain against a writer chain."""
    if any(o.startswith("?") for o in rops + wops):
        return R.UNDEC, "unmodelled transform: " + ",".join(o for o in rops + wops if o.startswith("?"))
    r_strip = "strip" in rops
    rc = [o for o in rops if o != "strip"]
    wc = list(wops)
    if "call:unidecode" in wc:
        return R.VIOL, "written through unidecode (lossy: no reader inverse)"
    if rc == []:
        if wc not in ([], ["str"]):
            return R.UNDEC, f"string field written through {wc}"
        if space_after and not r_strip:
            return R.VIOL, "writer emits a blank after ':' but the reader does not strip it (drifts on every cycle)"
        return R.OK, "str <-> str" + (" (strip is an idempotent normalisation)" if r_strip else "")
    fmts = [o for o in wc if o.startswith("fmt:")]
    if fmts and rc in (["int"], ["float"]):
        import re as _re
        m_ = _re.fullmatch(r"fmt:(?:\.(\d+))?([gGrsd]?)", fmts[0])
        digits = int(m_.group(1)) if m_ and m_.group(1) else (6 if m_ and m_.group(2) in ("g", "G") else None)
        if m_ and m_.group(2) in ("g", "G") and digits is not None and digits < 15:
            return R.VIOL, (f"written with format '{fmts[0][4:]}' ({digits} significant digits): a value of {digits + 1} or more digits is "
                            f"written rounded or in exponent form ('1.23457e+06'), which the reader's {rc[0]}() "
                            + ("cannot parse" if rc == ["int"] else "reads back as a different number"))
        wc = [o for o in wc if not o.startswith("fmt:")] + (["fmt:g"] if m_ else fmts)
    if rc == ["int"]:
        if wc in ([], ["fmt:g"], ["int"], ["int", "fmt:g"]):
            return R.OK, "int <-> text"
        return R.UNDEC, f"int field written through {wc}"
    if rc == ["float"]:
        if wc in ([], ["fmt:g"], ["float"], ["float", "fmt:g"]):
            return R.OK, "float <-> text"
        if wc and wc[0] == "int":
            return R.VIOL, "float field truncated by int() on write"
        return R.UNDEC, f"float field written through {wc}"
    if rc == ["int", "bool"]:
        if wc in (["int"], ["int", "fmt:g"]):
            return R.OK, "bool(int(v)) <-> int(b)"
        if wc == []:
            return R.VIOL, "bool written as 'True'/'False' but read with int()"
        return R.UNDEC, f"bool field written through {wc}"
    if len(rc) == 1 and rc[0].endswith(".from_string") and len(wc) == 1 and wc[0].endswith(".to_string") \
            and rc[0].split(":")[1].split(".")[0] == wc[0].split(":")[1].split(".")[0]:
        return R.OK, "from_string <-> to_string (tables checked separately)"
    if rc == ["split_ws"] and wc == ["join_ws"]:
        return R.OK, "split(' ')+filter <-> ' '.join"
    if rc == ["split_any"] and wc == ["join_ws"]:
        return R.VIOL, ("the reader splits on ANY whitespace (split() also cuts at U+3000, U+00A0, tabs) while the writer joins "
                        "with a single ' ': an element containing such a character comes back as two elements")
    if rc == ["split_ws_nofilter"] and wc == ["join_ws"]:
        return R.VIOL, "split(' ') without dropping empty strings: an empty list is written as '' and read back as ['']"
    if rc == ["split_ws"] or wc == ["join_ws"]:
        return R.VIOL, f"list field: reader {rc} vs writer {wc}"
    return R.UNDEC, f"reader {rops} vs writer {wops}"


def _float_producers(ctx, field: str) -> List[str]:
    """library statements that store a true-division result into `<obj>.<field>`"""
    M = ctx.M
    out = []
    for q, fn in M.funcs.items():
        if not q.startswith("reamber.") or CTL_ in q:
            continue
        for n in walk_no_nested(fn.node):
            if isinstance(n, ast.AugAssign) and isinstance(n.op, ast.Div) and isinstance(n.target, ast.Attribute) and n.target.attr == field:
                out.append(f"'{unparse(n)}' in {'.'.join(q.split('.')[-2:])}")
            elif isinstance(n, ast.Assign) and isinstance(n.targets[0], ast.Attribute) and n.targets[0].attr == field and any(
                    isinstance(x, ast.BinOp) and isinstance(x.op, ast.Div) for x in ast.walk(n.value)):
                out.append(f"'{unparse(n)}' in {'.'.join(q.split('.')[-2:])}")
    return out


def rule_r1(ctx) -> List[R.Inst]:
    M = ctx.M
    rt, others, _, rfn = read_meta_table(ctx)
    wt, plain, wfn = write_meta_table(ctx)
    rfile = M.mods[rfn.mod].rel
    insts = []
    for key in sorted(set(rt) | set(wt)):
        if key not in wt:
            f, ops, ifn = rt[key]
            insts.append(R.viol("C01.R1", f"meta:{key}", rfile, ifn.lineno,
                                f"key '{key}' is read into '{f}' but never written", construct=f"read-only key {key}"))
            continue
        wf, wops, space, wnode = wt[key]
        if key not in rt:
            insts.append(R.viol("C01.R1", f"meta:{key}", rfile, wnode.lineno,
                                f"key '{key}' is written from '{wf}' but never read back",
                                construct=f"write-only key {key}"))
            continue
        rf, rops, ifn = rt[key]
        if rf != wf:
            insts.append(R.viol("C01.R1", f"meta:{key}", rfile, wnode.lineno,
                                f"key '{key}': read into '{rf}' but written from '{wf}'",
                                construct=f"{key}: {rf} != {wf}"))
            continue
        st, why = _compat(rops, wops, space)
        if st == R.OK and [o for o in rops if o != "strip"] == ["int"] and "int" not in wops:
            # the reader parses an integer; the writer prints the value as it is.  Fine while the field holds integers — but a
            # library operation that divides it (rate) makes it a float, and '57598.7' is not readable by int()
            prod = _float_producers(ctx, rf)
            if prod:
                st, why = R.VIOL, (f"read with int() but written without int(): {prod[0]} makes '{rf}' a float, the writer then emits "
                                   f"text like '57598.67' that the reader rejects (ValueError) — rate, write, read fails")
        insts.append(R.Inst("C01.R1", f"meta:{key}", st, rfile, wnode.lineno if st != R.OK else ifn.lineno,
                            f"key '{key}' ({rf}): {why}", construct=f"{key}: reader {rops} writer {wops}",
                            idiom=why if st == R.OK else ""))
    # the SampleSet tables must be mutually inverse
    ss = "reamber.osu.OsuSampleSet.OsuSampleSet"
    lit = lambda n: M.lit(M.cls(ss).mod, n, ss)  # noqa: E731
    try:
        from .tablepairs import tables_of
        from .. import tablefn as TF
        get_tab = tables_of(ctx, ss)
        try:
            to_s, d1 = get_tab("to_string")
            from_s, d2 = get_tab("from_string")
        except (TF.Unknown, TypeError, ValueError) as e:
            raise C.Unknown(str(e))
        file, line = fn_loc(M, ss + ".to_string")
        bad = [k for k, v in to_s.items() if from_s.get(v) != k] + [k for k, v in from_s.items() if to_s.get(v) != k]
        if bad or len(set(to_s.values())) != len(to_s):
            insts.append(R.viol("C01.R1", "SampleSet.tables", file, line,
                                f"to_string/from_string are not mutually inverse on {bad}",
                                construct=f"to={to_s} from={from_s}"))
        else:
            insts.append(R.ok("C01.R1", "SampleSet.tables", file, line, idiom=f"{len(to_s)} constants, mutually inverse"))
    except (C.Unknown, NotLiteral) as e:
        file, line = fn_loc(M, ss + ".to_string")
        insts.append(R.undec("C01.R1", "SampleSet.tables", file, line, f"table extraction failed: {e}"))
    # marker-driven fields: background + samples
    markers_r = {k for k, _, _ in others}
    texts = [t for t, _ in plain if isinstance(t, str)]
    for mk in sorted(markers_r):
        ifn = [i for k, _, i in others if k == mk][0]
        if mk in texts:
            insts.append(R.ok("C01.R1", f"marker:{mk}", rfile, ifn.lineno, idiom="marker line emitted by the writer"))
        else:
            insts.append(R.viol("C01.R1", f"marker:{mk}", rfile, ifn.lineno,
                                f"reader keys on marker line '{mk}' which the writer never emits",
                                construct=f"marker {mk}"))
    return insts


# --------------------------------------------------------------------------- R2
def rule_r2(ctx) -> List[R.Inst]:
    M = ctx.M
    _, _, (kvar, vvar, st), fn = read_meta_table(ctx)
    file = M.mods[fn.mod].rel
    call = st.value
    sep_ok = call.args and C.const_str(call.args[0]) == ":"
    key = "meta.value-split"
    if not sep_ok:
        return [R.undec("C01.R2", key, file, st.lineno, "separator of the key/value split is not ':'")]
    if call.func.attr == "partition":
        return [R.ok("C01.R2", key, file, st.lineno, idiom="partition(':')")]
    maxsplit = None
    if len(call.args) > 1:
        maxsplit = call.args[1]
    for k in call.keywords:
        if k.arg == "maxsplit":
            maxsplit = k.value
    if isinstance(maxsplit, ast.Constant) and maxsplit.value == 1:
        return [R.ok("C01.R2", key, file, st.lineno, idiom="split(':', 1)")]
    # full split: the tail must be re-joined before use
    rejoined = False
    truncated = None
    for n in walk_no_nested(fn.node):
        if isinstance(n, ast.Assign) and isinstance(n.targets[0], ast.Name) and n.targets[0].id == vvar:
            v = n.value
            if isinstance(v, ast.Call) and isinstance(v.func, ast.Attribute) and v.func.attr == "join" and \
                    C.const_str(v.func.value) == ":":
                rejoined = True
            s = C.subscript_const_index(v)
            if s and s[0] == vvar:
                truncated = n
    if rejoined:
        return [R.ok("C01.R2", key, file, st.lineno, idiom="split(':') + ':'.join(tail)")]
    if truncated is not None:
        return [R.viol("C01.R2", key, file, st.lineno,
                       f"value is '{unparse(truncated.value)}' after an unbounded split(':'): everything after a "
                       f"second ':' in a metadata value is dropped",
                       construct=unparse(st) + "; " + unparse(truncated))]
    return [R.undec("C01.R2", key, file, st.lineno, "cannot tell how the value is derived from the split")]


# --------------------------------------------------------------------------- R3
fn_optional = {}


def writer_slots(ctx, cq: str, _subst=False):
    """field -> (coord, ops, expr) and literal slots for ``write_string``."""
    M = ctx.M
    if _subst is False:
        first = writer_slots(ctx, cq, _subst=None)
        if any(v[0] == "?" and "Name" in str(v[1]) for v in first[0].values()):
            # values named before the string is put together (`head = int(self.offset)`) stand for their definitions — tried only
            # when a slot holds a bare local, and kept only if it reads more slots (locals that name PARTS of the text must stay)
            try:
                second = writer_slots(ctx, cq, _subst=True)
                if sum(v[0] == "?" for v in second[0].values()) < sum(v[0] == "?" for v in first[0].values()) and len(second[0]) >= len(first[0]):
                    return second
            except AnalysisError:
                pass
        return first
    fn = M.fn(cq + ".write_string") if _subst is None else M.nfn(cq + ".write_string", subst=True)
    rets = returns_of(fn.node)
    if len(rets) != 1:
        raise AnalysisError(f"{cq}.write_string: expected one return")
    rv = rets[0].value
    optional_tail = None
    if isinstance(rv, ast.Name):
        # s = f"..." ; if <cond>: s += f",..." ; return s   — a trailing part written conditionally
        parts, conds = [], []
        for st in fn.node.body:
            if isinstance(st, ast.Assign) and isinstance(st.targets[0], ast.Name) and st.targets[0].id == rv.id:
                parts = [st.value]
            elif isinstance(st, ast.If) and len(st.body) == 1 and not st.orelse and isinstance(st.body[0], ast.AugAssign) and \
                    isinstance(st.body[0].op, ast.Add) and isinstance(st.body[0].target, ast.Name) and st.body[0].target.id == rv.id:
                parts.append(st.body[0].value)
                conds.append(st.test)
            elif isinstance(st, ast.AugAssign) and isinstance(st.op, ast.Add) and isinstance(st.target, ast.Name) and st.target.id == rv.id:
                parts.append(st.value)
        if parts and all(isinstance(p_, (ast.JoinedStr, ast.Constant)) for p_ in parts):
            vals = []
            for p_ in parts:
                vals.extend(p_.values if isinstance(p_, ast.JoinedStr) else [p_])
            rv = ast.JoinedStr(values=vals)
            ast.copy_location(rv, rets[0].value)
            optional_tail = conds
    from ..normal import string_expr
    whole = string_expr(fn.node, rv)        # joins over field lists, concatenations and named parts read as one f-string
    if whole is not None:
        for x in ast.walk(whole):
            if not hasattr(x, "lineno"):
                ast.copy_location(x, rets[0].value)
        rv = whole
    toks = C.fstring_tokens(rv)
    res = _resolver(M, fn.mod, fn.cls)
    comma = C.split_tokens(toks, ",")
    n = len(comma)
    slots = {}       # coord -> ('lit', text) | ('field', field, ops) | ('tail', (a,b), ops) | ('?', msg)
    for i, fld in enumerate(comma):
        sub = C.split_tokens(fld, ":") if (i == n - 1 and C.count_literal(fld, ":")) else [fld]
        for j, sf in enumerate(sub):
            coord = (i, j if len(sub) > 1 else None)
            vals = [t for t in sf if t[0] == "val"]
            if not vals:
                slots[coord] = ("lit", C.literal_text(sf))
                continue
            if len(vals) != 1 or C.literal_text(sf).strip():
                slots[coord] = ("?", "slot mixes literal text and values")
                continue
            e, spec = vals[0][1], vals[0][2]

            def leafp(x):
                if C.self_attr(x):
                    return True
                return isinstance(x, ast.BinOp) and isinstance(x.op, ast.Add) and C.self_attr(x.left) and C.self_attr(x.right)
            # what the slot denotes, as arithmetic over the item's fields (int/float/round are representation changes)
            from .. import sym as _sym
            rf = _sym.canon(e, lambda x: C.self_attr(x), ("float", "int", "round"))
            fields_in = {s_ for s_ in rf.symbols()}
            declared_names = set(M.item_fields(cq)) | {"tail_offset"}
            if fields_in and fields_in <= declared_names and not any(
                    rf.same(_sym.parse(t)) for t in list(fields_in) + ["offset + length", "tail_offset"]):
                slots[coord] = ("shift", _sym.text(e, lambda x: C.self_attr(x)), e)
                continue
            # a sum of separately truncated parts is not the truncated sum: int(a) + int(b) is up to 1 less than int(a + b)
            if isinstance(e, ast.BinOp) and isinstance(e.op, ast.Add) and any(
                    isinstance(x, ast.Call) and isinstance(x.func, ast.Name) and x.func.id in ("int", "round") and x.args and C.self_attr(x.args[0])
                    for x in (e.left, e.right)) and fields_in == {"offset", "length"}:
                slots[coord] = ("shift", "each term truncated on its own: up to 1 ms (and with both fractional parts >= 0.5, more than 1 ms) "
                                         "before the end of the hold", e)
                continue
            try:
                leaf, ops = C.chain(e, leafp, res)
            except C.Unknown as ex:
                slots[coord] = ("?", str(ex))
                continue
            if spec:
                ops = ops + ["fmt:" + spec]
            if isinstance(leaf, ast.BinOp):
                slots[coord] = ("tail", (C.self_attr(leaf.left), C.self_attr(leaf.right)), ops)
            else:
                slots[coord] = ("field", C.self_attr(leaf), ops)
    fn_optional[cq] = optional_tail
    return slots, n, toks, fn, rets[0]


def reader_slots(ctx, cq: str, n_comma: int):
    """field -> ('slot', coord, ops) | ('diff', coordA, coordB, ops) for ``read_string``."""
    M = ctx.M
    # the field arrays keep their names (they are what the slots index); everything else is substituted into the field dict
    keep = tuple(sorted({n.targets[0].id for n in ast.walk(M.fn(cq + ".read_string").node) if isinstance(n, ast.Assign) and
                         isinstance(n.targets[0], ast.Name) and isinstance(n.value, ast.Call) and isinstance(n.value.func, ast.Attribute) and
                         n.value.func.attr == "split"} |
                        {n.targets[0].id for n in ast.walk(M.fn(cq + ".read_string").node) if isinstance(n, ast.Assign) and
                         isinstance(n.targets[0], ast.Name) and C.dict_call_kwargs(n.value) is not None}))
    fn = M.nfn(cq + ".read_string", subst=True, keep=keep, ssa=True)
    res = _resolver(M, fn.mod, fn.cls)
    arrays = {}   # name -> ('comma',) | ('colon', parent_index)
    dnode = None
    for nd in sorted(walk_no_nested(fn.node), key=lambda x: (getattr(x, "lineno", 0), getattr(x, "col_offset", 0))):
        if isinstance(nd, ast.Assign) and isinstance(nd.targets[0], ast.Name) and isinstance(nd.value, ast.Call) \
                and isinstance(nd.value.func, ast.Attribute) and nd.value.func.attr == "split" and nd.value.args:
            sep = C.const_str(nd.value.args[0])
            src = nd.value.func.value
            if sep == "," and isinstance(src, ast.Name):
                arrays[nd.targets[0].id] = ("comma",)
            elif sep == ":":
                si = C.subscript_const_index(src)
                if si and si[0] in arrays:
                    arrays[nd.targets[0].id] = ("colon", si[1])
        if isinstance(nd, ast.Assign) and C.dict_call_kwargs(nd.value) is not None and \
                isinstance(nd.targets[0], ast.Name):
            kws = C.dict_call_kwargs(nd.value)
            if "offset" in kws:
                dnode = nd
    if dnode is None:
        raise AnalysisError(f"{cq}.read_string: field dict not found")

    def coord_of(x):
        si = C.subscript_const_index(x)
        if not si or si[0] not in arrays:
            return None
        a = arrays[si[0]]
        idx = si[1]
        if a[0] == "comma":
            return (idx if idx >= 0 else n_comma + idx, None)
        parent = a[1] if a[1] >= 0 else n_comma + a[1]
        return (parent, idx)

    out = {}
    # a field value named first in another block (inside a try, before the dict is built) is read through its one definition
    stores_ = {}
    for nd in ast.walk(fn.node):
        if isinstance(nd, ast.Name) and isinstance(nd.ctx, (ast.Store, ast.Del)):
            stores_[nd.id] = stores_.get(nd.id, 0) + 1
    onedef = {nd.targets[0].id: nd.value for nd in ast.walk(fn.node) if isinstance(nd, ast.Assign) and len(nd.targets) == 1 and
              isinstance(nd.targets[0], ast.Name) and stores_.get(nd.targets[0].id) == 1 and nd.targets[0].id not in arrays}

    class _In(ast.NodeTransformer):
        def __init__(self, d):
            self.d = d

        def visit_Name(self, n):
            if isinstance(n.ctx, ast.Load) and n.id in onedef and self.d > 0:
                return _In(self.d - 1).visit(copy.deepcopy(onedef[n.id]))
            return n
    for f, e in C.dict_call_kwargs(dnode.value).items():
        e = _In(3).visit(copy.deepcopy(e))
        ast.fix_missing_locations(e)
        try:
            if isinstance(e, ast.BinOp) and isinstance(e.op, ast.Sub):
                la, lo = C.chain(e.left, lambda x: coord_of(x) is not None, res)
                ra, ro = C.chain(e.right, lambda x: coord_of(x) is not None, res)
                out[f] = ("diff", coord_of(la), coord_of(ra), lo + ["-"] + ro, e)
            else:
                leaf, ops = C.chain(e, lambda x: coord_of(x) is not None, res)
                out[f] = ("slot", coord_of(leaf), ops, e)
        except C.Unknown as ex:
            out[f] = ("?", str(ex), e)
    return out, fn, dnode


def _slot_compat(field: str, rops: List[str], wops: List[str]) -> Tuple[str, str]:
    rc = [o for o in rops if o != "strip"]
    wc = [o for o in wops]
    pairs = {
        ("call:OsuNoteMeta.x_axis_to_column", "call:OsuNoteMeta.column_to_x_axis"): "x<->column (arithmetic not decided)",
        ("call:OsuBpm.code_to_value", "call:OsuBpm.value_to_code"): "code<->value (involution: R4)",
        ("call:OsuSv.code_to_value", "call:OsuSv.value_to_code"): "code<->value (involution: R4)",
    }
    rcalls = [o for o in rc if o.startswith("call:")]
    wcalls = [o for o in wc if o.startswith("call:")]
    if rcalls or wcalls:
        if len(rcalls) == 1 and len(wcalls) == 1 and (rcalls[0], wcalls[0]) in pairs:
            return R.OK, pairs[(rcalls[0], wcalls[0])]
        if not rcalls or not wcalls:
            return R.VIOL, f"conversion applied on one side only (reader {rc}, writer {wc})"
        return R.VIOL, f"reader {rcalls} and writer {wcalls} are not a registered inverse pair"
    lossy_fmt = [o for o in wc if o.startswith("fmt:") and (o[-1] in "gGeE" or (o[-1] == "f" and "." in o))]
    if lossy_fmt and field in ("offset", "length"):
        return R.VIOL, (f"time written with format '{lossy_fmt[0][4:]}': 'g' keeps 6 significant digits, so 1234567 ms is written "
                        f"as 1.23457e+06 and read back 3 ms off (more than 1 ms)")
    if lossy_fmt and rc in (["int"], ["float"]) and [o for o in wc if not o.startswith("fmt:")] in ([], ["int"], ["float"]):
        return R.OK, f"small numeric field <-> text ('{lossy_fmt[0][4:]}' exact for |x| < 1e6)"
    if rc == ["float"] and wc in ([], ["int"], ["float"]):
        return R.OK, "float <-> text" + (" (int() truncation < 1 ms)" if wc == ["int"] else "")
    if rc == ["int"] and wc in ([], ["int"]):
        return R.OK, "int <-> text"
    if field in BIT_FLAGS:
        bit, what = BIT_FLAGS[field]
        if rc == ["int", f"and:{bit}", "bool"] and wc == ["int"]:
            return R.OK, f"bool(int(v) & {bit}) <-> int(b): bit {bit} of the {what} bit field"
        if len(rc) == 2 and rc[0] == "int" and rc[1] in (f"eq:{bit}", "ne:0"):
            return R.VIOL, (f"the slot is the '{what}' BIT FIELD of the format and '{field}' is its bit {bit}: comparing the whole value "
                            f"({rc[1].replace(':', ' ')}) reads {field} {'off' if rc[1].startswith('eq') else 'on'} whenever another flag is "
                            f"set too (9 = kiai + omit first barline), and the writer then emits the changed flag")
        if rc == ["int", "bool"]:
            return R.VIOL, (f"the slot is the '{what}' BIT FIELD of the format and '{field}' is its bit {bit}: bool(int(v)) reads any other "
                            f"flag (8 = omit first barline) as {field} on, and the writer then emits {field} = 1")
    if rc == ["int", "bool"] and wc == ["int"]:
        return R.OK, "bool(int(v)) <-> int(b)"
    if rc == ["int", "bool"] and wc == []:
        return R.VIOL, "bool written as 'True'/'False' but read with int()"
    if rc == [] and wc == []:
        return R.OK, "str <-> str"
    return R.UNDEC, f"reader {rops} vs writer {wops}"


def rule_r3(ctx) -> List[R.Inst]:
    M = ctx.M
    insts = []
    for name, cq in CODECS.items():
        M.cls(cq)
        ws, n, toks, wfn, wret = writer_slots(ctx, cq)
        rs, rfn, dnode = reader_slots(ctx, cq, n)
        file = M.mods[wfn.mod].rel
        wfields = {}
        for coord, v in ws.items():
            if v[0] == "field":
                wfields.setdefault(v[1], []).append((coord, v[2]))
            elif v[0] == "tail":
                wfields.setdefault("<tail>", []).append((coord, v[1], v[2]))
            elif v[0] == "shift":
                insts.append(R.viol("C01.R3", f"{name}.slot{coord}", file, wret.lineno,
                                    f"slot {coord} does not carry a field's value but '{unparse(v[2])}' (= {v[1]}): the written time "
                                    f"differs from the chart's — e.g. int(x + 0.5) moves a negative whole time by 1 ms, again on every "
                                    f"write/read cycle", construct=f"{name} slot {coord}: {unparse(v[2])}"))
                wfields.setdefault("<shifted>", []).append(coord)
            elif v[0] == "?":
                insts.append(R.undec("C01.R3", f"{name}.slot{coord}", file, wret.lineno, v[1]))
        declared = list(M.item_fields(cq))
        writer_unread = any(v[0] == "?" for v in ws.values())
        for f in declared:
            key = f"{name}.{f}"
            r = rs.get(f)
            w = wfields.get(f)
            if f == "length":
                t = wfields.get("<tail>")
                if r is None or t is None:
                    insts.append(R.viol("C01.R3", key, file, wret.lineno,
                                        f"hold length has no {'reader' if r is None else 'writer'} slot",
                                        construct=f"{name}.length missing"))
                    continue
                if r[0] == "?":
                    insts.append(R.undec("C01.R3", key, file, r[-1].lineno, f"how the length is read was not followed: {r[1][:80]}"))
                    continue
                if r[0] != "diff":
                    insts.append(R.viol("C01.R3", key, file, r[-1].lineno,
                                        "length must be read as tail-slot minus offset-slot", construct=unparse(r[-1])))
                    continue
                (tcoord, (ta, tb), tops) = t[0]
                off_w = wfields.get("offset", [((None, None), [])])[0][0]
                okk = r[1] == tcoord and r[2] == off_w and {ta, tb} == {"offset", "length"}
                if okk:
                    insts.append(R.ok("C01.R3", key, file, r[-1].lineno,
                                      idiom=f"tail slot {tcoord}: offset+length out, slot-offset in"))
                else:
                    insts.append(R.viol("C01.R3", key, file, r[-1].lineno,
                                        f"tail codec mismatch: writer puts {ta}+{tb} at {tcoord} (offset at {off_w}), "
                                        f"reader computes slot{r[1]} - slot{r[2]}",
                                        construct=f"{unparse(r[-1])} / tail@{tcoord}"))
                continue
            if r is None and w is None:
                insts.append(R.viol("C01.R3", key, file, wret.lineno,
                                    f"declared field '{f}' has neither a reader nor a writer slot",
                                    construct=f"{name}.{f} absent"))
                continue
            if w is None and r is not None and r[0] == "slot" and r[1] in wfields.get("<shifted>", []):
                continue
            if w is None and writer_unread:
                # the writer's text could not be read slot by slot: no verdict about what it writes
                insts.append(R.undec("C01.R3", key, file, wret.lineno, f"writer of '{f}' not recognised (the writer builds its text in an unmodelled way)"))
                continue
            if r is None and w is not None:
                # the reader also fills its field dict by statements whose keys are not literal (d.update(zip(NAMES, values)), **rest):
                # which fields those cover is not read off the dict display
                dn_ = dnode.targets[0].id if isinstance(dnode.targets[0], ast.Name) else None
                blind = [x for x in ast.walk(rfn.node) if isinstance(x, ast.Call) and isinstance(x.func, ast.Attribute) and x.func.attr == "update" and
                         isinstance(x.func.value, ast.Name) and x.func.value.id == dn_ and x.args and not isinstance(x.args[0], ast.Dict)]
                if blind:
                    insts.append(R.undec("C01.R3", key, file, blind[0].lineno,
                                         f"'{f}' is not a key of the reader's field dict, but the dict is also filled by '{unparse(blind[0])[:60]}': not decided"))
                    continue
            if r is None or w is None:
                insts.append(R.viol("C01.R3", key, file, (dnode.lineno if w is None else wret.lineno),
                                    f"declared field '{f}' is {'read but never written' if w is None else 'written but never read'}",
                                    construct=f"{name}.{f} one-sided"))
                continue
            if r[0] == "?":
                insts.append(R.undec("C01.R3", key, file, r[-1].lineno, r[1]))
                continue
            if r[0] != "slot" or len(w) != 1:
                insts.append(R.undec("C01.R3", key, file, dnode.lineno, "field does not map to a single slot"))
                continue
            wcoord, wops = w[0]
            if r[1] != wcoord:
                insts.append(R.viol("C01.R3", key, file, r[-1].lineno,
                                    f"field '{f}' is written to slot {wcoord} but read from slot {r[1]}",
                                    construct=f"{name}.{f} w{wcoord} r{r[1]}"))
                continue
            st, why = _slot_compat(f, r[2], wops)
            insts.append(R.Inst("C01.R3", key, st, file, r[-1].lineno, f"{name}.{f} @ slot {wcoord}: {why}",
                                construct=f"{name}.{f} reader {r[2]} writer {wops}", idiom=why if st == R.OK else ""))
        for f in rs:
            if f not in declared:
                insts.append(R.viol("C01.R3", f"{name}.{f}", file, dnode.lineno,
                                    f"reader produces '{f}' which is not a declared field of {name}",
                                    construct=f"{name}.{f} undeclared"))
        for f in wfields:
            if f not in ("<tail>", "<shifted>") and f not in declared:
                insts.append(R.viol("C01.R3", f"{name}.{f}", file, wret.lineno,
                                    f"writer emits '{f}' which is not a declared field of {name}",
                                    construct=f"{name}.{f} undeclared"))
    # trailing fields the format makes optional: the reader may index them only under a length test
    for name, (idx, fld, dflt) in OPTIONAL_SLOTS.items():
        cq = CODECS[name]
        rfn = M.fn(cq + ".read_string")
        file = M.mods[rfn.mod].rel
        parents = {}
        for n in ast.walk(rfn.node):
            for ch in ast.iter_child_nodes(n):
                parents[id(ch)] = n
        subs = [n for n in ast.walk(rfn.node) if isinstance(n, ast.Subscript) and isinstance(n.slice, ast.Constant) and n.slice.value == idx
                and isinstance(n.value, ast.Name)]
        key = f"{name}.{fld}:optional"
        if not subs:
            insts.append(R.undec("C01.R3", key, file, rfn.node.lineno, f"slot {idx} is not read"))
            continue
        bad = []
        off_by_one = []
        for sb in subs:
            cur, guarded = sb, False
            while id(cur) in parents:
                cur = parents[id(cur)]
                if isinstance(cur, (ast.IfExp, ast.If)) and any(isinstance(x, ast.Call) and call_name(x) == "len" and x.args and
                                                                unparse(x.args[0]) == sb.value.id for x in ast.walk(cur.test)):
                    guarded = True
                    # the bound of the test: with exactly `idx` fields (the optional one absent) the branch that indexes it must not
                    # run, with idx + 1 fields it must (a comparison of len() with literals: its truth at the two lengths; A7)
                    in_body = any(x is sb for b_ in (cur.body if isinstance(cur.body, list) else [cur.body]) for x in ast.walk(b_))
                    at = [_len_test_truth(cur.test, sb.value.id, n_) for n_ in (idx, idx + 1)]
                    if None not in at:
                        taken = [a if in_body else not a for a in at]
                        if taken[0]:
                            off_by_one.append((sb, cur.test, "absent"))
                        elif not taken[1]:
                            off_by_one.append((sb, cur.test, "present"))
                    break
                # the same test spelled as the truth of the tail slice: `fields[4:]` is empty exactly when there is no field 4
                if isinstance(cur, (ast.IfExp, ast.If)) and any(
                        isinstance(x, ast.Subscript) and isinstance(x.slice, ast.Slice) and unparse(x.value) == sb.value.id and x.slice.upper is None and
                        x.slice.step is None and isinstance(x.slice.lower, ast.Constant) and isinstance(sb.slice, ast.Constant) and
                        x.slice.lower.value == sb.slice.value for x in ast.walk(cur.test)):
                    guarded = True
                    break
            if not guarded:
                bad.append(sb)
        wconds = fn_optional.get(cq)
        if wconds:
            # the writer omits the field under a condition: it must be exactly "the value is the format's default"
            t = unparse(wconds[0]).replace(" ", "")
            if t not in (f"self.{fld}!={dflt}", f"{dflt}!=self.{fld}"):
                insts.append(R.viol("C01.R3", key + ":writer", file, wconds[0].lineno,
                                    f"the writer leaves field {idx} ('{fld}') out unless '{unparse(wconds[0])}', but a reader supplies the "
                                    f"format default {dflt} for an omitted field: values for which the test is false and that differ from "
                                    f"{dflt} are lost", construct=f"{name}: {fld} omitted unless {unparse(wconds[0])}"))
            else:
                insts.append(R.ok("C01.R3", key + ":writer", file, wconds[0].lineno, idiom=f"omitted only when it equals the format default {dflt}"))
        if off_by_one and not bad:
            sb, t_, which = off_by_one[0]
            insts.append(R.viol("C01.R3", key, file, t_.lineno,
                                (f"the length test '{unparse(t_)}' lets '{unparse(sb)}' be read from a {name} line that has only {idx} fields "
                                 f"(the optional '{fld}' absent): IndexError, the whole file is unreadable" if which == "absent" else
                                 f"the length test '{unparse(t_)}' skips '{unparse(sb)}' on a {name} line that HAS the optional field '{fld}': "
                                 f"its value is replaced by the default {dflt}"),
                                construct=f"{name}: {unparse(sb)} under '{unparse(t_)}'"))
        elif bad:
            insts.append(R.viol("C01.R3", key, file, bad[0].lineno,
                                f"field {idx} ('{fld}') of a {name} line is optional in the format (default {dflt}); '{unparse(bad[0])}' is read "
                                f"unconditionally, so a line without it makes the whole file unreadable",
                                construct=f"{name}: {unparse(bad[0])} without a length test"))
        else:
            insts.append(R.ok("C01.R3", key, file, subs[0].lineno, idiom=f"slot {idx} read under a length test (default {dflt})"))
    return insts


def _len_test_truth(test: ast.AST, seq: str, n: int):
    """truth of a test that consults only len(<seq>) and literals, at len(<seq>) == n; None when it consults anything else"""
    import copy as _copy

    class S(ast.NodeTransformer):
        def visit_Call(self, c):
            if call_name(c) == "len" and len(c.args) == 1 and unparse(c.args[0]) == seq:
                return ast.copy_location(ast.Constant(value=n), c)
            return c
    t = S().visit(_copy.deepcopy(test))
    if any(not isinstance(x, (ast.Compare, ast.BoolOp, ast.UnaryOp, ast.Constant, ast.And, ast.Or, ast.Not, ast.USub, ast.cmpop, ast.BinOp, ast.Add, ast.Sub,
                              ast.expr_context)) for x in ast.walk(t)):
        return None
    try:
        return bool(eval(compile(ast.fix_missing_locations(ast.Expression(body=t)), "<len-test>", "eval"), {"__builtins__": {}}, {}))
    except Exception:
        return None


# --------------------------------------------------------------------------- R4
def _k_over_x(fn_node) -> Optional[float]:
    arg = fn_node.args.args[-1].arg
    for n in ast.walk(fn_node):
        if isinstance(n, ast.Return) and isinstance(n.value, ast.BinOp) and isinstance(n.value.op, ast.Div):
            l, r = n.value.left, n.value.right
            if isinstance(r, ast.Name) and r.id == arg:
                try:
                    return float(ast.literal_eval(l))
                except Exception:
                    return None
    return None


def rule_r4(ctx) -> List[R.Inst]:
    M = ctx.M
    insts = []
    for name in ("OsuBpm", "OsuSv"):
        cq = CODECS[name]
        a = _k_over_x(M.fn(cq + ".code_to_value").node)
        b = _k_over_x(M.fn(cq + ".value_to_code").node)
        file, line = fn_loc(M, cq + ".value_to_code")
        if a is None or b is None:
            insts.append(R.undec("C01.R4", f"{name}.code<->value", file, line, "not of the form K / x"))
        elif a == b and a != 0:
            insts.append(R.ok("C01.R4", f"{name}.code<->value", file, line, idiom=f"both are {a} / x (involution)"))
        else:
            insts.append(R.viol("C01.R4", f"{name}.code<->value", file, line,
                                f"code_to_value is {a} / x but value_to_code is {b} / x: not mutually inverse",
                                construct=f"{name}: {a} vs {b}"))
    return insts


# --------------------------------------------------------------------------- R5
def _count_tests(fn_node) -> Optional[Dict[str, int]]:
    out = {}
    for n in ast.walk(fn_node):
        if isinstance(n, ast.Compare) and len(n.ops) == 1 and isinstance(n.ops[0], ast.Eq) and \
                isinstance(n.left, ast.Call) and isinstance(n.left.func, ast.Attribute) and n.left.func.attr == "count" \
                and n.left.args and C.const_str(n.left.args[0]) and isinstance(n.comparators[0], ast.Constant):
            out[C.const_str(n.left.args[0])] = n.comparators[0].value
    return out or None


def _split_test(fn_node, lit=None) -> Optional[Tuple[str, int, int, str]]:
    """(separator, length, index, value) of ``t = s.split(sep); len(t) != n -> False; t[i] == v``  (v a constant, or
    str(<constant expression>) evaluated as a literal)."""
    sep = ln = idx = val = None
    for n in ast.walk(fn_node):
        if isinstance(n, ast.Call) and isinstance(n.func, ast.Attribute) and n.func.attr == "split" and n.args:
            sep = C.const_str(n.args[0])
        if isinstance(n, ast.Compare) and len(n.ops) == 1:
            l, r = n.left, n.comparators[0]
            if isinstance(l, ast.Call) and isinstance(l.func, ast.Name) and l.func.id == "len" and \
                    isinstance(r, ast.Constant) and isinstance(n.ops[0], (ast.NotEq, ast.Eq)):
                ln = r.value
            si = C.subscript_const_index(l)
            if si and isinstance(r, ast.Constant) and isinstance(n.ops[0], ast.Eq):
                idx, val = si[1], r.value
            elif si and isinstance(n.ops[0], ast.Eq) and isinstance(r, ast.Call) and isinstance(r.func, ast.Name) and r.func.id == "str" and \
                    len(r.args) == 1 and lit is not None:
                try:
                    idx, val = si[1], str(lit(r.args[0]))
                except Exception:
                    pass
    if None in (sep, ln, idx, val):
        return None
    return sep, ln, idx, val


def rule_r5(ctx) -> List[R.Inst]:
    M = ctx.M
    insts = []
    shapes = {}
    for name, pred, owner in (("OsuHit", "is_hit", NOTE_META), ("OsuHold", "is_hold", NOTE_META)):
        ws, n, toks, wfn, wret = writer_slots(ctx, CODECS[name])
        tests = _count_tests(M.nfn(owner + "." + pred, subst=True).node)      # (a shared helper of the classifiers is inlined)
        file, line = fn_loc(M, owner + "." + pred)
        if not tests:
            insts.append(R.undec("C01.R5", pred, file, line, "classifier is not a conjunction of count() tests"))
            continue
        got = {ch: C.count_literal(toks, ch) for ch in tests}
        shapes[pred] = tests
        if got == tests:
            insts.append(R.ok("C01.R5", pred, file, line, idiom=f"writer emits {got} separators, classifier tests {tests}"))
        else:
            insts.append(R.viol("C01.R5", pred, file, line,
                                f"{name}.write_string emits separators {got} but {pred} tests {tests}: "
                                f"written lines are not recognised", construct=f"{pred}: {tests} vs {got}"))
    for name, pred in (("OsuBpm", "is_timing_point"), ("OsuSv", "is_slider_velocity")):
        ws, n, toks, wfn, wret = writer_slots(ctx, CODECS[name])
        cfn_ = M.nfn(TP_META + "." + pred)
        t = _split_test(cfn_.node, lambda e_: M.lit(cfn_.mod, e_, cfn_.cls))
        file, line = fn_loc(M, TP_META + "." + pred)
        if t is None:
            # a classifier that orders a slot's numeric value (sign of the code) instead of testing the flag slot the
            # writers set: the format distinguishes the two line kinds by the 'uninherited' flag, whatever the sign
            cfn = cfn_.node
            ords = [c for c in ast.walk(cfn) if isinstance(c, ast.Compare) and isinstance(c.ops[0], (ast.Gt, ast.GtE, ast.Lt, ast.LtE))
                    and any(C.subscript_const_index(x) for x in ast.walk(c))]
            if ords:
                si = [C.subscript_const_index(x) for x in ast.walk(ords[0]) if C.subscript_const_index(x)][0]
                insts.append(R.viol("C01.R5", pred, file, ords[0].lineno,
                                    f"{pred} decides by the sign of slot {si[1]} ('{unparse(ords[0])}'), not by the flag slot the writers "
                                    f"set: a tempo point with a negative bpm is read back as a scroll-velocity point and a negative SV "
                                    f"multiplier as a tempo point", construct=f"{pred}: {unparse(ords[0])}"))
            else:
                insts.append(R.undec("C01.R5", pred, file, line, "classifier shape not recognised"))
            continue
        sep, ln, idx, val = t
        shapes[pred] = t
        slot = ws.get((idx, None))
        good = sep == "," and n == ln and slot is not None and slot[0] == "lit" and slot[1] == str(val)
        # the flag slot is the ONLY slot the classifier may consult: any further test reads a slot the writer fills from a field
        # of the object, so the lines the writer emits for some field values are not recognised (and silently dropped on read)
        flag_cmp = [c for c in ast.walk(cfn_.node) if isinstance(c, ast.Compare) and len(c.ops) == 1 and isinstance(c.ops[0], ast.Eq) and
                    (C.subscript_const_index(c.left) or (None, None))[1] == idx]
        extra = [x for x in ast.walk(cfn_.node) if C.subscript_const_index(x) and not any(x is y for c in flag_cmp for y in ast.walk(c))]
        extra = [x for x in extra if (ws.get((C.subscript_const_index(x)[1], None)) or ("?",))[0] != "lit"]
        if good and extra:
            si = C.subscript_const_index(extra[0])[1]
            insts.append(R.viol("C01.R5", pred, file, extra[0].lineno,
                                f"{pred} also consults slot {si} ('{unparse(extra[0])}'), which {name}.write_string fills from the object "
                                f"({ws.get((si, None))}): the writer emits lines for every value of that field, the classifier accepts only some "
                                f"— the others are dropped on read (e.g. a negative multiplier is written as a positive code)",
                                construct=f"{pred}: extra test on slot {si}"))
        elif good:
            insts.append(R.ok("C01.R5", pred, file, line, idiom=f"{ln} comma fields, slot {idx} is literal {val!r}"))
        else:
            insts.append(R.viol("C01.R5", pred, file, line,
                                f"{name}.write_string has {n} comma fields with slot {idx} = {slot}; "
                                f"{pred} requires {ln} fields and slot {idx} == {val!r}",
                                construct=f"{pred}: {t} vs n={n} slot={slot}"))
    # pairwise exclusivity of the four classifiers
    if len(shapes) == 4:
        file, line = fn_loc(M, NOTE_META + ".is_hit")
        a, b = shapes["is_hit"], shapes["is_hold"]
        t1, t2 = shapes["is_timing_point"], shapes["is_slider_velocity"]
        excl = a != b and (t1[3] != t2[3] or t1[2] != t2[2] or t1[1] != t2[1]) and \
            all(sh.get(",") is not None and sh[","] + 1 != t[1] for sh in (a, b) for t in (t1, t2))
        if excl:
            insts.append(R.ok("C01.R5", "classifiers.exclusive", file, line, idiom="four classifiers pairwise exclusive"))
        else:
            insts.append(R.viol("C01.R5", "classifiers.exclusive", file, line,
                                "two line classifiers accept the same line shape",
                                construct=f"{a} {b} {t1} {t2}"))
    return insts


# --------------------------------------------------------------------------- R6
def rule_r6(ctx) -> List[R.Inst]:
    M = ctx.M
    rfn = M.nfn(OSUMAP + ".read")      # (table-driven readers unrolled: sa/normal.py)
    wfn = M.fn(OSUMAP + ".write")
    file = M.mods[rfn.mod].rel
    insts = []
    # markers the reader looks up: X.index("<text>"), named (ix = lines.index(..)) or used in place
    idx = {}

    def index_text(e):
        if isinstance(e, ast.Call) and isinstance(e.func, ast.Attribute) and e.func.attr == "index" and len(e.args) == 1 and C.const_str(e.args[0]):
            return C.const_str(e.args[0])
        return None
    for n in walk_no_nested(rfn.node):
        if isinstance(n, ast.Assign) and isinstance(n.targets[0], ast.Name) and index_text(n.value):
            idx[n.targets[0].id] = (index_text(n.value), n)
    named = {id(v[1].value) for v in idx.values()}
    for n in walk_no_nested(rfn.node):
        if index_text(n) and id(n) not in named:
            idx.setdefault("@" + index_text(n), (index_text(n), n))
    if len(idx) != 2:
        return [R.undec("C01.R6", "sections", file, rfn.node.lineno, f"expected two section markers, found {len(idx)}")]
    # writer: literal lines emitted, in order (append / extend / list display / helpers: sa/emit.py)
    items = EM.emission(M, wfn)
    if items is None:
        return [R.undec("C01.R6", "sections", file, wfn.node.lineno, "OsuMap.write is not a recognised list-building writer")]
    wtexts = [C.const_str(i.expr).strip() for i in items if i.kind == "one" and C.const_str(i.expr) is not None]
    # reader slices
    calls = []

    def dfs(n):
        # program order (the statements of an unrolled loop share one line, so line numbers do not order them)
        if isinstance(n, ast.Call) and isinstance(n.func, ast.Attribute) and n.func.attr.startswith("_read_file") \
                and n.args and isinstance(n.args[0], ast.Subscript) and isinstance(n.args[0].slice, ast.Slice):
            calls.append((n.lineno, n.func.attr, n.args[0].slice, n, unparse(n.args[0].value)))
        for ch in ast.iter_child_nodes(n):
            if not isinstance(ch, (ast.FunctionDef, ast.AsyncFunctionDef, ast.Lambda, ast.ClassDef)):
                dfs(ch)
    dfs(rfn.node)
    names = list(idx)
    order_r = sorted(names, key=lambda v: idx[v][1].lineno)

    def bound(x, seq="", upper=False):
        """None | (var, delta)"""
        if x is None:
            return None
        if not upper and isinstance(x, ast.Constant) and x.value == 0:
            return None                          # [0:k] is [:k]
        if upper and isinstance(x, ast.Call) and isinstance(x.func, ast.Name) and x.func.id == "len" and len(x.args) == 1 and unparse(x.args[0]) == seq:
            return None                          # [k:len(seq)] is [k:]
        if isinstance(x, ast.Name):
            return (x.id, 0)
        if index_text(x):
            return ("@" + index_text(x), 0)
        if isinstance(x, ast.BinOp) and isinstance(x.op, ast.Add) and isinstance(x.right, ast.Constant) and bound(x.left) not in (None, ("?", 0)):
            return (bound(x.left)[0], x.right.value)
        return ("?", 0)

    slices = {c[1]: (bound(c[2].lower, c[4]), bound(c[2].upper, c[4], True)) for c in calls}
    want = {"_read_file_metadata", "_read_file_timing_points", "_read_file_hit_objects"}
    if set(slices) != want:
        return [R.undec("C01.R6", "sections", file, rfn.node.lineno, f"section readers found: {sorted(slices)}")]
    # which marker is which
    mk_tp = [v for v in names if "Timing" in idx[v][0]]
    mk_ho = [v for v in names if "HitObjects" in idx[v][0]]
    if not mk_tp or not mk_ho:
        return [R.undec("C01.R6", "sections", file, rfn.node.lineno, "marker variables not identified")]
    tp, ho = mk_tp[0], mk_ho[0]
    for v in (tp, ho):
        text, node = idx[v]
        if text in wtexts:
            insts.append(R.ok("C01.R6", f"marker:{text}", file, node.lineno, idiom="emitted by OsuMap.write"))
        else:
            insts.append(R.viol("C01.R6", f"marker:{text}", file, node.lineno,
                                f"reader indexes '{text}' but OsuMap.write never emits it", construct=text))
    if idx[tp][0] in wtexts and idx[ho][0] in wtexts:
        if wtexts.index(idx[tp][0]) < wtexts.index(idx[ho][0]):
            insts.append(R.ok("C01.R6", "marker.order", file, wfn.node.lineno, idiom="TimingPoints before HitObjects"))
        else:
            insts.append(R.viol("C01.R6", "marker.order", file, wfn.node.lineno,
                                "writer emits [HitObjects] before [TimingPoints]", construct="marker order"))
    meta_s, tp_s, ho_s = slices["_read_file_metadata"], slices["_read_file_timing_points"], slices["_read_file_hit_objects"]

    def okd(b, var):
        return b is not None and b[0] == var and b[1] in (0, 1)

    good = (meta_s[0] in (None,) or meta_s[0] == ("?", 0)) and meta_s[1] == (tp, 0) \
        and okd(tp_s[0], tp) and tp_s[1] == (ho, 0) and okd(ho_s[0], ho) and ho_s[1] is None
    c0 = calls[0][3]
    if good:
        insts.append(R.ok("C01.R6", "slices", file, c0.lineno, idiom="[:tp] [tp+d:ho] [ho+d:], d in {0,1}"))
    else:
        insts.append(R.viol("C01.R6", "slices", file, c0.lineno,
                            f"section slices meta={meta_s} timing={tp_s} objects={ho_s} drop or misroute lines",
                            construct=f"{meta_s} {tp_s} {ho_s}"))
    # metadata (key count) must be read before the hit objects
    order = [c[1] for c in calls]
    if order.index("_read_file_metadata") < order.index("_read_file_hit_objects"):
        insts.append(R.ok("C01.R6", "keys-before-objects", file, c0.lineno, idiom="metadata parsed before hit objects"))
    else:
        insts.append(R.viol("C01.R6", "keys-before-objects", file, c0.lineno,
                            "hit objects are parsed before the key count is known", construct="read order"))
    # reader and writer take the key count from the same field
    def keys_field(fn):
        for n in walk_no_nested(fn.node):
            if isinstance(n, ast.Call) and isinstance(n.func, ast.Name) and n.func.id == "int" and n.args and \
                    C.self_attr(n.args[0]):
                return C.self_attr(n.args[0]), n
        return None, None
    rk, rn = keys_field(M.fn(OSUMAP + "._read_file_hit_objects"))
    wk, wn = None, None
    for f_ in EM.helper_closure(M, wfn):
        if wk is None:
            wk, wn = keys_field(f_)
    if rk and wk:
        if rk == wk:
            insts.append(R.ok("C01.R6", "key-count-field", file, rn.lineno, idiom=f"both use int(self.{rk})"))
        else:
            insts.append(R.viol("C01.R6", "key-count-field", file, wn.lineno,
                                f"reader takes the key count from '{rk}', writer from '{wk}'",
                                construct=f"{rk} vs {wk}"))
    else:
        insts.append(R.undec("C01.R6", "key-count-field", file, wfn.node.lineno, "key count source not recognised"))
    return insts


# --------------------------------------------------------------------------- R7
def rule_r7(ctx) -> List[R.Inst]:
    M = ctx.M
    insts = []
    wfn = M.fn(OSUMAP + ".write")
    file = M.mods[wfn.mod].rel
    slots = list(M.map_slots(OSUMAP))
    written = set()
    for q in (OSUMAP + ".write", WRITE_META):
        for f_ in EM.helper_closure(M, M.fn(q)):
            for n in walk_no_nested(f_.node):
                a = C.self_attr(n)
                if a:
                    written.add(a)
    assigned = set()
    for q in (OSUMAP + "._read_file_timing_points", OSUMAP + "._read_file_hit_objects", READ_META):
        for n in walk_no_nested(M.fn(q).node):
            if isinstance(n, ast.Assign):
                for t in n.targets:
                    a = C.self_attr(t)
                    if a:
                        assigned.add(a)
    for s in slots + ["samples"]:
        if s in written and s in assigned:
            insts.append(R.ok("C01.R7", f"list:{s}", file, wfn.node.lineno, idiom="emitted by write and assigned by read"))
        else:
            side = "written" if s not in written else "read"
            insts.append(R.viol("C01.R7", f"list:{s}", file, wfn.node.lineno,
                                f"list '{s}' is never {side} by the osu codec", construct=f"{s} not {side}"))
    # each reader dict yields exactly the declared fields
    for name, cq in CODECS.items():
        ws, n, toks, wfn2, wret = writer_slots(ctx, cq)
        rs, rfn, dnode = reader_slots(ctx, cq, n)
        declared = set(M.item_fields(cq))
        got = set(rs)
        f2 = M.mods[rfn.mod].rel
        dn_ = dnode.targets[0].id if isinstance(dnode.targets[0], ast.Name) else None
        more = [x for x in ast.walk(rfn.node) if (isinstance(x, ast.Call) and isinstance(x.func, ast.Attribute) and x.func.attr == "update" and
                                                  isinstance(x.func.value, ast.Name) and x.func.value.id == dn_) or
                (isinstance(x, ast.Assign) and isinstance(x.targets[0], ast.Subscript) and isinstance(x.targets[0].value, ast.Name) and x.targets[0].value.id == dn_)]
        if got == declared:
            insts.append(R.ok("C01.R7", f"{name}.read-columns", f2, dnode.lineno, idiom="dict keys = declared fields"))
        elif more and got < declared:
            insts.append(R.undec("C01.R7", f"{name}.read-columns", f2, more[0].lineno,
                                 f"the field dict is completed by later statements ('{unparse(more[0])[:60]}'): which keys they add is not decided"))
        else:
            insts.append(R.viol("C01.R7", f"{name}.read-columns", f2, dnode.lineno,
                                f"read_string yields {sorted(got)}; declared fields are {sorted(declared)}",
                                construct=f"{name} missing={sorted(declared - got)} extra={sorted(got - declared)}"))
    return insts


def rule_r8(ctx) -> List[R.Inst]:
    """column <-> x: bucket / midpoint shapes over one playfield width (decides the k = 1..18 clause through a lemma)

    Lemma (frozen, elementary): with w = W/k and x = floor((c + 1/2) * w) for an integer column c in [0, k-1],
    x / w lies in (c + 1/2 - 1/w, c + 1/2], which is inside (c, c + 1) whenever w > 2; hence floor(x / w) = c for every
    key count k < W/2 (W = 512: k <= 255, in particular 1..18).  Conversely every x in [c*w, (c+1)*w) maps to c by
    definition of the floor bucket.  So the two shapes below imply x_axis_to_column(column_to_x_axis(c, k), k) = c."""
    from .. import sym
    M = ctx.M
    rid = "C01.R8"
    cls = "reamber.osu.OsuNoteMeta.OsuNoteMeta"
    insts = []
    fx = M.fn(cls + ".column_to_x_axis")
    fc = M.fn(cls + ".x_axis_to_column")
    file = M.mods[fx.mod].rel
    rx = [n for n in walk_no_nested(fx.node) if isinstance(n, ast.Return)]
    rc = [n for n in walk_no_nested(fc.node) if isinstance(n, ast.Return)]
    W = None
    # ---- x_axis_to_column: clamp(floor(x // (W / keys)), 0, keys - 1)
    key = "x->column:bucket"
    e = rc[0].value if len(rc) == 1 else None
    ok_c = False
    if isinstance(e, ast.Call) and call_name(e) == "max" and len(e.args) == 2:
        lo = [a for a in e.args if isinstance(a, ast.Constant)]
        inner = [a for a in e.args if not isinstance(a, ast.Constant)]
        if lo and lo[0].value == 0 and inner and isinstance(inner[0], ast.Call) and call_name(inner[0]) == "min" and len(inner[0].args) == 2:
            hi = [a for a in inner[0].args if sym.canon(a).same(sym.parse("keys - 1"))]
            core = [a for a in inner[0].args if a not in hi]
            if hi and core:
                b = core[0]
                while isinstance(b, ast.Call) and call_name(b) in ("int", "floor"):
                    b = b.args[0]
                xp = params_of(fc.node)[0]
                if isinstance(b, ast.BinOp) and isinstance(b.op, ast.FloorDiv) and isinstance(b.right, ast.Constant) and \
                        isinstance(b.right.value, (int, float)) and sym.canon(b.left).same(sym.parse(f"{xp} * keys")):
                    W = b.right.value          # x * keys // W: exact integer arithmetic
                    ok_c = True
                elif isinstance(b, ast.BinOp) and isinstance(b.op, ast.FloorDiv) and unparse(b.left) == xp:
                    inexact_quotient = isinstance(b.right, ast.BinOp) and isinstance(b.right.op, ast.Div)
                    r = sym.canon(b.right)
                    # r == W / keys for a numeric W: try the constant in the numerator over the coefficient of `keys`
                    if list(r.num) == [()] and len(r.den) == 1:
                        cand = r.num[()] / list(r.den.values())[0]
                        if r.same(sym.parse(f"({cand.numerator}/{cand.denominator}) / keys")):
                            W = cand if cand.denominator != 1 else cand.numerator
                            ok_c = True
    if ok_c and locals().get("inexact_quotient"):
        insts.append(R.viol(rid, key, file, rc[0].lineno,
                            f"the bucket is computed as x // ({W} / keys): the width {W}/keys is rounded to a float first, so for key counts "
                            f"that do not divide {W} an x exactly on a bucket edge falls into the bucket below (10K: {W}/10 = 51.2 is stored "
                            f"slightly high, 256 // 51.2 = 4, but x = 256 is the first x of column 5); x * keys // {W} is exact",
                            construct=unparse(e)))
    elif ok_c:
        insts.append(R.ok(rid, key, file, rc[0].lineno, idiom=f"clamp(floor(x * keys // {W}), 0, keys-1): floor bucket of width {W}/keys, exact"))
    else:
        insts.append(R.viol(rid, key, file, fc.node.lineno,
                            "x -> column must be the floor bucket floor(x / (W / keys)) clamped to 0..keys-1 (W the playfield width)",
                            construct=unparse(e) if e is not None else "no single return") if e is not None and
                     sym.only_modelled(ast.parse("0", mode="eval").body, set()) and isinstance(e, ast.Call) else
                     R.undec(rid, key, file, fc.node.lineno, "shape of x_axis_to_column not recognised"))
    # ---- column_to_x_axis: floor((column + 1/2) * W / keys)
    key = "column->x:midpoint"
    e = rx[0].value if len(rx) == 1 else None
    b = e
    rounding = []
    while isinstance(b, ast.Call) and call_name(b) in ("int", "floor", "round", "ceil"):
        rounding.append(call_name(b))
        b = b.args[0]
    if b is None or W is None:
        insts.append(R.undec(rid, key, file, fx.node.lineno, "shape of column_to_x_axis not recognised (or width unknown)"))
    else:
        col = params_of(fx.node)[0]
        if isinstance(b, ast.BinOp) and isinstance(b.op, ast.FloorDiv) and not rounding:
            # a // b keeps the operands' type: a float64 column (any chart that went through a stack write-back) gives 192.0
            as_div = ast.BinOp(left=b.left, op=ast.Div(), right=b.right)
            if sym.canon(as_div).same(sym.parse(f"({col} + 1/2) * {W} / keys")):
                insts.append(R.viol(rid, key, file, rx[0].lineno,
                                    f"'{unparse(b)}' is the right bucket midpoint but keeps the type of '{col}': after a rate change or a "
                                    f"stack edit the column is float64 and x is written as '192.0', which is not a valid hit-object "
                                    f"field (and does not parse back); wrap it in int()", construct=unparse(e)))
                return insts
        r = sym.canon(b)
        want = sym.parse(f"({col} + 1/2) * {W} / keys")
        if r.same(want) and set(rounding) <= {"int", "floor"} and rounding:
            insts.append(R.ok(rid, key, file, rx[0].lineno,
                              idiom=f"floor(({col} + 1/2) * {W}/keys): midpoint of the column's bucket, same width {W} (lemma: inverse for keys < {W / 2:g})"))
        elif r.symbols() <= {col, "keys"}:
            why = "rounds with " + "/".join(rounding) if not set(rounding) <= {"int", "floor"} else "is not the midpoint of the bucket of the same width"
            insts.append(R.viol(rid, key, file, rx[0].lineno,
                                f"column -> x must be floor((column + 1/2) * {W}/keys) — the midpoint of the bucket x_axis_to_column "
                                f"uses; this one {why}, so for some key count a column is written to an x that reads back as its "
                                f"neighbour", construct=unparse(e)))
        else:
            insts.append(R.undec(rid, key, file, rx[0].lineno, "formula not in modelled arithmetic"))
    return insts


def rule_dep(ctx):
    """obligations inherited from shared code reached through the call graph (sa/props/deps.py)"""
    from .deps import dep_insts
    return dep_insts(ctx, "C01", ["reamber.osu.OsuMap.OsuMap.read", "reamber.osu.OsuMap.OsuMap.write"], skip_groups=())


SPECS = [
    RuleSpec("C01.R1", rule_r1, 30, "A1", "metadata key table: reader and writer agree on key, field and inverse transform"),
    RuleSpec("C01.R2", rule_r2, 1, "A8", "metadata value is everything after the first ':'"),
    RuleSpec("C01.R3", rule_r3, 33, "A1", "slot coordinates of the five line codecs agree; optional trailing field read under a length test with the right bound; no separately truncated sum on a time slot"),
    RuleSpec("C01.R4", rule_r4, 2, "A7", "value<->code functions are involutions K/x with one K"),
    RuleSpec("C01.R5", rule_r5, 5, "A1", "line classifiers accept exactly the shapes the writers emit (they consult the separator counts and the flag slot only), pairwise exclusive"),
    RuleSpec("C01.R6", rule_r6, 6, "A8", "section markers, slice bounds and key-count order"),
    RuleSpec("C01.R7", rule_r7, 10, "A2", "every list is written and read; readers yield the declared columns"),
    RuleSpec("C01.R8", rule_r8, 2, "A7", "column <-> x are the floor bucket and its midpoint over one width (lemma: mutually inverse for keys < 256)"),
    RuleSpec("C01.D", rule_dep, 1, "M0", "rules of the shared code (timing engine, list classes, stacker) that the operations of this property reach"),
]

META = dict(
    explanation=(
        "Reader/writer table agreement (A1) for the .osu codec: the 30-key metadata table, the slot coordinates of "
        "the hit/hold/timing-point/SV/sample line codecs tokenised from the writers' f-strings against the indices "
        "the readers use, the line classifiers against the separators and flag literals the writers emit, the "
        "section markers and slice bounds, and list coverage.  Each rule instance holds for every input at once. The line classifiers consult the separator counts and the flag slot only (R5); an optional trailing field is read under a length test with the right bound, and no time slot is a sum of separately truncated terms (R3)."),
    not_decided="the <1 ms int() bound as a number, float text round-trip beyond 15 significant digits, storyboard / colour sections the model has no field for",
)
