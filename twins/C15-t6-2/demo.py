"""Demo for refactoring 2 (hitsound_copy): digest over a broad set of charts."""
import hashlib
import logging
import random
import sys
import warnings
from pathlib import Path

import numpy as np
import pandas as pd

from reamber.algorithms.osu.hitsound_copy import hitsound_copy
from reamber.osu import OsuMap
from reamber.osu.lists.OsuSampleList import OsuSampleList
from reamber.osu.lists.notes import OsuHitList, OsuHoldList

random.seed(1502)
np.random.seed(1502)
OUT = []


class Capture(logging.Handler):
    """The debug log of the routine is part of what is compared"""

    def emit(self, record):
        OUT.append(f"LOG {record.levelname} {record.getMessage()}")


hs_log = logging.getLogger("reamber.algorithms.osu.hitsound_copy")
hs_log.setLevel(logging.DEBUG)
hs_log.addHandler(Capture())
hs_log.propagate = False


def dump_df(tag, df):
    OUT.append(f"{tag} cols={list(df.columns)!r} dtypes={[str(t) for t in df.dtypes]!r}")
    OUT.append(f"{tag} index={df.index.tolist()!r}")
    OUT.append(f"{tag} values={df.values.tolist()!r}")


def dump_map(tag, m):
    for name, lst in m.objs.items():
        dump_df(f"{tag}.{name}", lst.df)
    dump_df(f"{tag}.samples", m.samples.df)


def run(tag, src, tgt):
    OUT.append(f"==== {tag}")
    with warnings.catch_warnings(record=True) as w:
        warnings.simplefilter("always")
        try:
            out = hitsound_copy(src, tgt)
        except Exception as e:  # noqa
            OUT.append(f"{tag} RAISED {type(e).__name__}")
        else:
            OUT.append(f"{tag} type={type(out).__name__} is_tgt={out is tgt}")
            dump_map(tag + ".out", out)
    OUT.append(f"{tag} warnings={sorted(x.category.__name__ for x in w)!r}")
    # neither argument may have been modified
    dump_map(tag + ".src_after", src)
    dump_map(tag + ".tgt_after", tgt)


def permuted(m, how):
    m = m.deepcopy()
    for name, lst in list(m.objs.items()):
        df = lst.df
        if how == "shuffle":
            df = df.sample(frac=1, random_state=random.randrange(10**6))
        elif how == "reverse":
            df = df.sort_values("offset", ascending=False, kind="stable")
        elif how == "shuffle_reset":
            df = df.sample(frac=1, random_state=random.randrange(10**6)).reset_index(drop=True)
        m.objs[name] = type(lst)(df)
    return m


HITSOUND_SETS = [0, 0, 0, 2, 4, 8, 6, 10, 12, 14, 1, 3, 15, 16, 31, 255, -1, -2, -8]
VOLUMES = [0, 0, 20, 20, 30, 40, 100, -5]
FILES = ["", "", "", "a.wav", "b.ogg", "clap.wav"]


def random_notes(n, keys, grid, span, sounded, with_length):
    d = dict(
        offset=[float(random.randrange(span) * grid) for _ in range(n)],
        column=[random.randrange(keys) for _ in range(n)],
    )
    if with_length:
        d["length"] = [float(random.choice([10, 100, 250])) for _ in range(n)]
    if sounded:
        d["hitsound_set"] = [random.choice(HITSOUND_SETS) for _ in range(n)]
        d["sample_set"] = [random.choice([0, 0, 1, 2]) for _ in range(n)]
        d["addition_set"] = [random.choice([0, 0, 0, 3]) for _ in range(n)]
        d["custom_set"] = [random.choice([0, 0, 0, 1]) for _ in range(n)]
        d["volume"] = [random.choice(VOLUMES) for _ in range(n)]
        d["hitsound_file"] = [random.choice(FILES) for _ in range(n)]
    return d


def random_map(n_hits, n_holds, keys, grid, span, sounded):
    m = OsuMap()
    m.circle_size = keys
    if n_hits:
        m.hits = OsuHitList.from_dict(random_notes(n_hits, keys, grid, span, sounded, False))
    if n_holds:
        m.holds = OsuHoldList.from_dict(random_notes(n_holds, keys, grid, span, sounded, True))
    return m


# ---- 1. generated charts: unsorted construction, many ties, sizes incl. empty
case = 0
sizes = [(0, 0), (1, 0), (0, 1), (3, 0), (0, 3), (6, 3), (25, 10), (60, 30)]
for s_hits, s_holds in sizes:
    for t_hits, t_holds in [(0, 0), (1, 0), (0, 2), (8, 0), (12, 6), (70, 20)]:
        case += 1
        keys = random.choice([1, 4, 7, 10])
        span = random.choice([3, 8, 20])
        src = random_map(s_hits, s_holds, keys, 100, span, True)
        # a target that carries sounds and samples of its own, which must be reset
        tgt = random_map(t_hits, t_holds, keys, 100, span, case % 2 == 0)
        if case % 3 == 0:
            tgt.samples = OsuSampleList.from_dict(dict(offset=[500.0, 0.0], sample_file=["x.wav", "y.wav"], volume=[10, 20]))
        run(f"gen{case}", src, tgt)
        if case % 4 == 0:
            # append without sort / concatenation on both sides
            src2 = src.deepcopy()
            src2.hits = src2.hits.append(src.hits.sorted(reverse=True))
            tgt2 = tgt.deepcopy()
            tgt2.hits = tgt2.hits.append(tgt.hits)
            tgt2.holds = tgt2.holds.append(tgt.holds.sorted(reverse=True))
            run(f"gen{case}.appended", src2, tgt2)
        if case % 5 == 0:
            run(f"gen{case}.self", src, src)

# ---- 2. silent source (nothing to copy), and source whose only sound is a file
src = random_map(10, 5, 4, 100, 8, False)
run("silent_src", src, random_map(10, 5, 4, 100, 8, True))
src = OsuMap()
src.hits = OsuHitList.from_dict(dict(offset=[300.0, 100.0, 100.0, 100.0], column=[0, 1, 2, 3],
                                     hitsound_file=["f.wav", "g.wav", "", "h.wav"], volume=[30, 10, 10, 30]))
tgt = OsuMap()
tgt.hits = OsuHitList.from_dict(dict(offset=[100.0, 300.0, 100.0], column=[0, 0, 1]))
run("files_only", src, tgt)
run("files_only.rev", permuted(src, "reverse"), permuted(tgt, "reverse"))
# float hitsound_set column (as left by arithmetic on the list)
src = random_map(12, 4, 4, 100, 5, True)
src.hits.df["hitsound_set"] = src.hits.df["hitsound_set"].astype(float)
run("float_hitsound_set", src, random_map(12, 4, 4, 100, 5, False))
# duplicated row labels
src = random_map(6, 3, 4, 100, 4, True)
src.hits = OsuHitList(pd.concat([src.hits.df, src.hits.df]))
tgt = random_map(6, 3, 4, 100, 4, False)
tgt.hits = OsuHitList(pd.concat([tgt.hits.df, tgt.hits.df]))
run("dup_labels", src, tgt)

# ---- 3. fixture charts in several row orders
HS = Path("tests/algorithm_tests/osu/hitsound_copy")
RSC = Path("rsc/maps/osu")
pairs = {
    "test": (OsuMap.read_file(HS / "source.osu"), OsuMap.read_file(HS / "target.osu")),
    "avenger": (OsuMap.read_file(RSC / "AvengerHitsoundable.osu"), OsuMap.read_file(RSC / "AvengerHitsoundFile.osu")),
    "avenger_back": (OsuMap.read_file(RSC / "AvengerHitsoundFile.osu"), OsuMap.read_file(RSC / "AvengerHitsoundable.osu")),
}
for name, (src, tgt) in pairs.items():
    run(f"fx.{name}", src, tgt)
    for how in ("shuffle", "reverse", "shuffle_reset"):
        run(f"fx.{name}.{how}", permuted(src, how), permuted(tgt, how))

text = "\n".join(OUT)
print("LINES", len(OUT), "RAISED", sum(" RAISED " in x for x in OUT), file=sys.stderr)
print("DIGEST", hashlib.sha256(text.encode("utf8")).hexdigest())
