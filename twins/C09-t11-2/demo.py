"""Demo for the QuaToOsu.convert refactoring (C09, change 2).

Generates .qua texts, reads them, converts to osu, writes the osu text and reads
it back.  Everything observable goes into a canonical text dump, of which the
sha256 is printed.
"""
import hashlib
import logging
import random
import sys
import warnings

import pandas as pd
import yaml

from reamber.algorithms.convert.QuaToOsu import QuaToOsu
from reamber.osu.OsuMap import OsuMap
from reamber.quaver.QuaBpm import QuaBpm
from reamber.quaver.QuaHit import QuaHit
from reamber.quaver.QuaHold import QuaHold
from reamber.quaver.QuaMap import QuaMap
from reamber.quaver.QuaSv import QuaSv
from reamber.quaver.lists.QuaBpmList import QuaBpmList
from reamber.quaver.lists.QuaSvList import QuaSvList
from reamber.quaver.lists.notes.QuaHitList import QuaHitList
from reamber.quaver.lists.notes.QuaHoldList import QuaHoldList

warnings.simplefilter("ignore")
logging.disable(logging.CRITICAL)
random.seed(20909)

OUT = []


def emit(*parts):
    OUT.append(" ".join(str(p) for p in parts))


# --------------------------------------------------------------------- dumping
def dump_df(tag, df: pd.DataFrame):
    emit(tag, "type", type(df).__name__, "shape", df.shape)
    emit(tag, "columns", list(df.columns))
    emit(tag, "dtypes", [str(t) for t in df.dtypes])
    emit(tag, "index", type(df.index).__name__, [repr(i) for i in df.index.tolist()])
    for c in df.columns:
        emit(tag, "col", c, [repr(v) for v in df[c].tolist()])


def dump_obj(tag, obj):
    """Dumps a Map: class, every plain attribute, every list"""
    emit(tag, "class", type(obj).__module__, type(obj).__name__)
    for k in sorted(vars(obj)):
        v = vars(obj)[k]
        if k == "objs":
            emit(tag, "objs-keys", list(v.keys()))
            for name, lst in v.items():
                emit(tag, "list", name, type(lst).__name__)
                dump_df(f"{tag}.{name}", lst.df)
        elif hasattr(v, "df"):
            emit(tag, "attr-list", k, type(v).__name__)
            dump_df(f"{tag}.{k}", v.df)
        else:
            emit(tag, "attr", k, type(v).__name__, repr(v))


# ---------------------------------------------------------------- qua generator
TIMES = [-1500, -1, 0, 0, 1, 250, 333, 1000, 1000, 1000.5, 59999, 60000, 3600000]
TITLES = ["", "Song", "タイトル ～名前～", "a: b, c | d", "  padded  ", "12345", "Ünïcödé"]
MODES = ["Keys4", "Keys7", "Keys4", "Keys7", "Keys8", None, "Keys7", "Keys4", "Keys5", "Keys4", "", "Keys7", "Keys8"]


def gen_qua(case):
    mode = MODES[case % len(MODES)]
    keys = {"Keys4": 4, "Keys7": 7, "Keys8": 8}.get(mode, 4)
    d = {}
    if mode is not None:
        d["Mode"] = mode
    if random.random() < 0.8:
        d["AudioFile"] = random.choice(["audio.mp3", "a b.ogg", "", "音.mp3"])
    if random.random() < 0.8:
        d["SongPreviewTime"] = random.choice([0, -1, 12345, 999999])
    if random.random() < 0.8:
        d["BackgroundFile"] = random.choice(["bg.jpg", "", 'b"g.png', "背景.png"])
    if random.random() < 0.9:
        d["Title"] = random.choice(TITLES)
    if random.random() < 0.9:
        d["Artist"] = random.choice(TITLES)
    if random.random() < 0.8:
        d["Creator"] = random.choice(["", "mapper", "some one", "12"])
    if random.random() < 0.8:
        d["DifficultyName"] = random.choice(["", "Hard", "Lv. 20", "难"])
    r = random.random()
    if r < 0.3:
        d["Tags"] = "one two  three"
    elif r < 0.5:
        d["Tags"] = ""
    elif r < 0.6:
        d["Tags"] = None
    elif r < 0.7:
        d["Tags"] = 2020
    d["MapId"] = random.choice([-1, 7, 123456])
    d["BPMDoesNotAffectScrollVelocity"] = random.random() < 0.5

    n_bpm = random.choice([0, 1, 1, 2, 5])
    n_sv = random.choice([0, 0, 1, 3, 8])
    n_hit = random.choice([0, 0, 1, 4, 12, 30])
    n_hold = random.choice([0, 0, 1, 3, 10])
    if case % 9 == 4:
        n_bpm = n_sv = n_hit = n_hold = 0

    bpms = []
    for _ in range(n_bpm):
        b = {}
        if random.random() < 0.9:
            b["StartTime"] = random.choice(TIMES)
        if random.random() < 0.9:
            b["Bpm"] = random.choice([0.001, 60, 120, 120, 147.25, 999, 100000, -120])
        bpms.append(b)
    svs = []
    for _ in range(n_sv):
        s = {}
        if random.random() < 0.9:
            s["StartTime"] = random.choice(TIMES)
        if random.random() < 0.9:
            s["Multiplier"] = random.choice([0.01, 0.5, 1, 1.0, 2.75, 10, -1])
        svs.append(s)
    notes = []
    for _ in range(n_hit):
        n = {}
        if random.random() < 0.95:
            n["StartTime"] = random.choice(TIMES)
        n["Lane"] = random.randrange(1, keys + 1)
        if random.random() < 0.3:
            n["KeySounds"] = random.choice([[], [{"Sample": 1, "Volume": 50}]])
        notes.append(n)
    for _ in range(n_hold):
        n = {}
        if random.random() < 0.95:
            n["StartTime"] = random.choice(TIMES)
        n["Lane"] = random.randrange(1, keys + 1)
        n["EndTime"] = n.get("StartTime", 0) + random.choice([0, 1, 100, 2500.5, -10])
        if random.random() < 0.3:
            n["KeySounds"] = []
        notes.append(n)
    if case % 2:
        random.shuffle(notes)  # unsorted rows, hits and holds interleaved
    if case % 4 != 3:
        bpms.sort(key=lambda b: b.get("StartTime", 0))

    if bpms or random.random() < 0.5:
        d["TimingPoints"] = bpms
    if svs or random.random() < 0.5:
        d["SliderVelocities"] = svs
    if notes or random.random() < 0.5:
        d["HitObjects"] = notes
    return yaml.safe_dump(d, allow_unicode=True, sort_keys=False)


# ------------------------------------------------------------------- the runs
def run(tag, make_map):
    try:
        qua = make_map()
    except Exception as e:  # reading is not what is under test, but record it
        emit(tag, "READ-RAISED", type(e).__name__)
        return
    try:
        osu = QuaToOsu.convert(qua)
    except Exception as e:
        emit(tag, "CONVERT-RAISED", type(e).__name__, repr(str(e)))
        dump_obj(tag + ".input-after", qua)
        return
    t = tag + ".osu"
    dump_obj(t, osu)
    for name in ("hits", "holds", "bpms", "svs"):
        emit(t, "shares-df", name, getattr(osu, name).df is getattr(qua, name).df)
    emit(t, "shares-tags", osu.tags is qua.tags, osu.tags == qua.tags)
    try:
        lines = osu.write()
        emit(t, "written", len(lines))
        for ln in lines:
            emit(t, "line", repr(ln))
    except Exception as e:
        emit(t, "WRITE-RAISED", type(e).__name__)
    else:
        try:
            back = OsuMap.read("\n".join(lines).split("\n"))
            dump_obj(t + ".reread", back)
        except Exception as e:
            emit(t, "REREAD-RAISED", type(e).__name__)
    # mutating the result must not reach the source
    try:
        osu.tags.append("MUTATED")
        if len(osu.hits):
            osu.hits.offset += 1
    except Exception as e:
        emit(t, "MUTATE-RAISED", type(e).__name__)
    dump_obj(tag + ".input-after", qua)


def main():
    # 1. generated .qua files, read from a string and from a list of lines
    for case in range(64):
        text = gen_qua(case)
        if case % 2:
            run(f"qua{case}", lambda text=text: QuaMap.read(text))
        else:
            run(f"qua{case}", lambda text=text: QuaMap.read(text.split("\n")))

    # 2. hand-built maps: edge cases for the lists and the metadata
    def hand_map(hits, holds, bpms, svs, **meta):
        m = QuaMap()
        m.hits, m.holds = QuaHitList(hits), QuaHoldList(holds)
        m.bpms, m.svs = QuaBpmList(bpms), QuaSvList(svs)
        for k, v in meta.items():
            setattr(m, k, v)
        return m

    def odd_labels():
        m = hand_map(
            [QuaHit(offset=o, column=c, keysounds=[]) for o, c in [(300, 0), (100, 3), (100, 3), (200, 1)]],
            [QuaHold(offset=o, column=c, length=l, keysounds=[]) for o, c, l in [(50, 2, 10), (0, 0, 0)]],
            [QuaBpm(offset=0, bpm=120), QuaBpm(offset=0, bpm=240)],
            [QuaSv(offset=5, multiplier=2.0)],
            title="labels",
        )
        m.hits.df = m.hits.df.set_axis([10, 10, 7, -3])  # duplicated, unordered labels
        m.holds.df = m.holds.df.set_axis(["b", "a"])
        return m

    hand = {
        "default": lambda: QuaMap(),
        "only-meta": lambda: hand_map([], [], [], [], title="T", artist="A", creator="C",
                                      difficulty_name="D", audio_file="a.mp3",
                                      background_file="b.png", song_preview_time=77,
                                      tags=["x", "y"], mode="Keys7"),
        "tags-tuple": lambda: hand_map([], [], [QuaBpm(offset=0, bpm=100)], [],
                                       tags=("p", "q")),
        "tags-str": lambda: hand_map([], [], [QuaBpm(offset=0, bpm=100)], [], tags="abc"),
        "tags-none": lambda: hand_map([], [], [], [], tags=None),
        "tags-int": lambda: hand_map([QuaHit(offset=1, column=1, keysounds=[])], [], [], [], tags=5),
        "mode-unknown": lambda: hand_map([QuaHit(offset=1, column=0, keysounds=[])], [],
                                         [QuaBpm(offset=0, bpm=100)], [], mode="Keys9"),
        "mode-none": lambda: hand_map([], [], [], [], mode=None),
        "keys8": lambda: hand_map([QuaHit(offset=i * 10, column=i, keysounds=[]) for i in range(8)], [],
                                  [QuaBpm(offset=0, bpm=100)], [], mode="Keys8"),
        "float-preview": lambda: hand_map([], [], [], [], song_preview_time=12.75),
        "odd-labels": odd_labels,
        "negative": lambda: hand_map([QuaHit(offset=-5.5, column=0, keysounds=[])],
                                     [QuaHold(offset=-9, column=1, length=-2, keysounds=[])],
                                     [QuaBpm(offset=-100, bpm=-60)],
                                     [QuaSv(offset=-1, multiplier=-1)]),
    }
    for name, make in hand.items():
        run("hand:" + name, make)

    text = "\n".join(OUT)
    print("DIGEST", hashlib.sha256(text.encode("utf-8")).hexdigest())
    stats = {k: sum(1 for o in OUT if k in o) for k in
             ("READ-RAISED", "CONVERT-RAISED", "WRITE-RAISED", "REREAD-RAISED", "MUTATE-RAISED")}
    print("lines", len(OUT), stats, file=sys.stderr)


if __name__ == "__main__":
    main()
