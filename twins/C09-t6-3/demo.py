"""Demo for refactoring 3: BMSMap._write_notes builds each line without iterrows.

Exercises BMSMap.write / write_file (whose body is _write_notes) on
 * generated BMS files (read -> write -> read back): several channel layouts,
   divisions, long notes, time signatures, tempo changes,
 * charts converted to BMS from osu, Quaver, StepMania and O2Jam sources,
 * hand-edited maps: empty lists, objects sharing one slot of a line (ties),
   unsorted rows, foreign row labels, float / negative / NaN times,
   other channel configs and default sample bytes.
Everything observable is digested, including the map before and after write().
"""
import hashlib
import logging
import os
import random
import tempfile
import warnings
from pathlib import Path

import numpy as np
import pandas as pd

warnings.filterwarnings("ignore")
logging.disable(logging.CRITICAL)

from reamber.algorithms.convert import (  # noqa: E402
    O2JToBMS, OsuToBMS, OsuToQua, OsuToSM, QuaToBMS, SMToBMS,
)
from reamber.bms.BMSChannel import BMSChannel  # noqa: E402
from reamber.bms.BMSMap import BMSMap  # noqa: E402
from reamber.o2jam.O2JMapSet import O2JMapSet  # noqa: E402
from reamber.osu.OsuMap import OsuMap  # noqa: E402
from reamber.quaver.QuaMap import QuaMap  # noqa: E402
from reamber.sm.SMMapSet import SMMapSet  # noqa: E402

OUT = []


def emit(*parts):
    OUT.append(" ".join(str(p) for p in parts))


def dump_df(tag, df: pd.DataFrame):
    emit(tag, "cols", list(df.columns))
    emit(tag, "dtypes", [str(t) for t in df.dtypes])
    emit(tag, "index", type(df.index).__name__, list(df.index))
    for row in df.itertuples(index=False, name=None):
        emit(tag, "row", [repr(v) for v in row])


def dump_bms(tag, m: BMSMap):
    emit(tag, "meta", repr(m.title), repr(m.artist), repr(m.version), repr(m.ln_end_channel),
         repr(sorted(m.samples.items())), repr(sorted(m.exbpms.items())),
         repr(sorted(m.misc.items())) if isinstance(m.misc, dict) else repr(m.misc))
    for name in ("hits", "holds", "bpms"):
        tl = getattr(m, name)
        emit(tag, name, type(tl).__name__)
        dump_df(f"{tag}.{name}", tl.df)


def check_write(tag, m: BMSMap, read_back=True, **kw):
    dump_bms(tag + ".before", m)
    cfg = kw.get("note_channel_config", BMSChannel.BME)
    cfg_before = repr(cfg)
    data = None
    try:
        data = m.write(**kw)
        emit(tag, "write ->", type(data).__name__, len(data))
        for i, line in enumerate(data.split(b"\r\n")):
            emit(tag, "L", i, repr(line))
    except Exception as e:  # noqa
        emit(tag, "write raised", type(e).__name__)
    dump_bms(tag + ".after", m)
    emit(tag, "config untouched", repr(cfg) == cfg_before)
    try:
        body = m._write_notes(cfg, kw.get("no_sample_default", b"01"))
        emit(tag, "_write_notes ->", type(body).__name__, hashlib.sha256(body).hexdigest(),
             data is not None and data.endswith(body))
    except Exception as e:  # noqa
        emit(tag, "_write_notes raised", type(e).__name__)
    with tempfile.TemporaryDirectory() as d:
        p = Path(d) / "out.bms"
        try:
            r = m.write_file(p, **kw)
            emit(tag, "write_file ->", repr(r), hashlib.sha256(p.read_bytes()).hexdigest())
        except Exception as e:  # noqa
            emit(tag, "write_file raised", type(e).__name__)
        if read_back and p.exists():
            try:
                back = BMSMap.read_file(p, note_channel_config=cfg)
                dump_bms(tag + ".back", back)
            except Exception as e:  # noqa
                emit(tag, "read back raised", type(e).__name__)


# --------------------------------------------------------------------------- #
# generators
# --------------------------------------------------------------------------- #
B36 = "0123456789ABCDEFGHIJKLMNOPQRSTUVWXYZ"


def b36(n):
    return B36[n // 36] + B36[n % 36]


def gen_bms(rnd: random.Random, config, n_measures, n_cols, *, ln=True, time_sig=False,
            bpm_changes=0, exbpm=False, n_wav=6, divs=(1, 2, 3, 4, 6, 8, 12, 16), density=0.4,
            title="Gen BMS"):
    note_channels = sorted((c for c, v in config.items() if isinstance(v, int)),
                           key=lambda c: config[c])[:n_cols]
    head = ["*---- HEADER", "#PLAYER 1", "#GENRE gen", f"#TITLE {title}", "#ARTIST some one",
            f"#BPM {rnd.choice([60, 120, 148, 150.5, 200])}", "#PLAYLEVEL 7", "#RANK 3"]
    if ln:
        head.append("#LNOBJ ZZ")
    wavs = [b36(i + 1) for i in range(n_wav)]
    for w in wavs:
        head.append(f"#WAV{w} s{w}.wav")
    exb = []
    if exbpm:
        for i in range(3):
            exb.append(b36(i + 1))
            head.append(f"#BPM{b36(i + 1)} {rnd.choice([90.5, 133.33, 256.125, 75])}")
    body = []
    open_ln = {c: False for c in note_channels}
    for m in range(n_measures):
        if time_sig and rnd.random() < 0.4:
            body.append(f"#{m:03}02:{rnd.choice([0.5, 0.75, 1.25, 1.5, 2])}")
        if bpm_changes and rnd.random() < bpm_changes:
            d = rnd.choice([1, 2, 4])
            seq = [format(rnd.choice([60, 90, 120, 180, 240]), "02X") if rnd.random() < 0.5 else "00"
                   for _ in range(d)]
            if any(s != "00" for s in seq):
                body.append(f"#{m:03}03:{''.join(seq)}")
        if exb and rnd.random() < 0.3:
            d = rnd.choice([1, 2, 4])
            seq = [rnd.choice(exb) if rnd.random() < 0.5 else "00" for _ in range(d)]
            if any(s != "00" for s in seq):
                body.append(f"#{m:03}08:{''.join(seq)}")
        for c in note_channels:
            if rnd.random() < 0.35:
                continue
            d = rnd.choice(divs)
            seq = []
            for _ in range(d):
                if rnd.random() > density:
                    seq.append("00")
                elif ln and open_ln[c]:
                    seq.append("ZZ")
                    open_ln[c] = False
                else:
                    seq.append(rnd.choice(wavs) if wavs else "01")
                    # the next object of this column may close it as a long note
                    open_ln[c] = ln and rnd.random() < 0.3
            if any(s != "00" for s in seq):
                body.append(f"#{m:03}{c.decode()}:{''.join(seq)}")
    return [*head, "", "*---- MAIN", *body, ""]


def x_axis(col, keys):
    return int((512.0 * col + 256.0) // keys)


def gen_osu(rnd: random.Random, keys, n_hits, n_holds, n_bpms, grid=True):
    head = [
        "osu file format v14", "", "[General]", "AudioFilename: audio.mp3", "Mode: 3", "",
        "[Metadata]", "Title:Osu src", "TitleUnicode:Osu src", "Artist:Art", "ArtistUnicode:Art",
        "Creator:me", f"Version:{keys}K", "", "[Difficulty]", f"CircleSize:{keys}", "",
        "[Events]", "//Background and Video events", '0,0,"bg.jpg",0,0',
    ]
    tps, t = [], 0
    bpms = []
    for i in range(n_bpms):
        bpm = rnd.choice([60, 120, 150, 200, 240])
        bpms.append((t, bpm))
        tps.append(f"{t},{60000 / bpm},4,1,0,50,1,0")
        t += int(60000 / bpm * 4 * rnd.randrange(1, 4))
    objs = []
    t0, bpm0 = bpms[0] if bpms else (0, 120)
    for i in range(n_hits + n_holds):
        if grid:  # on a 1/4 or 1/3 grid of the first tempo, inside its section
            span = (bpms[1][0] - t0) if len(bpms) > 1 else 8000
            beat = 60000 / bpm0
            n = int(span / beat)
            tt = t0 + beat * rnd.randrange(0, max(n, 1)) + beat * rnd.choice([0, 0.25, 0.5, 0.75, 1 / 3])
        else:
            tt = rnd.randrange(0, 8000)
        tt = int(tt)
        c = rnd.randrange(keys)
        if i < n_hits:
            objs.append((tt, f"{x_axis(c, keys)},192,{tt},1,0,0:0:0:0:"))
        else:
            objs.append((tt, f"{x_axis(c, keys)},192,{tt},128,0,{tt + rnd.choice([125, 250, 500, 1000])}:0:0:0:0:"))
    objs.sort(key=lambda x: x[0])
    return [*head, "", "[TimingPoints]", *tps, "", "", "[HitObjects]", *[o[1] for o in objs], ""]


def main():
    rnd = random.Random(3009)
    random.seed(3009)
    np.random.seed(3009)

    # ---- 1. generated BMS files --------------------------------------------- #
    cases = [
        ("bme-plain", BMSChannel.BME, dict(n_measures=4, n_cols=8)),
        ("bme-16cols", BMSChannel.BME, dict(n_measures=3, n_cols=16)),
        ("bme-1col", BMSChannel.BME, dict(n_measures=4, n_cols=1)),
        ("bme-no-ln", BMSChannel.BME, dict(n_measures=4, n_cols=8, ln=False)),
        ("bme-timesig", BMSChannel.BME, dict(n_measures=5, n_cols=8, time_sig=True)),
        ("bme-bpm", BMSChannel.BME, dict(n_measures=5, n_cols=8, bpm_changes=0.6)),
        ("bme-exbpm", BMSChannel.BME, dict(n_measures=5, n_cols=8, exbpm=True)),
        ("bme-all", BMSChannel.BME, dict(n_measures=6, n_cols=8, time_sig=True, bpm_changes=0.5, exbpm=True)),
        ("bme-no-notes", BMSChannel.BME, dict(n_measures=0, n_cols=8)),
        ("bme-no-wav", BMSChannel.BME, dict(n_measures=3, n_cols=8, n_wav=0)),
        ("bme-dense", BMSChannel.BME, dict(n_measures=3, n_cols=8, density=0.95)),
        ("bme-odd-divs", BMSChannel.BME, dict(n_measures=4, n_cols=6, divs=(5, 7, 9, 10, 11, 24, 48))),
        ("bme-title", BMSChannel.BME, dict(n_measures=2, n_cols=4, title="日本語 title: x")),
        ("bms-plain", BMSChannel.BMS, dict(n_measures=4, n_cols=14)),
        ("pms-plain", BMSChannel.PMS, dict(n_measures=4, n_cols=9, time_sig=True)),
        ("pmsbme-plain", BMSChannel.PMS_BME, dict(n_measures=3, n_cols=18, bpm_changes=0.4)),
        ("pms5b-plain", BMSChannel.PMS_5B, dict(n_measures=3, n_cols=5)),
    ]
    for i in range(16):
        cfg_name = rnd.choice(["BME", "BME", "BMS", "PMS"])
        cfg = getattr(BMSChannel, cfg_name)
        cases.append((f"rnd{i}-{cfg_name}", cfg, dict(
            n_measures=rnd.randrange(1, 7), n_cols=rnd.randrange(1, 10), ln=rnd.random() < 0.7,
            time_sig=rnd.random() < 0.4, bpm_changes=rnd.choice([0, 0, 0.3, 0.7]),
            exbpm=rnd.random() < 0.3, density=rnd.choice([0.2, 0.4, 0.7]))))
    generated = {}
    for name, cfg, kw in cases:
        lines = gen_bms(rnd, cfg, **kw)
        emit(name, "src sha", hashlib.sha256("\n".join(lines).encode()).hexdigest())
        try:
            m = BMSMap.read(lines, note_channel_config=cfg)
        except Exception as e:  # noqa
            emit(name, "read raised", type(e).__name__)
            continue
        generated[name] = (lines, cfg)
        check_write(name, m, note_channel_config=cfg)

    # other sample default / config than the one read with
    lines, cfg = generated["bme-plain"]
    check_write("bme-plain-default-ZY", BMSMap.read(lines), no_sample_default=b"ZY")
    lines, cfg = generated["pms-plain"]
    check_write("pms-as-bme", BMSMap.read(lines, note_channel_config=BMSChannel.PMS))
    lines, cfg = generated["bme-16cols"]
    check_write("bme16-as-pms", BMSMap.read(lines), note_channel_config=BMSChannel.PMS)  # KeyError

    # ---- 2. converted charts reach the writer ------------------------------- #
    for i, (keys, nh, nl, nb, grid) in enumerate([
        (4, 12, 4, 1, True), (7, 20, 8, 1, True), (7, 20, 8, 2, True), (8, 10, 10, 1, True),
        (4, 0, 6, 1, True), (4, 6, 0, 1, True), (4, 0, 0, 1, True), (5, 8, 3, 3, True),
        (4, 10, 5, 1, False), (7, 14, 6, 2, False), (1, 5, 2, 1, True), (10, 12, 5, 1, True),
    ]):
        name = f"osu{i}-{keys}k"
        osu_lines = gen_osu(rnd, keys, nh, nl, nb, grid)
        emit(name, "src sha", hashlib.sha256("\n".join(osu_lines).encode()).hexdigest())
        try:
            src = OsuMap.read(osu_lines)
            check_write(name + ".osu", OsuToBMS.convert(src))
            if i % 3 == 0:
                check_write(name + ".osu-right1", OsuToBMS.convert(src, move_right_by=1))
        except Exception as e:  # noqa
            emit(name, "osu raised", type(e).__name__)
        try:
            q = QuaMap.read(OsuToQua.convert(src).write().split("\n"))
            check_write(name + ".qua", QuaToBMS.convert(q))
        except Exception as e:  # noqa
            emit(name, "qua raised", type(e).__name__)
        try:
            sms = SMMapSet.read(OsuToSM.convert(src).write())
            for j, b in enumerate(SMToBMS.convert(sms)):
                check_write(f"{name}.sm{j}", b)
        except Exception as e:  # noqa
            emit(name, "sm raised", type(e).__name__)

    try:
        for j, b in enumerate(O2JToBMS.convert(O2JMapSet.read_file("rsc/maps/o2jam/o2ma178.ojn"))):
            if j == 0:
                check_write(f"real-o2j{j}", b, read_back=False)
    except Exception as e:  # noqa
        emit("real-o2j raised", type(e).__name__)
    try:
        for j, b in enumerate(SMToBMS.convert(SMMapSet.read_file("rsc/maps/sm/Escapes.sm"))):
            if j == 0:
                check_write(f"real-sm{j}", b, read_back=False)
    except Exception as e:  # noqa
        emit("real-sm raised", type(e).__name__)

    # ---- 3. edited maps ------------------------------------------------------ #
    def base(seed=11, **kw):
        d = dict(n_measures=4, n_cols=8, time_sig=False)
        d.update(kw)
        return BMSMap.read(gen_bms(random.Random(seed), BMSChannel.BME, **d))

    m = base()
    for tl in (m.hits, m.holds):
        df = tl.df.iloc[::-1].copy()
        df.index = [5 * i + 2 for i in range(len(df))]
        tl.df = df
    check_write("edit-reversed-foreign-labels", m)

    m = base()
    m.hits.offset += 0.4
    m.holds.offset += 0.3
    check_write("edit-float-times", m)

    m = base()
    m.hits.offset += 7.77
    m.holds.length += 3.3
    check_write("edit-float-times-2", m)

    # ties: objects of one column on one time share one slot of one line; the last row wins
    m = base(seed=12, density=0.8)
    h = m.hits.df.copy()
    h["column"] = 2
    h["offset"] = [h["offset"].iloc[0] if i % 2 else v for i, v in enumerate(h["offset"])]
    m.hits.df = h
    check_write("edit-ties-same-slot", m)

    m = base(seed=13)
    hd = m.holds.df.copy()
    if len(hd):
        h = m.hits.df.copy()
        n = min(len(h), len(hd))
        h.loc[h.index[:n], "offset"] = (hd["offset"] + hd["length"]).to_numpy()[:n]
        h.loc[h.index[:n], "column"] = hd["column"].to_numpy()[:n]
        m.hits.df = h
    check_write("edit-hit-on-ln-tail", m)

    m = base(seed=14)
    m.hits.offset -= 5000
    check_write("edit-negative-hits", m)

    m = base(seed=15)
    off = m.hits.offset.copy()
    off.iloc[1] = np.nan
    m.hits.offset = off
    check_write("edit-nan-offset", m)

    m = base(seed=16)
    b = m.bpms.df.copy()
    b["metronome"] = 3.0
    m.bpms.df = b
    check_write("edit-metronome-3", m)

    m = base(seed=17, bpm_changes=0.8, n_measures=6)
    b = m.bpms.df.copy()
    b["metronome"] = [rnd.choice([4.0, 3.0, 5.0, 6.0]) for _ in range(len(b))]
    m.bpms.df = b
    check_write("edit-metronome-mixed", m)

    m = base(seed=18)
    m.hits.column += 20  # not in the channel layout
    check_write("edit-column-out-of-config", m)

    m = base(seed=19)
    m.ln_end_channel = b""
    check_write("edit-no-lnobj", m)

    m = base(seed=20)
    m.hits = m.hits[:0]
    m.holds = m.holds[:0]
    check_write("edit-emptied", m)

    try:
        check_write("default-map", BMSMap())
    except Exception as e:  # noqa
        emit("default-map raised", type(e).__name__)

    m = base(seed=21, n_measures=5, bpm_changes=0.5)
    m2 = m.rate(1.25)
    check_write("rated", m2)
    check_write("rated-source", m)

    if os.environ.get("DEMO_DUMP"):
        Path(os.environ["DEMO_DUMP"]).write_text("\n".join(OUT), encoding="utf8")
    print("DIGEST", hashlib.sha256("\n".join(OUT).encode("utf8")).hexdigest())


if __name__ == "__main__":
    main()
