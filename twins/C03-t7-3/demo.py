"""Demo / differential digest for property C03 (StepMania writing).

Run from inside the worktree:
    cd /tmp/wt7/C03 && PYTHONPATH=/tmp/wt7/C03 /venv/bin/python demo.py

Prints one line `DIGEST <sha256>` over a canonical dump of everything the SM
write / read pipeline produced for a broad, seeded set of generated mapsets
(values, dtypes, column order, row labels, exception types, the inputs after
the call, the log records emitted).
"""
from __future__ import annotations

import dataclasses
import hashlib
import logging
import random
import sys
import warnings
from fractions import Fraction
from pathlib import Path

import numpy as np
import pandas as pd

warnings.filterwarnings("ignore")

FOCUS = 3  # this demo: common pipeline + the section aimed at refactoring 3

import reamber  # noqa: E402
from reamber.algorithms.timing.TimingMap import TimingMap  # noqa: E402
from reamber.algorithms.timing.utils.BpmChangeOffset import BpmChangeOffset  # noqa: E402
from reamber.algorithms.timing.utils.BpmChangeSnap import BpmChangeSnap  # noqa: E402
from reamber.algorithms.timing.utils.Snapper import Snapper, snap as snap_fn  # noqa: E402
from reamber.algorithms.timing.utils.snap import Snap  # noqa: E402
from reamber.base.lists.TimedList import TimedList  # noqa: E402
from reamber.sm.SMBpm import SMBpm  # noqa: E402
from reamber.sm.SMHit import SMHit  # noqa: E402
from reamber.sm.SMHold import SMHold  # noqa: E402
from reamber.sm.SMMap import SMMap  # noqa: E402
from reamber.sm.SMMapSet import SMMapSet  # noqa: E402
from reamber.sm.SMMapSetMeta import SMMapSetMeta  # noqa: E402
from reamber.sm.SMMapMeta import SMMapMeta  # noqa: E402
from reamber.sm.SMStop import SMStop  # noqa: E402
from reamber.sm.lists.SMBpmList import SMBpmList  # noqa: E402
from reamber.sm.lists.SMStopList import SMStopList  # noqa: E402
from reamber.sm.lists.notes import (  # noqa: E402
    SMHitList,
    SMHoldList,
    SMFakeList,
    SMLiftList,
    SMKeySoundList,
    SMMineList,
    SMRollList,
)

RSC = Path(reamber.__file__).resolve().parents[1] / "rsc" / "maps"

# --------------------------------------------------------------------------
# canonical dump
# --------------------------------------------------------------------------
OUT: list[str] = []
LOGS: list[str] = []


class _Collect(logging.Handler):
    def emit(self, record):
        LOGS.append(f"{record.levelname}:{record.getMessage()}")


_root = logging.getLogger()
_root.handlers[:] = [_Collect()]
_root.setLevel(logging.DEBUG)


def canon(v) -> str:
    if v is None:
        return "None"
    if isinstance(v, (bool, np.bool_)):
        return f"{type(v).__name__}:{bool(v)}"
    if isinstance(v, (int, np.integer)):
        return f"{type(v).__name__}:{int(v)}"
    if isinstance(v, (float, np.floating)):
        f = float(v)
        return f"{type(v).__name__}:{'nan' if f != f else f.hex()}"
    if isinstance(v, Fraction):
        return f"Fraction:{v.numerator}/{v.denominator}"
    if isinstance(v, str):
        return "str:" + repr(v)
    if isinstance(v, Snap):
        return f"Snap({canon(v.measure)},{canon(v.beat)},{canon(v.metronome)})"
    if isinstance(v, (BpmChangeSnap, BpmChangeOffset)):
        return (
            type(v).__name__
            + "("
            + ",".join(
                f"{f.name}={canon(getattr(v, f.name))}" for f in dataclasses.fields(v)
            )
            + ")"
        )
    if isinstance(v, np.ndarray):
        return f"ndarray<{v.dtype}>{v.shape}[" + ",".join(map(canon, v.tolist() if v.dtype != object else list(v))) + "]"
    if isinstance(v, (list, tuple)):
        return type(v).__name__ + "[" + ",".join(map(canon, v)) + "]"
    if isinstance(v, dict):
        return "dict{" + ",".join(f"{canon(k)}=>{canon(x)}" for k, x in v.items()) + "}"
    if isinstance(v, pd.DataFrame):
        return canon_df(v)
    if isinstance(v, pd.Series):
        return f"Series<{v.dtype}>[" + ",".join(f"{canon(i)}:{canon(x)}" for i, x in v.items()) + "]"
    if isinstance(v, TimedList):
        return type(v).__name__ + canon_df(v.df)
    if isinstance(v, TimingMap):
        return "TimingMap" + canon(v.bpm_changes_offset)
    return f"{type(v).__name__}:{v!r}"


def canon_df(df: pd.DataFrame) -> str:
    head = ";".join(f"{c}<{t}>" for c, t in zip(df.columns, df.dtypes))
    rows = "|".join(
        canon(i) + "=" + ",".join(canon(x) for x in row)
        for i, row in zip(df.index, df.itertuples(index=False, name=None))
    )
    return f"DF({head})[{rows}]"


LIST_ORDER = (
    "hits",
    "holds",
    "rolls",
    "mines",
    "lifts",
    "fakes",
    "keysounds",
    "bpms",
    "stops",
)


def canon_map(m: SMMap) -> str:
    meta = ",".join(
        f"{f.name}={canon(getattr(m, f.name))}" for f in dataclasses.fields(SMMapMeta)
    )
    lists = ";".join(f"{k}={canon(getattr(m, k))}" for k in LIST_ORDER)
    keys = ",".join(m.objs.keys())
    return f"SMMap<{meta}>({keys}){{{lists}}}"


def canon_mapset(ms: SMMapSet) -> str:
    meta = ",".join(
        f"{f.name}={canon(getattr(ms, f.name))}"
        for f in dataclasses.fields(SMMapSetMeta)
    )
    return f"SMMapSet<{meta}>[" + " || ".join(canon_map(m) for m in ms.maps) + "]"


def emit(tag: str, fn, *args, **kwargs):
    """Runs fn, records its result or the exception type; returns result."""
    n_logs = len(LOGS)
    try:
        res = fn(*args, **kwargs)
        if isinstance(res, SMMapSet):
            s = canon_mapset(res)
        elif isinstance(res, SMMap):
            s = canon_map(res)
        else:
            s = canon(res)
        OUT.append(f"{tag}\tOK\t{s}\tLOGS={LOGS[n_logs:]}")
        return res
    except Exception as e:  # noqa
        OUT.append(f"{tag}\tEXC\t{type(e).__name__}\tLOGS={LOGS[n_logs:]}")
        return None


# --------------------------------------------------------------------------
# generators
# --------------------------------------------------------------------------
BPMS = [60.0, 75.0, 90.0, 100.0, 120.0, 125.0, 150.0, 160.0, 180.0, 200.0, 240.0, 300.0, 133.33, 174.5]
CHARTS = [
    ("dance-single", 4),
    ("dance-double", 8),
    ("dance-solo", 6),
    ("dance-threepanel", 3),
    ("kb7-single", 7),
    ("dance-couple", 4),
    ("dance-routine", 8),
]
GRIDS = {
    "coarse": [1, 2, 4],
    "fine": [3, 4, 6, 8, 12, 16],
    "odd": [5, 7, 9],
    "huge": [32, 48, 64, 96],
    "mixed": [1, 2, 3, 4, 5, 6, 7, 8, 9, 12, 16, 32, 64, 96],
}
TEXTS = ["", "Escapes", "subtitle", "Draw the Emotional", "カラフル", "a b  c", "x-y_z.mp3", "bg.jpg", "Ünïcode"]


class Tempo:
    def __init__(self, offset0: float, pos: list[Fraction], bpms: list[float]):
        self.offset0, self.pos, self.bpms = offset0, pos, bpms
        acc = Fraction(offset0)
        self.exact = [acc]
        for i in range(1, len(pos)):
            acc += (pos[i] - pos[i - 1]) * Fraction(60000) / Fraction(bpms[i - 1])
            self.exact.append(acc)

    def offset(self, beat: Fraction) -> float:
        i = max(j for j in range(len(self.pos)) if self.pos[j] <= beat)
        return float(
            self.exact[i] + (beat - self.pos[i]) * Fraction(60000) / Fraction(self.bpms[i])
        )

    def bpm_list(self) -> SMBpmList:
        return SMBpmList(
            [SMBpm(float(e), b) for e, b in zip(self.exact, self.bpms)]
        )


def gen_tempo(rng: random.Random, on_measure: bool, n: int) -> Tempo:
    pos = [Fraction(0)]
    for _ in range(n - 1):
        if on_measure:
            step = Fraction(4 * rng.randint(1, 3))
        else:
            step = Fraction(rng.randint(1, 23), rng.choice([1, 2, 4]))
        pos.append(pos[-1] + step)
    offset0 = rng.choice([0.0, 100.0, -250.0, 635.0, 12.5, 1000.0])
    return Tempo(offset0, pos, [rng.choice(BPMS) for _ in range(n)])


def gen_map(
    rng: random.Random,
    tempo: Tempo,
    chart: tuple[str, int],
    grid: list[int],
    lead_empty: int,
    measures: int,
    density: int,
    ties: bool,
    shuffle: bool,
    via_items: bool,
    stops: list[tuple[Fraction, float]],
) -> SMMap:
    chart_type, keys = chart
    used = set()
    spans = {c: [] for c in range(keys)}  # long notes of a column never overlap
    start = Fraction(4 * lead_empty)

    def free(beat, col):
        return (beat, col) not in used and not any(
            h <= beat <= t for h, t in spans[col]
        )

    def cell():
        for _ in range(200):
            d = rng.choice(grid)
            beat = start + Fraction(rng.randrange(0, 4 * measures * d), d)
            col = rng.randrange(keys)
            if ties or free(beat, col):
                return beat, col
        return None

    def singles(n):
        rows = []
        for _ in range(n):
            c = cell()
            if c is None:
                continue
            beat, col = c
            used.add((beat, col))
            rows.append(dict(offset=tempo.offset(beat), column=col))
        return rows

    def longs(n):
        rows = []
        for _ in range(n):
            c = cell()
            if c is None:
                continue
            beat, col = c
            d = rng.choice(grid)
            tail = beat + Fraction(rng.randint(1, 3 * d), d)
            if not ties and (
                any(beat <= b <= tail for b, k in used if k == col)
                or any(not (t < beat or tail < h) for h, t in spans[col])
            ):
                continue
            spans[col].append((beat, tail))
            used.add((beat, col))
            used.add((tail, col))
            h, t = tempo.offset(beat), tempo.offset(tail)
            rows.append(dict(offset=h, column=col, length=t - h))
        return rows

    m = SMMap()
    spec = [
        ("holds", SMHoldList, longs, max(density // 3, 1)),
        ("rolls", SMRollList, longs, density // 4),
        ("hits", SMHitList, singles, density),
        ("mines", SMMineList, singles, density // 3),
        ("lifts", SMLiftList, singles, density // 4),
        ("fakes", SMFakeList, singles, density // 5),
        ("keysounds", SMKeySoundList, singles, density // 5),
    ]
    for name, cls, maker, n in spec:
        if rng.random() < 0.15:
            n = 0
        rows = maker(n)
        if not shuffle:
            rows.sort(key=lambda r: (r["offset"], r["column"]))
        if via_items and name == "hits" and rows:
            tl = SMHitList([SMHit(r["offset"], r["column"]) for r in rows])
        elif via_items and name == "holds" and rows:
            tl = SMHoldList([SMHold(r["offset"], r["column"], r["length"]) for r in rows])
        else:
            tl = cls.from_dict(rows)
        setattr(m, name, tl)
    m.bpms = tempo.bpm_list()
    if stops:
        m.stops = SMStopList([SMStop(tempo.offset(b), ln) for b, ln in stops])
    m.chart_type = chart_type
    m.description = rng.choice(TEXTS)
    m.difficulty = rng.choice(["Beginner", "Easy", "Medium", "Hard", "Challenge", "Edit"])
    m.difficulty_val = rng.randint(1, 20)
    m.groove_radar = [round(rng.random(), 3) for _ in range(5)]
    return m


def gen_mapset(rng: random.Random, idx: int) -> SMMapSet:
    on_measure = idx % 3 != 2
    tempo = gen_tempo(rng, on_measure, rng.choice([1, 1, 2, 3, 5]))
    grid = GRIDS[list(GRIDS)[idx % len(GRIDS)]]
    lead_empty = rng.choice([0, 0, 1, 3])
    measures = rng.choice([1, 2, 4, 7])
    ties = idx % 7 == 3
    shuffle = idx % 2 == 1
    via_items = idx % 5 == 4
    stops = []
    if idx % 6 == 5:
        stops = [
            (Fraction(4 * rng.randint(0, 6)), rng.choice([100.0, 250.0, 62.5]))
            for _ in range(rng.randint(1, 2))
        ]
    ms = SMMapSet()
    ms.maps = [
        gen_map(
            rng,
            tempo,
            CHARTS[(idx + k) % len(CHARTS)],
            grid,
            lead_empty,
            measures,
            rng.choice([0, 1, 3, 8, 20]),
            ties,
            shuffle,
            via_items,
            stops,
        )
        for k in range(rng.choice([1, 1, 2, 3]))
    ]
    ms.title = rng.choice(TEXTS)
    ms.subtitle = rng.choice(TEXTS)
    ms.artist = rng.choice(TEXTS)
    ms.title_translit = rng.choice(TEXTS)
    ms.subtitle_translit = rng.choice(TEXTS)
    ms.artist_translit = rng.choice(TEXTS)
    ms.genre = rng.choice(TEXTS)
    ms.credit = rng.choice(TEXTS)
    ms.banner = rng.choice(TEXTS)
    ms.background = rng.choice(TEXTS)
    ms.lyrics_path = rng.choice(TEXTS)
    ms.cd_title = rng.choice(TEXTS)
    ms.music = rng.choice(TEXTS)
    ms.offset = tempo.offset0
    ms.sample_start = rng.choice([0.0, 68502.0, 1234.5, 100.0])
    ms.sample_length = rng.choice([10.0, 26000.0, 12000.0])
    ms.display_bpm = rng.choice(["", "120", "*", "100:200"])
    ms.selectable = rng.random() < 0.5
    ms.bg_changes = rng.choice(["", "0.000=bg.avi=1.000=1=0=0"])
    ms.fg_changes = rng.choice(["", "1.5=fg.png"])
    return ms


# --------------------------------------------------------------------------
# the pipeline every mapset goes through
# --------------------------------------------------------------------------
def pipeline(tag: str, ms: SMMapSet, rates=(1.5, 0.75)):
    before = canon_mapset(ms)
    OUT.append(f"{tag}.in\t{before}")
    text = emit(f"{tag}.write", ms.write)
    OUT.append(f"{tag}.unmodified\t{canon_mapset(ms) == before}\t{canon_mapset(ms)}")
    if text is None:
        return
    back = emit(f"{tag}.read", SMMapSet.read, text)
    if back is not None:
        text2 = emit(f"{tag}.rewrite", back.write)
        OUT.append(f"{tag}.fixpoint\t{text2 == text}")
        if text2 is not None:
            emit(f"{tag}.reread", SMMapSet.read, text2.split("\n"))
    for by in rates:
        rated = emit(f"{tag}.rate{by}", ms.rate, by)
        if rated is None:
            continue
        rtext = emit(f"{tag}.rate{by}.write", rated.write)
        if rtext is not None:
            emit(f"{tag}.rate{by}.read", SMMapSet.read, rtext)
    OUT.append(f"{tag}.unmodified2\t{canon_mapset(ms) == before}")


def section_generated(n: int):
    rng = random.Random(20260803)
    for idx in range(n):
        pipeline(f"gen{idx}", gen_mapset(rng, idx))


def section_bundled():
    for name in ("Escapes", "ICFITU", "Gravity"):
        ms = emit(f"sm.{name}.read", SMMapSet.read_file, RSC / "sm" / f"{name}.sm")
        if ms is not None:
            pipeline(f"sm.{name}", ms, rates=(1.25,))


def section_converted():
    from reamber.algorithms.convert.OsuToSM import OsuToSM
    from reamber.algorithms.convert.QuaToSM import QuaToSM
    from reamber.algorithms.convert.BMSToSM import BMSToSM
    from reamber.algorithms.convert.O2JToSM import O2JToSM
    from reamber.osu.OsuMap import OsuMap
    from reamber.quaver.QuaMap import QuaMap
    from reamber.bms.BMSMap import BMSMap
    from reamber.o2jam.O2JMapSet import O2JMapSet

    for name in ("Escapes", "ICFITU"):
        osu = OsuMap.read_file((RSC / "osu" / f"{name}.osu").as_posix())
        ms = emit(f"osu.{name}.convert", OsuToSM.convert, osu)
        if ms is not None:
            pipeline(f"osu.{name}", ms, rates=(0.9,))
    qua = QuaMap.read_file((RSC / "qua" / "CarryMeAway.qua").as_posix())
    ms = emit("qua.convert", QuaToSM.convert, qua)
    if ms is not None:
        pipeline("qua", ms, rates=())
    bms = BMSMap.read_file(RSC / "bms" / "coldBreath.bme")
    ms = emit("bms.convert", BMSToSM.convert, bms)
    if ms is not None:
        pipeline("bms", ms, rates=())
    o2j = O2JMapSet.read_file((RSC / "o2jam" / "o2ma178.ojn").as_posix())
    mss = emit("o2j.convert", lambda: [canon_mapset(x) for x in O2JToSM.convert(o2j)])
    for i, ms in enumerate(O2JToSM.convert(o2j)[:1]):
        pipeline(f"o2j{i}", ms, rates=())


# --------------------------------------------------------------------------
# FOCUS 1: Snapper tables and snapping
# --------------------------------------------------------------------------
def section_snapper():
    rng = random.Random(101)
    division_sets = [
        (1,),
        (1, 2),
        (2,),
        (3,),
        (1, 2, 3, 4),
        (4, 2, 1),
        (1, 2, 3, 4, 6, 8, 12, 16),
        (5, 7, 9),
        (48,),
        (1, 2, 3, 4, 5, 6, 7, 8, 9, 12, 16, 32, 64, 96),
        [1, 2, 4, 8, 16, 32, 64, 128],
        np.array([3, 6, 12, 24]),
        (192,),
    ] + [(k,) for k in range(1, 41)]
    values = (
        [0, 0.0, 1, 1.0, 0.5, 0.25, 0.75, 1 / 3, 2 / 3, 0.9999, 0.99999999, 1e-9, 3.0, 17.125, -0.25, -1.5, 1e6 + 0.5]
        + [np.float64(0.125), np.float64(7 / 96), np.float32(0.5)]
        + [rng.random() * rng.choice([1, 4, 100]) for _ in range(60)]
        + [k / d for d in (5, 7, 9, 11, 13, 96, 97) for k in range(0, d + 1, max(d // 6, 1))]
    )
    for i, divs in enumerate(division_sets):
        sn = emit(f"snapper{i}.init", lambda: Snapper(divs) and None)
        sn = Snapper(divs)
        OUT.append(f"snapper{i}.tables\t{canon(sn.val)}\t{canon(sn.num)}\t{canon(sn.den)}\t{sorted(vars(sn))}")
        OUT.append(f"snapper{i}.snap\t" + ",".join(canon(sn.snap(v)) for v in values))
        if i < 14:
            OUT.append(f"snapper{i}.fn\t" + ",".join(canon(snap_fn(v, divs)) for v in values[:40]))
    sn = Snapper()
    OUT.append(f"snapper.default\t{canon(sn.val)}\t{canon(sn.num)}\t{canon(sn.den)}")
    for bad in ((), (0,), (-3,), (2.5,), "ab", None):
        emit(f"snapper.bad{bad!r}", lambda: canon(Snapper(bad).val))
    # TimingMap with custom snappers
    for t in range(12):
        tempo = gen_tempo(rng, t % 2 == 0, rng.choice([1, 2, 4]))
        tm = tempo.bpm_list().to_timing_map()
        beats = [Fraction(rng.randrange(0, 200), rng.choice([1, 2, 3, 4, 5, 7, 8, 12, 96])) for _ in range(25)]
        offs = [tempo.offset(b) for b in beats]
        for j, divs in enumerate([(1, 2, 3, 4), (1, 2, 3, 4, 5, 6, 7, 8, 9, 12, 16, 32, 64, 96), (16,)]):
            sn = Snapper(divs)
            emit(f"tm{t}.snaps{j}", tm.snaps, offs, sn)
            emit(f"tm{t}.beats{j}", tm.beats, offs, sn)
        emit(f"tm{t}.beats.empty", tm.beats, [], Snapper())
        emit(f"tm{t}.bcs", tm.bpm_changes_snap)


# --------------------------------------------------------------------------
# FOCUS 2: SMMap.write on its own, edge cases
# --------------------------------------------------------------------------
def section_map_write():
    rng = random.Random(202)

    def run(tag, m):
        before = canon_map(m)
        OUT.append(f"{tag}.in\t{before}")
        emit(f"{tag}.write", m.write)
        OUT.append(f"{tag}.unmodified\t{canon_map(m) == before}")

    base = Tempo(0.0, [Fraction(0)], [120.0])

    m = SMMap()
    run("w.empty_nobpm", m)
    m = SMMap()
    m.bpms = base.bpm_list()
    run("w.empty", m)

    # one note of every kind on one row, then ties on one cell (last kind wins)
    for ties in (False, True):
        m = SMMap()
        m.bpms = base.bpm_list()
        col = (lambda k: 1) if ties else (lambda k: k % 4)
        m.hits = SMHitList.from_dict([dict(offset=500.0, column=col(0))])
        m.mines = SMMineList.from_dict([dict(offset=500.0, column=col(1))])
        m.lifts = SMLiftList.from_dict([dict(offset=500.0, column=col(2))])
        m.fakes = SMFakeList.from_dict([dict(offset=500.0, column=col(3))])
        m.keysounds = SMKeySoundList.from_dict([dict(offset=500.0, column=col(0))])
        m.holds = SMHoldList.from_dict([dict(offset=500.0, column=col(1), length=0.0)])
        m.rolls = SMRollList.from_dict([dict(offset=500.0, column=col(2), length=250.0)])
        run(f"w.kinds.ties{ties}", m)

    # every chart type, including the ones with an unknown key count
    from reamber.sm.SMMapMeta import SMMapChartTypes

    charts = sorted(
        v for k, v in vars(SMMapChartTypes).items() if k.isupper() and isinstance(v, str)
    ) + ["", "nonsense"]
    for chart in charts:
        for lead in (0, 2):
            m = SMMap()
            m.bpms = base.bpm_list()
            m.chart_type = chart
            m.hits = SMHitList.from_dict(
                [dict(offset=2000.0 * lead + 250.0 * i, column=i % 3) for i in range(5)]
            )
            run(f"w.chart.{chart}.lead{lead}", m)

    # measures needing more than 384 rows, and odd mixtures of denominators
    for i, dens in enumerate(([5, 7], [5, 7, 9], [96, 5], [64, 9], [7, 32], [3, 5, 7, 9, 64], [96], [1])):
        m = SMMap()
        m.bpms = base.bpm_list()
        rows = []
        for d in dens:
            for k in range(0, 4 * d, max(d // 4, 1)):
                rows.append(dict(offset=base.offset(Fraction(k, d) + 4), column=(k + d) % 4))
        m.hits = SMHitList.from_dict(rows)
        run(f"w.rows{i}", m)

    # column dtype float / column out of range / negative column / before first bpm
    m = SMMap()
    m.bpms = base.bpm_list()
    m.hits = SMHitList(pd.DataFrame(dict(offset=[0.0, 500.0, 1000.0], column=[0.0, 2.0, 3.0])))
    run("w.floatcol", m)
    m = SMMap()
    m.bpms = base.bpm_list()
    m.hits = SMHitList(pd.DataFrame(dict(offset=[0, 500, 1000], column=[0, 2, 3])))
    run("w.intoffset", m)
    m = SMMap()
    m.bpms = base.bpm_list()
    m.hits = SMHitList.from_dict([dict(offset=0.0, column=4)])
    run("w.col_oob", m)
    m = SMMap()
    m.bpms = base.bpm_list()
    m.hits = SMHitList.from_dict([dict(offset=0.0, column=-1)])
    run("w.col_neg", m)
    m = SMMap()
    m.bpms = Tempo(1000.0, [Fraction(0)], [120.0]).bpm_list()
    m.hits = SMHitList.from_dict([dict(offset=0.0, column=0)])
    run("w.before_bpm", m)
    m = SMMap()
    m.bpms = base.bpm_list()
    m.hits = SMHitList(pd.DataFrame(dict(offset=[0.0, 500.0], column=[1, 2]), index=[7, 7]))
    run("w.dup_index", m)

    # random maps, written directly
    for idx in range(40):
        tempo = gen_tempo(rng, idx % 3 != 2, rng.choice([1, 2, 3]))
        m = gen_map(
            rng,
            tempo,
            CHARTS[idx % len(CHARTS)],
            GRIDS[list(GRIDS)[idx % len(GRIDS)]],
            rng.choice([0, 1, 4]),
            rng.choice([1, 3, 6]),
            rng.choice([0, 1, 5, 15]),
            idx % 4 == 1,
            idx % 2 == 0,
            idx % 5 == 2,
            [],
        )
        run(f"w.rand{idx}", m)


# --------------------------------------------------------------------------
# FOCUS 3: timing maps from snap-positioned tempo changes, .sm texts read
# --------------------------------------------------------------------------
def section_from_snaps():
    from reamber.algorithms.timing.utils.from_bpm_changes_snap import (
        from_bpm_changes_snap,
    )

    rng = random.Random(303)

    def bcs_list(kind: str):
        n = rng.choice([1, 2, 3, 5, 8])
        metro = 4
        out = []
        beat = Fraction(0)
        for i in range(n):
            if kind == "on":
                b = beat
                beat += 4 * rng.randint(1, 4)
            elif kind == "off":
                b = beat
                beat += Fraction(rng.randint(1, 40), rng.choice([1, 2, 4, 8]))
            elif kind == "float":
                b = float(beat)
                beat += Fraction(rng.randint(1, 4000), 1000)
            elif kind == "near":
                b = float(beat)
                beat += 4 * rng.randint(1, 3) + Fraction(rng.choice([0, 1, 2, 5]), 10000)
            else:  # "dup"
                b = beat
                beat += rng.choice([0, 0, 4, 6])
            out.append(BpmChangeSnap(rng.choice(BPMS), metro, Snap(0, b, metro)))
        return out

    k = 0
    for kind in ("on", "off", "float", "near", "dup"):
        for rep in range(14):
            bcs = bcs_list(kind)
            if rep % 5 == 4:
                rng.shuffle(bcs)
            if rep == 13:
                bcs[0].snap.beat = Fraction(1)  # first not on 0
            for reseat in (True, False):
                init = rng.choice([0.0, 100.0, -635.0, 12.5])
                before = canon(bcs)
                tm = emit(f"fs{k}.{kind}.{reseat}", from_bpm_changes_snap, init, bcs, reseat)
                OUT.append(f"fs{k}.unmodified\t{canon(bcs) == before}\t{canon(bcs)}")
                tm2 = emit(f"fs{k}.tm", TimingMap.from_bpm_changes_snap, init, bcs, reseat)
                if tm2 is not None:
                    emit(f"fs{k}.bcs", tm2.bpm_changes_snap)
                    snaps = [Snap(rng.randint(0, 12), Fraction(rng.randrange(0, 16), 4), 4) for _ in range(8)]
                    emit(f"fs{k}.offsets", tm2.offsets, snaps)
                    emit(f"fs{k}.reseat", tm2.reseat)
                k += 1
    emit("fs.empty.True", from_bpm_changes_snap, 0.0, [], True)
    emit("fs.empty.False", from_bpm_changes_snap, 0.0, [], False)
    emit("fs.default", from_bpm_changes_snap, 5.0, [BpmChangeSnap(120.0, 4, Snap(0, 0, 4)), BpmChangeSnap(90.0, 4, Snap(0, 6, 4))])

    # .sm texts whose #BPMS lie off the measure lines
    for t in range(30):
        n = rng.choice([1, 2, 3, 4])
        beat = Fraction(0)
        bpms = []
        for i in range(n):
            bpms.append(f"{float(beat):.3f}={rng.choice(BPMS):.3f}")
            beat += Fraction(rng.randint(1, 30), rng.choice([1, 2, 4])) if t % 3 else 4 * rng.randint(1, 3)
        keys = rng.choice([4, 6, 8])
        chart = {4: "dance-single", 6: "dance-solo", 8: "dance-double"}[keys]
        measures = []
        for _ in range(rng.randint(1, 6)):
            rows = rng.choice([4, 8, 12, 16])
            measures.append(
                "\n".join(
                    "".join(rng.choice("0000001M") for _ in range(keys)) for _ in range(rows)
                )
            )
        text = (
            f"#TITLE:t{t};\n#OFFSET:{rng.choice(['0.000', '-0.635', '0.1'])};\n"
            f"#BPMS:{','.join(bpms)};\n#STOPS:;\n#SELECTABLE:{rng.choice(['YES', 'NO'])};\n"
            f"#NOTES:\n     {chart}:\n     :\n     Hard:\n     9:\n     0,0,0,0,0:\n"
            + "\n,\n".join(measures)
            + "\n;\n"
        )
        ms = emit(f"smtext{t}.read", SMMapSet.read, text)
        if ms is not None:
            pipeline(f"smtext{t}", ms, rates=(2.0,))


# --------------------------------------------------------------------------
def main():
    section_generated(48)
    section_bundled()
    section_converted()
    if FOCUS in (0, 1):
        section_snapper()
    if FOCUS in (0, 2):
        section_map_write()
    if FOCUS in (0, 3):
        section_from_snaps()
    OUT.append("ALL_LOGS\t" + repr(len(LOGS)))
    blob = "\n".join(OUT).encode("utf8")
    if "--dump" in sys.argv:
        sys.stdout.write(blob.decode("utf8") + "\n")
    n_ok = sum("\tOK\t" in line for line in OUT)
    n_exc = sum("\tEXC\t" in line for line in OUT)
    sys.stderr.write(f"lines={len(OUT)} ok={n_ok} exc={n_exc} bytes={len(blob)}\n")
    print("DIGEST " + hashlib.sha256(blob).hexdigest())


if __name__ == "__main__":
    main()
