"""F39 (C01): x -> column for every key count 1..18 and every x 0..511 against the format's definition floor(x * keys / 512).
Run:  cd /repo && /venv/bin/python /verif/triage/probes/F39_osu_10k_bucket_edge.py     (pinned tree: [(10, 256, 4, 5)])"""
from reamber.osu.OsuNoteMeta import OsuNoteMeta as N
bad = [(k, x, N.x_axis_to_column(x, k), min(x * k // 512, k - 1)) for k in range(1, 19) for x in range(512)
       if N.x_axis_to_column(x, k) != min(x * k // 512, k - 1)]
print(bad); assert not bad; print("ok")
