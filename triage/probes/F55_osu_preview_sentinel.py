"""F55 (C13): OsuMap.rate scaled the 'no preview' sentinel -1.
Run:  cd /repo && /venv/bin/python /verif/triage/probes/F55_osu_preview_sentinel.py   (pinned tree: PreviewTime read back as 0)"""
import warnings
warnings.simplefilter("ignore")
from reamber.osu.OsuMap import OsuMap
from reamber.osu.OsuHit import OsuHit
from reamber.osu.OsuBpm import OsuBpm
from reamber.osu.lists.OsuBpmList import OsuBpmList
from reamber.osu.lists.notes.OsuHitList import OsuHitList
m = OsuMap(); m.hits = OsuHitList([OsuHit(1000.0, 0)]); m.bpms = OsuBpmList([OsuBpm(0.0, 120.0)])
r = m.rate(2.0)
back = OsuMap.read("\n".join(r.write()).split("\n"))
print(r.preview_time, back.preview_time)
assert r.preview_time == -1 and back.preview_time == -1
m.preview_time = 3000
assert m.rate(2.0).preview_time == 1500
print("ok")
