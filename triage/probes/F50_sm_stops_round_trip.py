"""F50 (C03, known finding): StepMania stops do not survive write / read.
Run:  cd /repo && /venv/bin/python /verif/triage/probes/F50_sm_stops_round_trip.py   (fails on the pinned tree)"""
import warnings
warnings.simplefilter("ignore")
from reamber.sm import SMMapSet, SMMap
from reamber.sm.SMBpm import SMBpm
from reamber.sm.SMHit import SMHit
from reamber.sm.SMStop import SMStop
from reamber.sm.lists.SMBpmList import SMBpmList
from reamber.sm.lists.SMStopList import SMStopList
from reamber.sm.lists.notes import SMHitList
m = SMMap()
m.bpms = SMBpmList([SMBpm(0.0, 120.0)])
m.hits = SMHitList([SMHit(500.0 * k, k % 4) for k in range(12)])
m.stops = SMStopList([SMStop(2000.0, 250.0)])
ms = SMMapSet(); ms.maps = [m]; ms.offset = 0.0
r = SMMapSet.read(ms.write())
print(sorted(r[0].hits.offset)[:7], len(r[0].stops))
assert len(r[0].stops) == 1 and sorted(r[0].hits.offset) == sorted(m.hits.offset), "stops are not read back / objects shifted by the stop length"
