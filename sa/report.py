"""Obligation instances, verdict protocol, known findings, evidence (DESIGN §2, §9)."""
from __future__ import annotations

import hashlib
import json
import os
import pathlib
import re
import time
from dataclasses import dataclass, field, asdict
from typing import Callable, Dict, List, Optional

VERIF = pathlib.Path(__file__).resolve().parent.parent
KNOWN_FILE = VERIF / "known_findings.json"

OK, VIOL, UNDEC, ADV = "ok", "violation", "undecided", "advisory"


@dataclass
class Inst:
    """One obligation instance of one rule."""
    rule: str                 # e.g. "C01.R3"
    key: str                  # stable, line-free instance key, e.g. "OsuHold.length"
    status: str               # ok | violation | undecided | advisory
    file: str = ""
    line: int = 0
    msg: str = ""
    construct: str = ""       # normalised text of the offending / deciding construct
    idiom: str = ""           # which accepted idiom matched (ok instances)
    analysis: str = ""        # A1..A10 / M0
    reach: tuple = ()         # qualified functions: a dependent property inherits this instance if its closure reaches any of them

    def fid(self) -> str:
        """Finding identity: rule + key + normalised construct (never a line)."""
        c = re.sub(r"\s+", " ", self.construct).strip()
        return f"{self.rule}|{self.key}|{c}"

    def where(self) -> str:
        return f"{self.file}:{self.line}" if self.file else "<model>"


def ok(rule, key, file="", line=0, msg="", idiom="", construct="", analysis="") -> Inst:
    return Inst(rule, key, OK, file, line, msg, construct, idiom, analysis)


def viol(rule, key, file="", line=0, msg="", construct="", analysis="") -> Inst:
    return Inst(rule, key, VIOL, file, line, msg, construct, "", analysis)


def undec(rule, key, file="", line=0, msg="", construct="", analysis="") -> Inst:
    return Inst(rule, key, UNDEC, file, line, msg, construct, "", analysis)


def adv(rule, key, file="", line=0, msg="", construct="", analysis="") -> Inst:
    return Inst(rule, key, ADV, file, line, msg, construct, "", analysis)


@dataclass
class RuleSpec:
    rid: str                               # rule id as in DESIGN §5
    fn: Callable                           # fn(ctx) -> List[Inst]
    floor: int                             # instances confirmed by hand on the pinned tree
    analysis: str                          # analysis family
    title: str
    control: Optional[Callable] = None     # positive control: () -> bool (must be True)


def load_known() -> Dict[str, dict]:
    if not KNOWN_FILE.exists():
        return {}
    data = json.loads(KNOWN_FILE.read_text())
    out = {}
    for e in data.get("known", []):
        out[e["fid"]] = e
    return out


def load_fixed() -> List[dict]:
    if not KNOWN_FILE.exists():
        return []
    return json.loads(KNOWN_FILE.read_text()).get("fixed", [])


@dataclass
class Outcome:
    prop: str
    tier: str
    insts: List[Inst] = field(default_factory=list)
    errors: List[str] = field(default_factory=list)       # analysis errors (exit 2)
    rule_counts: Dict[str, Dict[str, int]] = field(default_factory=dict)
    known_hits: List[Inst] = field(default_factory=list)
    violations: List[Inst] = field(default_factory=list)
    selftest: Optional[dict] = None
    wall_s: float = 0.0

    @property
    def exit_code(self) -> int:
        # a decided violation is reported as such even when another rule of the
        # same run could not be decided (both are printed)
        if self.violations:
            return 1
        if self.errors:
            return 2
        return 0


def evaluate(prop: str, tier: str, specs: List[RuleSpec], ctx, known: Dict[str, dict]) -> Outcome:
    from .model import AnalysisError
    out = Outcome(prop, tier)
    t0 = time.time()
    for spec in specs:
        try:
            insts = spec.fn(ctx)
        except AnalysisError as e:
            out.errors.append(f"{spec.rid}: {e}")
            continue
        for i in insts:
            if not i.analysis:
                i.analysis = spec.analysis
        n_arm = sum(1 for i in insts if i.status in (OK, VIOL))
        n_und = sum(1 for i in insts if i.status == UNDEC)
        counts = dict(instances=n_arm + n_und, ok=0, violation=0, known=0, undecided=n_und, advisory=0,
                      floor=spec.floor)
        for i in insts:
            if i.status == OK:
                counts["ok"] += 1
            elif i.status == ADV:
                counts["advisory"] += 1
            elif i.status == VIOL:
                if i.fid() in known and prop in known[i.fid()].get("properties", [prop]):
                    counts["known"] += 1
                    e = known[i.fid()]
                    i.msg = f"{e.get('finding', '')}: {e.get('what', '')} [{i.msg}]"
                    out.known_hits.append(i)
                else:
                    counts["violation"] += 1
                    out.violations.append(i)
            elif i.status == UNDEC:
                out.errors.append(f"{spec.rid}: undecided at {i.where()} [{i.key}] {i.msg}")
        out.rule_counts[spec.rid] = counts
        out.insts.extend(insts)
        if n_arm + n_und < spec.floor:
            out.errors.append(
                f"{spec.rid}: only {n_arm + n_und} instance(s) enumerated, floor is {spec.floor} "
                f"(anchor vanished or extractor lost coverage)")
        if spec.control is not None:
            try:
                good = spec.control()
            except Exception as e:  # pragma: no cover
                good = False
                out.errors.append(f"{spec.rid}: positive control raised {type(e).__name__}: {e}")
            if not good:
                out.errors.append(f"{spec.rid}: positive control not flagged — rule is blind")
    out.wall_s = time.time() - t0
    return out


def replay_path(prop: str, inst: Inst) -> pathlib.Path:
    h = hashlib.sha1(inst.fid().encode()).hexdigest()[:10]
    return VERIF / "evidence" / "replay" / f"{prop}-{inst.rule.replace('.', '_')}-{h}.json"


def write_replay(prop: str, inst: Inst) -> pathlib.Path:
    p = replay_path(prop, inst)
    p.parent.mkdir(parents=True, exist_ok=True)
    p.write_text(json.dumps(dict(property=prop, **asdict(inst), fid=inst.fid()), indent=1))
    return p


def write_evidence(out: Outcome, meta: dict, seed: int, model_census: dict, extra_assumptions=()):
    ev_dir = VERIF / "evidence"
    ev_dir.mkdir(exist_ok=True)
    obligations = sum(c["instances"] for c in out.rule_counts.values())
    discharged = sum(c["ok"] for c in out.rule_counts.values())
    samples = []
    seen_rules = set()
    for i in out.insts:
        if i.status in (OK, VIOL) and (i.rule not in seen_rules or i.status == VIOL):
            seen_rules.add(i.rule)
            samples.append(dict(rule=i.rule, instance=i.key, at=i.where(), status=(
                "known-finding" if i in out.known_hits else i.status), idiom=i.idiom, msg=i.msg[:200],
                construct=i.construct[:160]))
    cov = dict(
        explanation=meta["explanation"],
        obligations=obligations,
        discharged=discharged,
        known_findings=len(out.known_hits),
        violations=len(out.violations),
        undecided=sum(c["undecided"] for c in out.rule_counts.values()),
        advisories=[f"{i.rule} {i.where()} {i.key}: {i.msg}" for i in out.insts if i.status == ADV][:40],
        checker_cmd=meta["checker_cmd"],
        trusted_base=meta["trusted_base"],
        rules={rid: dict(title=meta["titles"].get(rid, ""), **c) for rid, c in out.rule_counts.items()},
        analysed=model_census,
        samples=samples[:80],
        instances=[dict(rule=i.rule, key=i.key, at=i.where(), status=i.status, idiom=i.idiom) for i in out.insts
                   if i.status != ADV][:600],
        not_decided=meta.get("not_decided", ""),
        analysis_errors=out.errors,
        exhaustive=False,
    )
    if out.selftest is not None:
        cov["selftest"] = out.selftest
    ev = dict(
        property_id=out.prop,
        tier=out.tier,
        seed=int(seed),
        level="other",
        coverage=cov,
        assumptions=list(meta.get("assumptions", [])) + list(extra_assumptions),
        wall_s=round(out.wall_s, 3),
        violations=len(out.violations),
    )
    (ev_dir / f"{out.prop}.json").write_text(json.dumps(ev, indent=1, default=str))
    return ev


COMMON_ASSUMPTIONS = [
    "Callers do not monkey-patch reamber classes or shadow a generated property with an instance attribute.",
    "The only reflective attribute accesses in scope are Property.py's decorators and ConvertBase.cast; M0 "
    "enumerates getattr/setattr/__setattr__/__getattribute__/__dict__/vars/exec/eval on every run and fails "
    "(exit 2) on a new one.",
    "pandas 2.x semantics as pinned in /venv (copy-on-write off); a column obtained from a frame is treated as a view.",
    "Arguments have the documented/annotated types.",
    "CPython evaluation order and operator precedence as produced by ast.parse.",
]
