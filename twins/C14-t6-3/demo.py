"""Demo for refactoring 3: hitsound_copy splits hitsound_set with a table-driven loop.

Runs hitsound_copy over generated osu!mania source / target charts (empty lists,
charts without holds, without hitsounds, chords = offset ties, unsorted rows, odd row
labels, negative / zero volumes and offsets, every hitsound bit combination, custom
sample files, float / NaN hitsound sets, 4K/7K/10K columns), real charts from the
repository, once and in sequences.  Hashes
  - every result map (all lists + metadata incl. samples: values, dtypes, column
    order, row labels),
  - every raised exception type and warning,
  - both input maps after the call and after the result was changed.
Prints one line: DIGEST <sha256>.
"""
import hashlib
import random
import warnings
from dataclasses import fields
from pathlib import Path

import numpy as np
import pandas as pd

from reamber.algorithms.osu.hitsound_copy import hitsound_copy
from reamber.osu import OsuMap
from reamber.osu.OsuSample import OsuSample
from reamber.osu.lists import OsuBpmList, OsuSampleList
from reamber.osu.lists.notes import OsuHitList, OsuHoldList

random.seed(1403)
np.random.seed(1403)

H = hashlib.sha256()
N_RECORDS = 0


def emit(*parts):
    global N_RECORDS
    N_RECORDS += 1
    H.update(("|".join(str(p) for p in parts) + "\n").encode("utf8"))


def dump_df(df: pd.DataFrame) -> str:
    return repr(
        (
            list(map(str, df.columns)),
            [str(t) for t in df.dtypes],
            str(df.index.dtype),
            [repr(i) for i in df.index.tolist()],
            [[repr(v) for v in row] for row in df.itertuples(index=False, name=None)],
        )
    )


def dump_tl(tl) -> str:
    return type(tl).__name__ + ":" + dump_df(tl.df)


def dump_map(m) -> str:
    parts = [type(m).__name__]
    for k, tl in m.objs.items():
        parts.append(k + "=" + dump_tl(tl))
    for f in fields(m):
        if f.name == "objs":
            continue
        v = getattr(m, f.name)
        parts.append(f.name + "=" + (dump_tl(v) if hasattr(v, "df") else repr(v)))
    return "\n".join(parts)


GRID = [0.0, 250.0, 500.0, 750.0, 1000.0, 1500.0, 2000.0, -500.0, 3333.3]
FILES = ["", "", "", "kick.wav", "snare.ogg", "fx 1.wav"]


def relabel(df: pd.DataFrame, kind: str) -> pd.DataFrame:
    n = len(df)
    if kind == "shuffled":
        labels = list(range(3, 3 + n))
        random.shuffle(labels)
        df.index = labels
    elif kind == "dupes":
        df.index = [random.choice([0, 1]) for _ in range(n)]
    return df


def fill_sounds(nl, n: int, kind: str):
    if kind == "silent" or n == 0:
        return
    if kind == "all_bits":
        nl.hitsound_set = np.resize(np.arange(16), n)
    else:
        nl.hitsound_set = np.random.choice([0, 0, 1, 2, 4, 6, 8, 10, 12, 14, 15], n)
    if kind == "float_sets":
        nl.hitsound_set = nl.hitsound_set.astype(float)
    if kind == "nan_sets":
        hs = nl.hitsound_set.astype(float)
        hs.iloc[random.randrange(n)] = np.nan
        nl.hitsound_set = hs
    nl.sample_set = np.random.choice([0, 0, 1, 2, 3], n)
    nl.addition_set = np.random.choice([0, 0, 0, 1, 2], n)
    nl.custom_set = np.random.choice([0, 0, 0, 1, 5], n)
    if kind == "neg_volume":
        nl.volume = np.random.choice([-10, 0, 0, 35], n)
    else:
        nl.volume = np.random.choice([0, 20, 20, 30, 40, 100], n)
    if kind != "no_files":
        nl.hitsound_file = pd.Series(
            [random.choice(FILES) for _ in range(n)], dtype=object
        )


SOUND_KINDS = [
    "mixed", "silent", "all_bits", "float_sets", "nan_sets", "neg_volume", "no_files",
]  # fmt: skip


def gen_map(n_hits: int, n_holds: int, sounds: str, layout: str, label: str, keys: int):
    m = OsuMap()
    m.circle_size = keys
    bl = OsuBpmList.empty(1)
    bl.bpm = 120.0
    m.bpms = bl

    def offsets(n):
        if layout == "chords":
            return np.random.choice(GRID[:4], n)
        if layout == "grid":
            return np.random.choice(GRID, n)
        if layout == "sorted":
            return np.sort(np.random.choice(GRID, n))
        return np.random.uniform(-1000, 4000, n).round(1)  # "free"

    hits = OsuHitList.empty(n_hits)
    hits.offset = offsets(n_hits)
    hits.column = np.random.randint(0, keys, n_hits)
    fill_sounds(hits, n_hits, sounds)
    hits.df = relabel(hits.df, label)
    m.hits = hits

    holds = OsuHoldList.empty(n_holds)
    holds.offset = offsets(n_holds)
    holds.column = np.random.randint(0, keys, n_holds)
    holds.length = np.random.choice([0.0, 100.0, 250.0, 1000.0], n_holds)
    fill_sounds(holds, n_holds, sounds)
    holds.df = relabel(holds.df, label)
    m.holds = holds

    if random.random() < 0.4:
        m.samples = OsuSampleList(
            [OsuSample(offset=random.choice(GRID), sample_file="bgm.wav", volume=60)]
        )
    return m


def mutate_result(res):
    res.hits.offset += 5
    res.hits.hitsound_set = 99
    res.hits.hitsound_file = "changed.wav"
    res.holds.length *= 3
    res.holds.volume = -1
    if len(res.hits.df):
        res.hits.df.iloc[0, 0] = -12345.0
    if len(res.holds.df):
        res.holds.df.iloc[0, 0] = -12345.0
    res.samples = res.samples.append(OsuSample(offset=1, sample_file="new.wav"))
    if len(res.samples.df):
        res.samples.df.iloc[0, 0] = -1.0
    res.bpms.bpm *= 2
    res.title = "changed"


def run(label, src, tgt, fn):
    before = dump_map(src), dump_map(tgt)
    with warnings.catch_warnings(record=True) as ws:
        warnings.simplefilter("always")
        try:
            res = fn(src, tgt)
            exc = None
        except Exception as e:  # noqa
            res = None
            exc = type(e).__name__
    warns = sorted((w.category.__name__, str(w.message)) for w in ws)
    after = dump_map(src), dump_map(tgt)
    emit(label, "EXC", exc, "WARN", warns)
    emit(label, "INPUTS_SAME", before == after, after[0], after[1])
    if res is not None:
        emit(label, "RES", dump_map(res), "IS_INPUT", res is tgt, res is src)
        with warnings.catch_warnings(record=True) as ws:
            warnings.simplefilter("always")
            try:
                mutate_result(res)
            except Exception as e:  # noqa
                emit(label, "MUT_EXC", type(e).__name__)
        emit(label, "MUT_WARN", sorted(w.category.__name__ for w in ws))
        emit(
            label,
            "INPUTS_AFTER_RESULT_CHANGE",
            (dump_map(src), dump_map(tgt)) == before,
        )
    return res


SIZES = [(0, 0), (0, 3), (4, 0), (1, 1), (6, 4), (12, 6), (25, 10)]
LAYOUTS = ["chords", "grid", "sorted", "free"]
LABELS = ["range", "shuffled", "dupes"]

pairs = 0
for sounds in SOUND_KINDS:
    for s_hits, s_holds in SIZES:
        for t_hits, t_holds in random.sample(SIZES, 3):
            layout = random.choice(LAYOUTS)
            keys = random.choice([4, 7, 10])
            s_label, t_label = random.choice(LABELS), random.choice(LABELS)
            src = gen_map(s_hits, s_holds, sounds, layout, s_label, keys)
            tgt = gen_map(
                t_hits, t_holds, random.choice(["silent", "mixed"]), layout, t_label, keys
            )
            tag = (
                f"{sounds}/src{s_hits}+{s_holds}{s_label}/tgt{t_hits}+{t_holds}{t_label}"
                f"/{layout}/{keys}K"
            )
            pairs += 1
            run(f"{tag}/copy", src, tgt, lambda a, b: hitsound_copy(a, b))
            run(f"{tag}/reverse", src, tgt, lambda a, b: hitsound_copy(b, a))
            run(f"{tag}/self", src, tgt, lambda a, b: hitsound_copy(a, a))
            run(f"{tag}/twice", src, tgt,
                lambda a, b: hitsound_copy(a, hitsound_copy(a, b)))
            run(f"{tag}/chain", src, tgt,
                lambda a, b: hitsound_copy(hitsound_copy(a, b), a))
            run(f"{tag}/kw", src, tgt,
                lambda a, b: hitsound_copy(osu_src=a, osu_tgt=b))

# ---- lists that lost a column / odd inputs --------------------------------- #
src = gen_map(5, 3, "mixed", "grid", "range", 4)
tgt = gen_map(5, 3, "silent", "grid", "range", 4)
bad = src.deepcopy()
bad.hits.df = bad.hits.df.drop(columns="hitsound_set")
bad.holds.df = bad.holds.df.drop(columns="hitsound_set")
run("odd/no_hitsound_set", bad, tgt, lambda a, b: hitsound_copy(a, b))
bad = src.deepcopy()
bad.hits.df = bad.hits.df.drop(columns="volume")
bad.holds.df = bad.holds.df.drop(columns="volume")
run("odd/no_volume", bad, tgt, lambda a, b: hitsound_copy(a, b))
bad = src.deepcopy()
bad.hits.df["hitsound_set"] = bad.hits.df["hitsound_set"].astype(str)
run("odd/str_hitsound_set", bad, tgt, lambda a, b: hitsound_copy(a, b))
bad = src.deepcopy()
bad.hits.df["hitsound_file"] = None
run("odd/none_files", bad, tgt, lambda a, b: hitsound_copy(a, b))
run("odd/none_src", src, tgt, lambda a, b: hitsound_copy(None, b))
run("odd/none_tgt", src, tgt, lambda a, b: hitsound_copy(a, None))

# ---- real charts ----------------------------------------------------------- #
HS_DIR = Path("tests/algorithm_tests/osu/hitsound_copy")
MAPS = Path("rsc/maps/osu")
real = [
    (HS_DIR / "source.osu", HS_DIR / "target.osu"),
    (MAPS / "AvengerHitsoundFile.osu", MAPS / "AvengerHitsoundable.osu"),
    (MAPS / "AvengerHitsoundable.osu", MAPS / "AvengerHitsoundFile.osu"),
]
for s_path, t_path in real:
    src, tgt = OsuMap.read_file(s_path), OsuMap.read_file(t_path)
    run(f"real/{s_path.name}->{t_path.name}", src, tgt,
        lambda a, b: hitsound_copy(a, b))
    no_ln_src, no_ln_tgt = src.deepcopy(), tgt.deepcopy()
    no_ln_src.holds = OsuHoldList([])
    no_ln_tgt.holds = OsuHoldList([])
    run(f"real/{s_path.name}->{t_path.name}/nolns", no_ln_src, no_ln_tgt,
        lambda a, b: hitsound_copy(a, b))

emit("records", N_RECORDS, "pairs", pairs)
print("DIGEST", H.hexdigest())
