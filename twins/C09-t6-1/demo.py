"""Demo for refactoring 1: O2JToSM.convert / convert_merge share one routine.

Generates OJN files (bytes), reads them with O2JMapSet.read, converts them with
O2JToSM.convert and O2JToSM.convert_merge, writes the SM text, parses it back,
and digests everything observable (results, dtypes, labels, exceptions, and the
source map set before/after to show that the input is not modified).
"""
import hashlib
import logging
import random
import struct
import warnings
from pathlib import Path

import numpy as np
import pandas as pd

warnings.filterwarnings("ignore")
logging.disable(logging.CRITICAL)

from reamber.algorithms.convert.O2JToSM import O2JToSM  # noqa: E402
from reamber.o2jam.O2JMapSet import O2JMapSet  # noqa: E402
from reamber.sm.SMMapSet import SMMapSet  # noqa: E402

OUT = []


def emit(*parts):
    OUT.append(" ".join(str(p) for p in parts))


def dump_df(tag, df: pd.DataFrame):
    emit(tag, "cols", list(df.columns))
    emit(tag, "dtypes", [str(t) for t in df.dtypes])
    emit(tag, "index", type(df.index).__name__, list(df.index))
    for row in df.itertuples(index=False, name=None):
        emit(tag, "row", [repr(v) for v in row])


def dump_map(tag, m):
    for name in ("hits", "holds", "bpms"):
        tl = getattr(m, name)
        emit(tag, name, type(tl).__name__)
        dump_df(f"{tag}.{name}", tl.df)


def dump_o2js(tag, ms: O2JMapSet):
    emit(tag, "meta", repr(ms.title), repr(ms.artist), repr(ms.creator), ms.level,
         repr(ms.bpm), ms.package_count)
    emit(tag, "nmaps", len(ms.maps))
    for i, m in enumerate(ms.maps):
        dump_map(f"{tag}.map{i}", m)


def dump_sms(tag, sms: SMMapSet):
    emit(tag, type(sms).__name__, "title", repr(sms.title), "artist", repr(sms.artist),
         "credit", repr(sms.credit), "offset", repr(sms.offset),
         "maps_type", type(sms.maps).__name__, "nmaps", len(sms.maps))
    for i, sm in enumerate(sms.maps):
        emit(tag, i, type(sm).__name__, "chart_type", repr(sm.chart_type),
             "description", repr(sm.description), "difficulty", repr(sm.difficulty),
             "difficulty_val", repr(sm.difficulty_val))
        dump_map(f"{tag}.map{i}", sm)
    # the documented end-to-end use: write, then parse back
    try:
        text = sms.write()
        emit(tag, "written", type(text).__name__, hashlib.sha256(text.encode("utf8")).hexdigest())
        emit(tag, "text", repr(text))
    except Exception as e:  # noqa
        emit(tag, "write raised", type(e).__name__)
        return
    try:
        back = SMMapSet.read(text)
        emit(tag, "back nmaps", len(back.maps), repr(back.title), repr(back.offset))
        for i, sm in enumerate(back.maps):
            emit(tag, "back", i, repr(sm.chart_type), repr(sm.description))
            dump_map(f"{tag}.back{i}", sm)
    except Exception as e:  # noqa
        emit(tag, "read-back raised", type(e).__name__)


# --------------------------------------------------------------------------- #
# OJN generator
# --------------------------------------------------------------------------- #
def pad(s: bytes, n: int) -> bytes:
    return s[:n] + b"\x00" * (n - len(s[:n]))


def header(bpm, levels, pkg_counts, title, artist, creator):
    b = b""
    b += struct.pack("<i", 1234)
    b += b"ojn\x00"
    b += struct.pack("<f", 2.9)
    b += struct.pack("<i", 3)
    b += struct.pack("<f", bpm)
    b += struct.pack("<4h", *levels, 0)
    b += struct.pack("<3i", 0, 0, 0)  # event count
    b += struct.pack("<3i", 0, 0, 0)  # note count
    b += struct.pack("<3i", 0, 0, 0)  # measure count
    b += struct.pack("<3i", *pkg_counts)
    b += struct.pack("<h", 29)
    b += struct.pack("<h", 1234)
    b += pad(b"", 20)
    b += struct.pack("<i", 0)
    b += struct.pack("<i", 0)
    b += pad(title, 64)
    b += pad(artist, 32)
    b += pad(creator, 32)
    b += pad(b"song.ojm", 32)
    b += struct.pack("<i", 0)
    b += struct.pack("<3i", 60, 60, 60)
    b += struct.pack("<3i", 300, 300, 300)
    b += struct.pack("<i", 0)
    assert len(b) == 300, len(b)
    return b


def package(measure, channel, events):
    return struct.pack("<ihh", measure, channel, len(events)) + b"".join(events)


def note_ev(kind):
    if kind is None:
        return b"\x00\x00\x00\x00"
    return struct.pack("<h", 1) + bytes([random.randrange(256)]) + bytes([kind])


def gen_level(rnd, n_measures, columns, bpm_changes, dangling_tail=False):
    """Returns the list of packages (bytes) of one level"""
    pkgs = []
    open_hold = {c: False for c in columns}
    for measure in range(n_measures):
        if bpm_changes and rnd.random() < 0.5:
            div = rnd.choice([1, 2, 4])
            evs = []
            for _ in range(div):
                if rnd.random() < 0.6:
                    evs.append(struct.pack("<f", rnd.choice([60, 90, 120.5, 133.3, 150, 200, 240])))
                else:
                    evs.append(struct.pack("<f", 0.0))
            pkgs.append(package(measure, 1, evs))
        for c in columns:
            if rnd.random() < 0.3:
                continue
            div = rnd.choice([1, 2, 3, 4, 6, 8, 12, 16])
            evs = []
            for _ in range(div):
                r = rnd.random()
                if r < 0.45:
                    evs.append(note_ev(None))
                elif open_hold[c]:
                    evs.append(note_ev(3))
                    open_hold[c] = False
                elif r < 0.8:
                    evs.append(note_ev(0))
                else:
                    evs.append(note_ev(2))
                    open_hold[c] = True
            pkgs.append(package(measure, c + 2, evs))
    # close the holds still open
    for c in columns:
        if open_hold[c]:
            pkgs.append(package(n_measures, c + 2, [note_ev(None), note_ev(3)]))
    if dangling_tail:
        pkgs.append(package(n_measures + 1, columns[0] + 2, [note_ev(3)]))
    return pkgs


def gen_ojn(rnd, spec):
    lvls = [gen_level(rnd, **s) for s in spec["levels"]]
    pkg_counts = [len(p) for p in lvls] + [0] * (3 - len(lvls))
    h = header(spec["bpm"], spec.get("lv", (3, 9, 27)), pkg_counts[:3],
               spec.get("title", b"Title"), spec.get("artist", b"Artist"),
               spec.get("creator", b"Creator"))
    return h + b"".join(b"".join(p) for p in lvls)


def run_case(name, make):
    """make() -> O2JMapSet. Runs both conversions, each on a fresh map set"""
    for fn_name in ("convert", "convert_merge"):
        tag = f"{name}.{fn_name}"
        try:
            ms = make()
        except Exception as e:  # noqa
            emit(tag, "read raised", type(e).__name__)
            continue
        dump_o2js(tag + ".before", ms)
        ids_before = [id(m) for m in ms.maps]
        try:
            res = getattr(O2JToSM, fn_name)(ms)
        except Exception as e:  # noqa
            emit(tag, "convert raised", type(e).__name__)
            res = None
        # input afterwards
        dump_o2js(tag + ".after", ms)
        emit(tag, "same map objects", ids_before == [id(m) for m in ms.maps])
        if res is None:
            continue
        emit(tag, "result type", type(res).__name__)
        if isinstance(res, list):
            emit(tag, "n results", len(res))
            emit(tag, "distinct maps lists", len({id(r.maps) for r in res}) == len(res))
            for i, r in enumerate(res):
                dump_sms(f"{tag}.res{i}", r)
        else:
            dump_sms(f"{tag}.res", res)


def main():
    rnd = random.Random(20240909)
    random.seed(20240909)
    np.random.seed(20240909)

    ALL = list(range(7))
    specs = []
    # hand-made edge cases
    specs.append(("three-levels-7k", dict(bpm=120.0, levels=[
        dict(n_measures=3, columns=ALL, bpm_changes=False),
        dict(n_measures=4, columns=ALL, bpm_changes=True),
        dict(n_measures=5, columns=ALL, bpm_changes=True)])))
    specs.append(("one-level", dict(bpm=150.0, levels=[
        dict(n_measures=4, columns=ALL, bpm_changes=True)])))
    specs.append(("two-levels", dict(bpm=133.3, levels=[
        dict(n_measures=2, columns=ALL, bpm_changes=False),
        dict(n_measures=2, columns=ALL, bpm_changes=True)])))
    specs.append(("no-levels", dict(bpm=100.0, levels=[])))
    specs.append(("empty-first-level", dict(bpm=100.0, levels=[
        dict(n_measures=0, columns=ALL, bpm_changes=False),
        dict(n_measures=3, columns=ALL, bpm_changes=False)])))
    specs.append(("empty-last-level", dict(bpm=100.0, levels=[
        dict(n_measures=3, columns=ALL, bpm_changes=False),
        dict(n_measures=0, columns=ALL, bpm_changes=False)])))
    specs.append(("4-columns-used", dict(bpm=180.0, levels=[
        dict(n_measures=4, columns=[0, 1, 2, 3], bpm_changes=True),
        dict(n_measures=4, columns=[0, 1, 2, 3], bpm_changes=False)])))
    specs.append(("6-columns-used", dict(bpm=180.0, levels=[
        dict(n_measures=4, columns=[0, 1, 2, 3, 4, 5], bpm_changes=True)])))
    specs.append(("5-and-7-columns", dict(bpm=90.0, levels=[
        dict(n_measures=3, columns=[0, 1, 2, 3, 4], bpm_changes=False),
        dict(n_measures=3, columns=ALL, bpm_changes=True),
        dict(n_measures=3, columns=[0], bpm_changes=True)])))
    specs.append(("dangling-tail", dict(bpm=90.0, levels=[
        dict(n_measures=2, columns=ALL, bpm_changes=False, dangling_tail=True)])))
    specs.append(("odd-meta", dict(bpm=222.0, title=b"A;B:C,D #x //y", artist=b"", creator=b"c=1",
                                   lv=(0, 0, 0), levels=[
        dict(n_measures=2, columns=ALL, bpm_changes=True),
        dict(n_measures=2, columns=ALL, bpm_changes=True),
        dict(n_measures=2, columns=ALL, bpm_changes=True)])))
    # equal level numbers: level_name looks the map up by identity, not by level
    specs.append(("equal-level-numbers", dict(bpm=128.0, lv=(5, 5, 5), levels=[
        dict(n_measures=2, columns=ALL, bpm_changes=False),
        dict(n_measures=3, columns=ALL, bpm_changes=False),
        dict(n_measures=2, columns=ALL, bpm_changes=True)])))
    # random ones
    for i in range(30):
        n_levels = rnd.choice([1, 2, 3, 3])
        k = rnd.choice([7, 7, 7, 4, 5, 6, 2, 1])
        specs.append((f"rnd{i}", dict(
            bpm=rnd.choice([60.0, 100.0, 120.0, 145.5, 174.0, 200.0, 300.0]),
            lv=tuple(rnd.randrange(0, 60) for _ in range(3)),
            title=f"T{i}".encode(), artist=f"Ar{i}".encode(), creator=f"Cr{i}".encode(),
            levels=[dict(n_measures=rnd.randrange(0, 6),
                         columns=sorted(rnd.sample(ALL, k)),
                         bpm_changes=rnd.random() < 0.6) for _ in range(n_levels)])))

    for name, spec in specs:
        data = gen_ojn(rnd, spec)
        emit(name, "ojn sha", hashlib.sha256(data).hexdigest(), len(data))
        run_case(name, lambda d=data: O2JMapSet.read(d))

    # The two real OJN files of the repository
    for p in sorted(Path("rsc/maps/o2jam").glob("*.ojn")):
        run_case(p.name, lambda p=p: O2JMapSet.read_file(p))

    # A map set that was edited after reading (unsorted rows, foreign row labels, float times)
    def edited():
        ms = O2JMapSet.read(gen_ojn(random.Random(77), dict(bpm=140.0, levels=[
            dict(n_measures=4, columns=ALL, bpm_changes=True),
            dict(n_measures=4, columns=ALL, bpm_changes=True)])))
        for m in ms.maps:
            for tl in (m.hits, m.holds):
                df = tl.df.iloc[::-1].copy()
                df.index = [i * 3 + 5 for i in range(len(df))]
                df["offset"] = df["offset"] + 0.25
                tl.df = df
        return ms

    run_case("edited", edited)

    import os
    if os.environ.get("DEMO_DUMP"):
        Path(os.environ["DEMO_DUMP"]).write_text("\n".join(OUT), encoding="utf8")
    digest = hashlib.sha256("\n".join(OUT).encode("utf8")).hexdigest()
    print("DIGEST", digest)


if __name__ == "__main__":
    main()
