"""Demo for refactoring 1: TimedList.__init__ / TimedList.from_dict.

Exercises every TimedList subclass of every game with generated contents
(empty, duplicates, negative / fractional offsets, wrongly typed objects,
partial / extra / ragged dict inputs) and prints one sha256 digest over a
canonical dump of all results.
"""
import copy
import hashlib
import importlib
import inspect
import pkgutil
import random

import numpy as np
import pandas as pd

import reamber
from reamber.base.Timed import Timed
from reamber.base.lists.TimedList import TimedList

random.seed(1600116)
OUT = []


def emit(*parts):
    OUT.append(" | ".join(str(p) for p in parts))


def canon(v):
    """Canonical text of a scalar / container including its type."""
    if isinstance(v, (list, tuple)):
        return f"{type(v).__name__}[{','.join(canon(i) for i in v)}]"
    if isinstance(v, dict):
        return "dict{" + ",".join(f"{canon(k)}:{canon(x)}" for k, x in v.items()) + "}"
    if isinstance(v, float) or isinstance(v, np.floating):
        return f"{type(v).__name__}({float(v)!r})"
    return f"{type(v).__name__}({v!r})"


def dump_df(df):
    if not isinstance(df, pd.DataFrame):
        return f"NOT-A-FRAME {canon(df)}"
    lines = [
        "cols=" + canon(list(df.columns)),
        "dtypes=" + canon([str(t) for t in df.dtypes]),
        "index=" + type(df.index).__name__ + canon(list(df.index)),
    ]
    for c in df.columns:
        col = df[c]
        if isinstance(col, pd.DataFrame):  # duplicated labels
            lines.append(f"{c}:=DUP{col.shape}")
        else:
            lines.append(f"{c}:=" + canon(list(col)))
    return " ; ".join(lines)


def dump_tl(tl):
    try:
        df = tl.df
    except Exception as e:  # e.g. unsupported constructor argument
        return f"{type(tl).__name__} NO-DF {type(e).__name__}: {e}"
    return f"{type(tl).__name__} {dump_df(df)}"


def dump_item(it):
    d = it.data
    return (
        f"{type(it).__name__} idx={canon(list(d.index))} dtype={d.dtype} "
        f"vals={canon(list(d))}"
    )


def attempt(label, fn):
    try:
        r = fn()
    except Exception as e:
        emit(label, "RAISED", type(e).__name__, str(e))
        return None
    if isinstance(r, TimedList):
        emit(label, dump_tl(r))
    elif isinstance(r, Timed):
        emit(label, dump_item(r))
    elif isinstance(r, pd.DataFrame):
        emit(label, dump_df(r))
    else:
        emit(label, canon(r))
    return r


def ordered_ops(label, tl):
    """The collection operations of the property on a constructed list."""
    attempt(label + ".len", lambda: len(tl))
    for i in (0, -1, 1):
        attempt(label + f".[{i}]", lambda i=i: tl[i])
    attempt(label + ".[1:3]", lambda: tl[1:3])
    attempt(label + ".[::-1]", lambda: tl[::-1])
    attempt(label + ".iter", lambda: [dump_item(i) for i in tl])
    attempt(label + ".first", lambda: tl.first_offset())
    attempt(label + ".last", lambda: tl.last_offset())
    attempt(label + ".first_last", lambda: tl.first_last_offset())
    attempt(label + ".sorted", lambda: tl.sorted())
    attempt(label + ".sorted(rev)", lambda: tl.sorted(reverse=True))
    for inc in (False, True):
        attempt(label + f".after(0,{inc})", lambda inc=inc: tl.after(0, inc))
        attempt(label + f".before(100.5,{inc})", lambda inc=inc: tl.before(100.5, inc))
    for ends in ((True, False), True, False, (False, True)):
        attempt(
            label + f".between(-50,100.5,{ends})",
            lambda ends=ends: tl.between(-50, 100.5, ends),
        )


# ------------------------------------------------------------------ discovery
LISTS = set()
for m in pkgutil.walk_packages(reamber.__path__, "reamber."):
    if ".algorithms" in m.name:
        continue
    mod = importlib.import_module(m.name)
    for o in vars(mod).values():
        if (
            inspect.isclass(o)
            and o.__module__.startswith("reamber.")
            and issubclass(o, TimedList)
        ):
            LISTS.add(o)
LISTS = sorted(LISTS, key=lambda c: (c.__module__, c.__name__))
emit("N_LISTS", len(LISTS))

OFFSETS = [0.0, -0.0, -250.0, -0.5, 0.25, 100.5, 100.5, 1e6, 33.333333333333336, 1000]
TEXTS = ["", "a.wav", "normal-hit.ogg", "x y"]
BYTES = [b"", b"01", b"ZZ", b"0A"]


def gen_value(name, dtype, default):
    if name == "offset":
        return random.choice(OFFSETS)
    if dtype == "float":
        return random.choice([0.0, -1.5, 0.25, 120.0, 4.0, 1 / 3, 500])
    if dtype == "int":
        return random.randint(-2, 9)
    if dtype == "bool":
        return random.random() < 0.5
    if isinstance(default, bytes):
        return random.choice(BYTES)
    if isinstance(default, list):
        return [random.choice(TEXTS) for _ in range(random.randint(0, 2))]
    return random.choice(TEXTS)


def gen_kwargs(ic):
    return {k: gen_value(k, t, d) for k, (t, d) in ic._props.items()}


def gen_items(ic, n):
    return [ic(**gen_kwargs(ic)) for _ in range(n)]


BAD_POOL = [1, "a", None, 2.5, b"", [], (), {}, object, 3j, True]

for LC in LISTS:
    IC = LC._item_class()
    name = f"{LC.__module__}.{LC.__name__}"
    props = IC._props
    names = list(props)
    emit("CLASS", name, IC.__name__, canon(list(props.items())))

    # ---------------------------------------------------------- __init__
    attempt(name + " init([])", lambda: LC([]))
    attempt(name + " init([]).sliced", lambda: LC([])[0:0])
    for n in (1, 2, 5, 9):
        items = gen_items(IC, n)
        before = [dump_item(i) for i in items]
        tl = attempt(name + f" init(items{n})", lambda: LC(items))
        emit(name + f" init(items{n}).inputs_same", before == [dump_item(i) for i in items])
        if tl is not None:
            ordered_ops(name + f" init(items{n})", tl)
            # from another list / its frame: the frame is shared, not copied
            tl2 = attempt(name + f" init(list{n})", lambda: LC(tl))
            emit(name + f" init(list{n}).shares", tl2.df is tl.df)
            tl3 = attempt(name + f" init(frame{n})", lambda: LC(tl.df))
            emit(name + f" init(frame{n}).shares", tl3.df is tl.df)
            tl4 = attempt(name + f" init(TimedList{n})", lambda: LC(TimedList(tl)))
            emit(name + f" init(TimedList{n}).shares", tl4.df is tl.df)
    single = gen_items(IC, 1)[0]
    attempt(name + " init(single)", lambda: LC(single))
    attempt(name + " init([single]*3)", lambda: LC([single] * 3))
    # items of other classes are still Timed: accepted, columns come from them
    attempt(name + " init(Timed items)", lambda: LC([Timed(offset=3.5), Timed(offset=-1)]))
    attempt(name + " init(mixed items)", lambda: LC([single, Timed(offset=3.5)]))
    # wrongly typed objects
    attempt(name + " init([1,2])", lambda: LC([200, 300]))
    attempt(name + " init([None])", lambda: LC([None]))
    attempt(name + " init([item,1])", lambda: LC([single, 1]))
    attempt(name + " init([1,item])", lambda: LC([1, single]))
    for k in range(4):
        n_bad = random.randint(1, 9)
        objs = [random.choice(BAD_POOL) for _ in range(n_bad)] + gen_items(IC, random.randint(0, 3))
        random.shuffle(objs)
        snapshot = list(objs)
        attempt(name + f" init(bad{k}:{n_bad})", lambda: LC(objs))
        emit(name + f" init(bad{k}).arg_same", len(objs) == len(snapshot) and all(a is b for a, b in zip(objs, snapshot)))
    attempt(name + " init([series])", lambda: LC([single.data]))
    attempt(name + " init([frame])", lambda: LC([pd.DataFrame()]))
    # unsupported argument kinds: nothing is stored
    attempt(name + " init(tuple)", lambda: dump_tl(LC((single,))))
    attempt(name + " init(None)", lambda: dump_tl(LC(None)))
    attempt(name + " init(gen)", lambda: dump_tl(LC(i for i in [single])))
    attempt(name + " init(dict)", lambda: dump_tl(LC({"offset": [1]})))
    attempt(name + " init(series)", lambda: dump_tl(LC(single.data)))

    # ---------------------------------------------------------- from_dict
    def fd(label, d):
        keep = copy.deepcopy(d)
        tl = attempt(name + " from_dict " + label, lambda: LC.from_dict(d))
        emit(name + " from_dict " + label + ".arg_after", canon(d), canon(d) == canon(keep))
        return tl

    fd("{}", {})
    fd("[]", [])
    fd("[{}]", [{}])
    fd("{offset:[]}", {"offset": []})
    fd("all cols empty", {k: [] for k in names})
    for n in (1, 3, 6):
        rows = [gen_kwargs(IC) for _ in range(n)]
        tl = fd(f"rows{n}", rows)
        if tl is not None:
            ordered_ops(name + f" from_dict rows{n}", tl)
        fd(f"cols{n}", {k: [r[k] for r in rows] for k in names})
        fd(f"cols-reversed{n}", {k: [r[k] for r in rows] for k in reversed(names)})
        # partial inputs: every non-empty proper prefix / single column / random subset
        for j in range(1, len(names)):
            sub = names[:j]
            fd(f"rows{n} only {sub}", [{k: r[k] for k in sub} for r in rows])
        for k in names:
            fd(f"cols{n} only {k}", {k: [r[k] for r in rows]})
        sub = random.sample(names, random.randint(1, len(names)))
        tl = fd(f"cols{n} sample {sub}", {k: [r[k] for r in rows] for k in sub})
        # defaults that were filled in belong to their row alone
        if tl is not None:
            for c in tl.df.columns:
                if tl.df[c].dtype == object and len(tl.df) and isinstance(tl.df[c].iloc[0], list):
                    tl.df[c].iloc[0].append("touched")
                    emit(name + f" from_dict cols{n} sample.touch {c}", canon(list(tl.df[c])), canon(props[c]))
        # ragged rows (NaN filled by pandas)
        ragged = [{k: r[k] for k in names if random.random() < 0.7 or k == "offset"} for r in rows]
        fd(f"ragged{n}", ragged)
        # unknown columns
        fd(f"extra{n}", [dict(r, bogus=1) for r in rows])
        fd(f"extra-only{n}", {"bogus": list(range(n))})
        fd(f"extra-case{n}", {"Offset": list(range(n))})
        fd(f"int-col{n}", {0: list(range(n))})
        fd(f"none-col{n}", {None: list(range(n)), "offset": list(range(n))})
        # scalar lists without offset
        if len(names) > 1:
            other = [k for k in names if k != "offset"][0]
            fd(f"no-offset{n}", {other: [rows[i][other] for i in range(n)]})
    fd("mismatched lengths", {"offset": [1, 2], names[0]: [1, 2, 3]} if names[0] != "offset" else {"offset": [1, 2]})
    fd("series values", {"offset": pd.Series([5.5, -1.0], index=[7, 3])})
    fd("dup index", {"offset": pd.Series([5.5, -1.0, 2.0], index=[1, 1, 0])})
    fd("str offsets", {"offset": ["1", "2"]})
    fd("int offsets", {"offset": [3, 1, 2, 1]})
    fd("scalar dict", {"offset": 1.0})
    fd("tuple rows", ({"offset": 1.0}, {"offset": -2.0}))
    fd("string", "offset")
    fd("frame", pd.DataFrame({"offset": [1.0]}))

    # ------------------------------------------------- empty / append context
    for n in (0, 1, 4):
        e = attempt(name + f" empty({n})", lambda: LC.empty(n))
    base = attempt(name + " append.base", lambda: LC(gen_items(IC, 3)))
    if base is None:  # abstract list class: cannot be instantiated at all
        continue
    base_before = dump_tl(base)
    extra = gen_items(IC, 2)
    for sort in (False, True):
        attempt(name + f" append(item,{sort})", lambda: base.append(extra[0], sort=sort))
        attempt(name + f" append(list,{sort})", lambda: base.append(LC(extra), sort=sort))
        attempt(name + f" append(empty,{sort})", lambda: base.append(LC([]), sort=sort))
        attempt(name + f" empty.append(item,{sort})", lambda: LC([]).append(extra[1], sort=sort))
        attempt(name + f" empty.append(list,{sort})", lambda: LC([]).append(base, sort=sort))
        attempt(name + f" from_dict.append({sort})", lambda: LC.from_dict({"offset": [9.5, -3.0]}).append(base, sort=sort))
    emit(name + " append.self_same", dump_tl(base) == base_before)

text = "\n".join(OUT)
import sys
print("LINES", len(OUT), file=sys.stderr)
print("DIGEST", hashlib.sha256(text.encode("utf-8", "backslashreplace")).hexdigest())
