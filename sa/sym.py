"""Formula shapes: canonical form of arithmetic expressions as rational functions.

A purely syntactic abstract interpretation of an expression tree over the field
of rational functions Q(x1..xn): `+ - * /`, unary minus, `Fraction(a, b) = a/b`,
numeric literals; every other sub-expression is an opaque *atom* named by a
caller-supplied leaf function (or by its normalised text).  Two formulas have the
same shape iff their canonical forms are equal (cross-multiplication).  Nothing
is evaluated on chart data and no solver is involved; this only decides whether
two pieces of source denote the same arithmetic, so that `a / b * c`,
`c * a / b` and `Fraction(a * c, b)` are accepted alike (no brittle text match).
"""
from __future__ import annotations

import ast
from fractions import Fraction
from typing import Callable, Dict, Optional, Tuple

Mono = Tuple[Tuple[str, int], ...]      # sorted ((symbol, power), ...)
Poly = Dict[Mono, Fraction]


class Opaque(Exception):
    pass


def _padd(a: Poly, b: Poly, s=1) -> Poly:
    out = dict(a)
    for m, c in b.items():
        v = out.get(m, 0) + s * c
        if v == 0:
            out.pop(m, None)
        else:
            out[m] = v
    return out


def _mmul(a: Mono, b: Mono) -> Mono:
    d = dict(a)
    for s, p in b:
        d[s] = d.get(s, 0) + p
    return tuple(sorted((s, p) for s, p in d.items() if p))


def _pmul(a: Poly, b: Poly) -> Poly:
    out: Poly = {}
    for m1, c1 in a.items():
        for m2, c2 in b.items():
            m = _mmul(m1, m2)
            v = out.get(m, 0) + c1 * c2
            if v == 0:
                out.pop(m, None)
            else:
                out[m] = v
    return out


def _const(v) -> Poly:
    f = Fraction(v).limit_denominator(10 ** 9) if isinstance(v, float) else Fraction(v)
    return {(): f} if f != 0 else {}


def _sym(name: str) -> Poly:
    return {((name, 1),): Fraction(1)}


class RF:
    """num / den, both polynomials."""

    def __init__(self, num: Poly, den: Optional[Poly] = None):
        self.num = num
        self.den = den if den is not None else {(): Fraction(1)}

    def __add__(self, o):
        return RF(_padd(_pmul(self.num, o.den), _pmul(o.num, self.den)), _pmul(self.den, o.den))

    def __sub__(self, o):
        return RF(_padd(_pmul(self.num, o.den), _pmul(o.num, self.den), -1), _pmul(self.den, o.den))

    def __mul__(self, o):
        return RF(_pmul(self.num, o.num), _pmul(self.den, o.den))

    def __truediv__(self, o):
        if not o.num:
            raise Opaque("division by literal zero")
        return RF(_pmul(self.num, o.den), _pmul(self.den, o.num))

    def __neg__(self):
        return RF({m: -c for m, c in self.num.items()}, self.den)

    def same(self, o: "RF") -> bool:
        return _pmul(self.num, o.den) == _pmul(o.num, self.den)

    def symbols(self):
        return {s for p in (self.num, self.den) for m in p for s, _ in m}


LeafFn = Callable[[ast.AST], Optional[str]]


def canon(e: ast.AST, leaf: Optional[LeafFn] = None, transparent=("float", "Fraction1")) -> RF:
    """Canonical rational function of an expression.  ``leaf(node)`` may name a
    sub-expression (returning a symbol) before it is decomposed.  `float(x)` is
    transparent (a representation change, not arithmetic); `int`, `round`, `//`,
    `%` are opaque atoms applied to the canonical text of their arguments."""
    if leaf is not None:
        s = leaf(e)
        if isinstance(s, RF):
            return s
        if s is not None:
            return RF(_sym(s))
    if isinstance(e, ast.Constant) and isinstance(e.value, (int, float)) and not isinstance(e.value, bool):
        return RF(_const(e.value))
    if isinstance(e, ast.UnaryOp) and isinstance(e.op, ast.USub):
        return -canon(e.operand, leaf, transparent)
    if isinstance(e, ast.UnaryOp) and isinstance(e.op, ast.UAdd):
        return canon(e.operand, leaf, transparent)
    if isinstance(e, ast.BinOp):
        if isinstance(e.op, (ast.Add, ast.Sub, ast.Mult, ast.Div)):
            a, b = canon(e.left, leaf, transparent), canon(e.right, leaf, transparent)
            if isinstance(e.op, ast.Add):
                return a + b
            if isinstance(e.op, ast.Sub):
                return a - b
            if isinstance(e.op, ast.Mult):
                return a * b
            return a / b
        if isinstance(e.op, ast.Pow) and isinstance(e.right, ast.Constant) and isinstance(e.right.value, int) \
                and 0 <= e.right.value <= 4:
            a = canon(e.left, leaf, transparent)
            out = RF(_const(1))
            for _ in range(e.right.value):
                out = out * a
            return out
        if isinstance(e.op, ast.FloorDiv) and "floordiv" in transparent:
            # asked for by a rule that also looks through int(): for the non-negative integers it is applied to, a // b = int(a / b)
            return canon(e.left, leaf, transparent) / canon(e.right, leaf, transparent)
        opname = type(e.op).__name__
        return RF(_sym(f"{opname}({text(e.left, leaf)},{text(e.right, leaf)})"))
    if isinstance(e, ast.Call):
        fn = e.func.id if isinstance(e.func, ast.Name) else (e.func.attr if isinstance(e.func, ast.Attribute) else None)
        if fn == "Fraction" and len(e.args) == 2 and not e.keywords:
            return canon(e.args[0], leaf, transparent) / canon(e.args[1], leaf, transparent)
        if fn in ("Fraction", "float") + tuple(t for t in transparent if t != "Fraction1") and len(e.args) == 1 and not e.keywords:
            return canon(e.args[0], leaf, transparent)
        if fn is not None and not e.keywords:
            return RF(_sym(f"{fn}({','.join(text(a, leaf) for a in e.args)})"))
    if isinstance(e, ast.Name):
        return RF(_sym(e.id))
    return RF(_sym(_norm(e)))


def _norm(e: ast.AST) -> str:
    try:
        return ast.unparse(e).replace(" ", "")
    except Exception:  # pragma: no cover
        return f"<{type(e).__name__}>"


def text(e: ast.AST, leaf: Optional[LeafFn] = None) -> str:
    """Deterministic text of the canonical form (used to name opaque atoms)."""
    r = canon(e, leaf)

    def ptxt(p: Poly) -> str:
        if not p:
            return "0"
        parts = []
        for m in sorted(p):
            c = p[m]
            ms = "*".join(s if k == 1 else f"{s}^{k}" for s, k in m)
            parts.append(f"{c}" + (f"*{ms}" if ms else ""))
        return "+".join(parts)
    n, d = ptxt(r.num), ptxt(r.den)
    return n if d == "1" else f"({n})/({d})"


def parse(src: str, leaf: Optional[LeafFn] = None) -> RF:
    return canon(ast.parse(src, mode="eval").body, leaf)


def same_formula(e: ast.AST, spec: str, leaf: Optional[LeafFn] = None) -> bool:
    return canon(e, leaf).same(parse(spec))


def only_modelled(e: ast.AST, allowed_symbols, leaf: Optional[LeafFn] = None) -> bool:
    """True when the formula mentions only the allowed symbols (no opaque atom):
    a mismatch is then a *different* modelled formula (violation), otherwise undecided."""
    return canon(e, leaf).symbols() <= set(allowed_symbols)
