"""Differential demo for property C20 (pattern grouping / combinations).

Run as:  cd /tmp/wt7/C20 && PYTHONPATH=/tmp/wt7/C20 /venv/bin/python demo.py
Prints one line `DIGEST <sha256>` over a canonical dump of every result.
"""
import hashlib
import math
import random
import sys
import warnings

warnings.filterwarnings("ignore")

import numpy as np
import pandas as pd

from reamber.algorithms.pattern import Pattern
from reamber.algorithms.pattern.combos import PtnCombo
from reamber.algorithms.pattern.filters import (
    PtnFilterChord,
    PtnFilterCombo,
    PtnFilterType,
)
from reamber.base.Hit import Hit
from reamber.base.Hold import Hold, HoldTail
from reamber.base.lists.notes.HitList import HitList
from reamber.base.lists.notes.HoldList import HoldList
from reamber.osu import OsuHit, OsuHold
from reamber.osu.lists.notes import OsuHitList, OsuHoldList

random.seed(20200720)
np.random.seed(20200720)

OUT = []


def emit(*parts):
    OUT.append(" | ".join(str(p) for p in parts))


# --------------------------------------------------------------------------
# canonical dumps
# --------------------------------------------------------------------------
def d_scalar(x):
    if isinstance(x, type):
        return f"<cls {x.__module__}.{x.__qualname__}>"
    if isinstance(x, (tuple, list)):
        return type(x).__name__ + "(" + ",".join(d_scalar(i) for i in x) + ")"
    return f"{type(x).__name__}:{x!r}"


def d_array(a):
    if isinstance(a, (pd.Series, pd.DataFrame)):
        return d_frame(a)
    if not isinstance(a, np.ndarray):
        return "NOTARRAY " + d_scalar(a)
    head = (
        f"{type(a).__module__}.{type(a).__name__} shape={a.shape} "
        f"dtype={a.dtype.descr if a.dtype.names else a.dtype.str} "
        f"w={a.flags.writeable}"
    )
    if a.dtype.names:
        body = []
        for n in a.dtype.names:
            f = np.asarray(a)[n]
            body.append(
                f"{n}<{f.dtype.str}>=["
                + ",".join(d_scalar(x) for x in f.ravel().tolist())
                + "]"
            )
        return head + " " + " ".join(body)
    return head + " [" + ",".join(d_scalar(x) for x in a.ravel().tolist()) + "]"


def d_frame(df):
    if isinstance(df, pd.Series):
        return (
            f"Series name={df.name!r} dtype={df.dtype} idx={list(df.index)!r} "
            + "["
            + ",".join(d_scalar(x) for x in df.tolist())
            + "]"
        )
    cols = []
    for c in df.columns:
        cols.append(
            f"{c!r}<{df[c].dtype}>=["
            + ",".join(d_scalar(x) for x in df[c].tolist())
            + "]"
        )
    return (
        f"DataFrame cols={list(df.columns)!r} idx={type(df.index).__name__}"
        f"{list(df.index)!r} " + " ".join(cols)
    )


def d_list(lst):
    if not isinstance(lst, list):
        return "NOTLIST " + type(lst).__name__ + " " + d_array(lst)
    return f"list[{len(lst)}]: " + " ;; ".join(d_array(a) for a in lst)


def attempt(label, fn, dumper):
    try:
        r = fn()
    except Exception as e:  # noqa
        emit(label, "EXC", type(e).__name__)
        return None
    emit(label, "OK", dumper(r))
    return r


# --------------------------------------------------------------------------
# input generators
# --------------------------------------------------------------------------
TYPES = [Hit, Hold, HoldTail, OsuHit, OsuHold]


def gen_pattern(n, keys, mode):
    cols = [random.randrange(keys) for _ in range(n)]
    if mode == "grid":  # many ties
        offs = [random.randrange(0, 7) * 50 for _ in range(n)]
    elif mode == "float":
        offs = [round(random.uniform(-200, 600), 3) for _ in range(n)]
    elif mode == "neg":
        offs = [random.randrange(-6, 3) * 25 for _ in range(n)]
    elif mode == "same":  # everything at one time
        offs = [100] * n
    elif mode == "jack":  # one column only
        cols = [keys - 1] * n
        offs = [i * 50 for i in range(n)]
    elif mode == "gridf":  # float grid, exact window boundaries
        offs = [random.randrange(0, 9) * 12.5 for _ in range(n)]
    else:
        raise AssertionError(mode)
    types = [random.choice(TYPES) for _ in range(n)]
    order = list(range(n))
    random.shuffle(order)  # unsorted rows
    return (
        [cols[i] for i in order],
        [offs[i] for i in order],
        [types[i] for i in order],
    )


def gen_note_lists(n_hit, n_hold, keys, osu):
    H, HL, LN, LNL = (
        (OsuHit, OsuHitList, OsuHold, OsuHoldList)
        if osu
        else (Hit, HitList, Hold, HoldList)
    )
    hits = HL([H(random.randrange(0, 8) * 50, random.randrange(keys)) for _ in range(n_hit)])
    holds = LNL(
        [
            LN(
                random.randrange(0, 8) * 50,
                random.randrange(keys),
                random.choice([0, 25, 50, 100, 175.5]),
            )
            for _ in range(n_hold)
        ]
    )
    return hits, holds


# --------------------------------------------------------------------------
# filters
# --------------------------------------------------------------------------
CALLS = []


def logging_chord(inner):
    def f(sizes):
        CALLS.append("chord:" + d_array(sizes))
        return True if inner is None else inner(sizes)

    return f


def logging_rows(tag, inner):
    def f(data):
        CALLS.append(f"{tag}:" + d_array(data))
        return np.ones(data.shape[0], dtype=bool) if inner is None else inner(data)

    return f


def rand_chord_filter(size, keys):
    n_rows = random.choice([1, 1, 2])
    fsize = size if random.random() < 0.9 else max(1, size + random.choice([-1, 1]))
    rows = [[random.randint(1, min(keys, 3)) for _ in range(fsize)] for _ in range(n_rows)]
    opt = random.randrange(8)
    if keys**fsize * math.factorial(fsize) > 20000:
        opt &= ~PtnFilterChord.Option.AND_HIGHER  # keep the filter table small
    exc = random.random() < 0.3
    desc = f"chord{rows}/k{keys}/o{opt}/x{exc}"
    return desc, PtnFilterChord.create(rows, keys=keys, options=opt, exclude=exc).filter


def rand_combo_filter(size, keys):
    n_rows = random.choice([1, 1, 2])
    fsize = size if random.random() < 0.9 else max(1, size + random.choice([-1, 1]))
    rows = [[random.randrange(keys) for _ in range(fsize)] for _ in range(n_rows)]
    if random.random() < 0.4:
        rows = [[0] * fsize]
    opt = random.randrange(8)
    exc = random.random() < 0.4
    desc = f"combo{rows}/k{keys}/o{opt}/x{exc}"
    return desc, PtnFilterCombo.create(rows, keys=keys, options=opt, exclude=exc).filter


def rand_type_filter(size):
    pool = [Hit, Hold, HoldTail, object, OsuHit, OsuHold]
    fsize = size if random.random() < 0.9 else max(1, size + random.choice([-1, 1]))
    rows = [[random.choice(pool) for _ in range(fsize)] for _ in range(random.choice([1, 2]))]
    opt = random.randrange(4)
    exc = random.random() < 0.5
    desc = f"type{[[t.__name__ for t in r] for r in rows]}/o{opt}/x{exc}"
    return desc, PtnFilterType.create(rows, options=opt, exclude=exc).filter


# --------------------------------------------------------------------------
# checks of the property itself (sanity: must hold on both trees)
# --------------------------------------------------------------------------
def check_partition(p, groups, v, h, aj):
    tot = sum(len(g) for g in groups)
    assert tot == len(p), ("partition size", tot, len(p))
    allrows = sorted(
        (int(c) if c == c else c, float(o), id(t))
        for g in groups
        for c, o, t in zip(g["column"].tolist(), g["offset"].tolist(), g["type"].tolist())
    )
    ref = sorted(
        (int(c), float(o), id(t))
        for c, o, t in zip(p.df["column"].tolist(), p.df["offset"].tolist(), p.df["type"].tolist())
    )
    assert allrows == ref, "partition multiset"
    for g in groups:
        assert len(g) > 0
        o0, c0 = g["offset"][0], g["column"][0]
        assert all(o0 <= o <= o0 + v for o in g["offset"].tolist())
        if h is not None:
            assert all(abs(c - c0) <= h for c in g["column"].tolist())
        if aj:
            assert len(set(g["column"].tolist())) == len(g)


# --------------------------------------------------------------------------
# scenario 1: grouping over many patterns / windows
# --------------------------------------------------------------------------
V_WINDOWS = [0, 0.0, 1, 12.5, 50, 50.0, 99.999, 100, 125.5, 1e9]
H_WINDOWS = [None, 0, 1, 2, 3, 10]

patterns = []
specs = [
    (0, 4, "grid"), (1, 4, "grid"), (2, 4, "same"), (2, 4, "grid"), (3, 7, "grid"),
    (5, 4, "grid"), (6, 4, "float"), (8, 4, "grid"), (8, 7, "grid"), (8, 4, "neg"),
    (9, 4, "same"), (10, 7, "same"), (6, 4, "jack"), (12, 4, "grid"), (12, 7, "float"),
    (12, 7, "gridf"), (16, 4, "grid"), (17, 7, "grid"), (20, 4, "gridf"), (20, 7, "neg"),
    (24, 4, "grid"), (30, 7, "grid"), (33, 4, "float"), (40, 7, "grid"), (40, 4, "gridf"),
    (60, 7, "float"), (64, 9, "grid"), (7, 1, "grid"), (15, 2, "gridf"), (25, 10, "grid"),
]
for n, keys, mode in specs:
    cols, offs, types = gen_pattern(n, keys, mode)
    in_copy = (list(cols), list(offs), list(types))
    p = attempt(f"P{len(patterns)} init n={n} k={keys} {mode}",
                lambda: Pattern(cols, offs, types), lambda p_: d_frame(p_.df))
    emit("  inputs-unchanged", (cols, offs, types) == in_copy)
    patterns.append((p, keys, f"P{len(patterns)}"))

# from_note_lists (hold tails requested / not requested)
for i, (nh, nl, keys, osu) in enumerate(
    [(0, 0, 4, False), (5, 0, 4, False), (0, 4, 4, True), (6, 3, 4, True),
     (10, 6, 7, False), (14, 9, 7, True), (3, 12, 4, False), (20, 10, 7, True)]
):
    hits, holds = gen_note_lists(nh, nl, keys, osu)
    for tails in (True, False):
        before = (d_frame(hits.df), d_frame(holds.df))
        order = [hits, holds] if i % 2 == 0 else [holds, hits, type(hits)([])]
        p = attempt(f"NL{i} tails={tails} osu={osu}",
                    lambda: Pattern.from_note_lists(order, include_tails=tails),
                    lambda p_: d_frame(p_.df))
        emit("  lists-unchanged", before == (d_frame(hits.df), d_frame(holds.df)))
        patterns.append((p, keys, f"NL{i}t{int(tails)}"))
attempt("NL-empty", lambda: Pattern.from_note_lists([]), lambda p_: d_frame(p_.df))
attempt("NL-default", lambda: Pattern.from_note_lists([HitList([Hit(3, 1)]), HoldList([Hold(1, 0, 5)])]),
        lambda p_: d_frame(p_.df))

groupings = []  # (name, keys, groups)
for p, keys, name in patterns:
    df_before = d_frame(p.df)
    attempt(f"{name} len", lambda: len(p), d_scalar)
    for v in V_WINDOWS:
        for h in H_WINDOWS:
            for aj in (True, False):
                g = attempt(f"{name} group v={v!r} h={h!r} aj={aj}",
                            lambda: p.group(v, h, aj), d_list)
                if g is not None:
                    check_partition(p, g, v, h, aj)
                    groupings.append((f"{name}/v{v!r}/h{h!r}/aj{aj}", keys, g, len(p)))
    # defaults, keyword forms, invalid windows
    attempt(f"{name} group()", lambda: p.group(), d_list)
    attempt(f"{name} group(h_window=1)", lambda: p.group(h_window=1), d_list)
    attempt(f"{name} group(aj=0)", lambda: p.group(v_window=75, avoid_jack=0), d_list)
    attempt(f"{name} group v<0", lambda: p.group(-1, None, True), d_list)
    attempt(f"{name} group v=-0.5 h<0", lambda: p.group(-0.5, -1, True), d_list)
    attempt(f"{name} group h<0", lambda: p.group(10, -1, False), d_list)
    attempt(f"{name} group h=-3", lambda: p.group(0, -3), d_list)
    attempt(f"{name} group np windows", lambda: p.group(np.float64(50), np.int64(1), np.bool_(True)), d_list)
    emit(f"{name} df-unchanged", df_before == d_frame(p.df))

# --------------------------------------------------------------------------
# scenario 2: v_mask / h_mask called directly (record arrays and DataFrames)
# --------------------------------------------------------------------------
for p, keys, name in patterns[::2]:
    ar = p.df.to_records(index=False)
    ar_before = d_array(ar)
    df_before = d_frame(p.df)
    cand = sorted(set(p.df["offset"].tolist()))[:6] + [-1000, 10**6, 37.25]
    for src_name, src in (("rec", ar), ("df", p.df)):
        for off in cand:
            for v in (0, 50, 100.0, 1e9):
                for aj in (True, False):
                    attempt(f"{name} v_mask {src_name} off={off!r} v={v!r} aj={aj}",
                            lambda: Pattern.v_mask(src, off, v, aj), d_array)
        for col in (-1, 0, 1, keys - 1, keys + 3):
            for h in (0, 1, 2, 10):
                attempt(f"{name} h_mask {src_name} col={col} h={h}",
                        lambda: Pattern.h_mask(src, col, h), d_array)
    emit(f"{name} masks-inputs-unchanged", ar_before == d_array(ar), df_before == d_frame(p.df))

# --------------------------------------------------------------------------
# scenario 3: combinations, sizes 1..5, every filter option
# --------------------------------------------------------------------------
random.shuffle(groupings)
n_combo = 0
for gname, keys, groups, n_notes in groupings:
    if n_combo >= 420:
        break
    big = max((len(g) for g in groups), default=0)
    size = random.choice([2, 2, 2, 3, 3, 4, 1, 5])
    if big ** size > 3000 or len(groups) == 0 and random.random() < 0.8:
        continue
    n_combo += 1
    g_before = d_list(groups)
    pc = PtnCombo(groups)
    for make2 in (False, True):
        attempt(f"C {gname} size={size} m2={make2} nofilter",
                lambda: pc.combinations(size=size, make_size2=make2), d_list)
    for rep in range(3):
        cd, cf = rand_chord_filter(size, keys) if random.random() < 0.7 else ("None", None)
        bd, bf = rand_combo_filter(size, keys) if random.random() < 0.7 else ("None", None)
        td, tf = rand_type_filter(size) if random.random() < 0.7 else ("None", None)
        make2 = random.random() < 0.5
        del CALLS[:]
        use_log = rep == 0
        attempt(
            f"C {gname} size={size} m2={make2} {cd} {bd} {td}",
            lambda: pc.combinations(
                size=size,
                make_size2=make2,
                chord_filter=logging_chord(cf) if use_log else cf,
                combo_filter=logging_rows("combo", bf) if use_log else bf,
                type_filter=logging_rows("type", tf) if use_log else tf,
            ),
            d_list,
        )
        if use_log:
            emit("  calls", hashlib.sha256("\n".join(CALLS).encode()).hexdigest(), len(CALLS))
    # positional form and templates
    attempt(f"C {gname} positional", lambda: pc.combinations(2, True, None, None, None), d_list)
    attempt(f"C {gname} chordstream", lambda: pc.template_chord_stream(2, 1, keys, bool(n_combo % 2), bool(n_combo % 3)), d_list)
    attempt(f"C {gname} jacks", lambda: pc.template_jacks(2 + n_combo % 2, keys), d_list)
    emit("  groups-unchanged", g_before == d_list(pc.groups), pc.groups is groups)

# degenerate PtnCombo inputs
for size in (0, 1, 2, 3, -1):
    attempt(f"C default size={size}", lambda: PtnCombo().combinations(size=size), d_list)
    attempt(f"C empty-list size={size} m2", lambda: PtnCombo([]).combinations(size=size, make_size2=True), d_list)
p0 = patterns[8][0]
for size in (0, -1, 1, 50):
    for make2 in (False, True):
        attempt(f"C P8 size={size} m2={make2}", lambda: PtnCombo(p0.group(50)).combinations(size, make2), d_list)
attempt("C jacks min<2", lambda: PtnCombo(p0.group()).template_jacks(1, 4), d_list)
# filters that reject everything / raise
attempt("C reject-all chord", lambda: PtnCombo(p0.group()).combinations(2, chord_filter=lambda s: False), d_list)
attempt("C reject-all combo", lambda: PtnCombo(p0.group()).combinations(2, True, combo_filter=lambda c: np.zeros(len(c), bool)), d_list)
attempt("C reject-all type", lambda: PtnCombo(p0.group()).combinations(3, False, type_filter=lambda c: np.zeros(len(c), bool)), d_list)


def boom(_):
    raise KeyError("boom")


attempt("C raising chord", lambda: PtnCombo(p0.group()).combinations(2, chord_filter=boom), d_list)
attempt("C raising combo", lambda: PtnCombo(p0.group()).combinations(2, chord_filter=boom, combo_filter=lambda c: 1 / 0), d_list)
attempt("C raising type", lambda: PtnCombo(p0.group()).combinations(2, type_filter=boom), d_list)

text = "\n".join(OUT)
if "--dump" in sys.argv:
    sys.stdout.write(text + "\n")
print(f"LINES {len(OUT)} COMBOS {n_combo}", file=sys.stderr)
print("DIGEST " + hashlib.sha256(text.encode()).hexdigest())
