"""Demo for refactoring 2: TimingMap.beats (cumulative beat counts).

Run as:  cd /tmp/wt7/C10 && PYTHONPATH=/tmp/wt7/C10 /venv/bin/python demo.py
Prints one line `DIGEST <sha256>` over a canonical dump of every result.
"""
import hashlib
import logging
import random
from copy import deepcopy
from fractions import Fraction

import numpy as np
import pandas as pd

from reamber.algorithms.timing.TimingMap import TimingMap
from reamber.algorithms.timing.utils.BpmChangeOffset import BpmChangeOffset
from reamber.algorithms.timing.utils.BpmChangeSnap import BpmChangeSnap
from reamber.algorithms.timing.utils.Snapper import Snapper
from reamber.algorithms.timing.utils.snap import Snap

logging.disable(logging.CRITICAL)
random.seed(20261002)

OUT = []


def canon(x):
    """Canonical text of a value including its exact type."""
    if isinstance(x, np.ndarray):
        return "ndarray[%s,%s,%s](%s)" % (
            x.dtype,
            x.shape,
            "C" if x.flags["C_CONTIGUOUS"] else "-",
            ",".join(canon(e) for e in x.tolist())
            if x.dtype != object
            else ",".join(canon(e) for e in x),
        )
    if isinstance(x, pd.Series):
        return "Series[%s,%s](%s)" % (x.dtype, list(x.index), canon(x.to_numpy()))
    if isinstance(x, Snap):
        return "Snap(%s,%s,%s)" % (canon(x.measure), canon(x.beat), canon(x.metronome))
    if isinstance(x, (BpmChangeOffset,)):
        return "BCO(%s,%s,%s)" % (canon(x.bpm), canon(x.metronome), canon(x.offset))
    if isinstance(x, (BpmChangeSnap,)):
        return "BCS(%s,%s,%s)" % (canon(x.bpm), canon(x.metronome), canon(x.snap))
    if isinstance(x, (list, tuple)):
        return "%s(%s)" % (type(x).__name__, ",".join(canon(e) for e in x))
    if isinstance(x, float):
        return "%s:%s" % (type(x).__name__, float(x).hex())
    return "%s:%r" % (type(x).__name__, x)


def record(label, fn):
    try:
        res = fn()
        OUT.append("%s => %s" % (label, canon(res)))
        return res
    except Exception as e:  # noqa
        OUT.append("%s => EXC %s: %s" % (label, type(e).__name__, e))
        return None


def rand_bpm():
    k = random.random()
    if k < 0.3:
        return random.choice([60, 90, 120, 150, 175, 200, 240, 60000])
    if k < 0.6:
        return round(random.uniform(30, 400), random.choice([0, 1, 2, 3]))
    if k < 0.8:
        return np.float64(random.uniform(1, 1000))
    return random.uniform(0.5, 2000)


def rand_initial_offset():
    return random.choice(
        [0, 0.0, -1500, -37.25, 12, 1234.5, random.uniform(-5000, 5000), -0.001]
    )


def tm_from_snaps(n, const_metronome=None):
    """Tempo changes that all lie on measure boundaries."""
    measure = 0
    bcs_s = []
    for i in range(n):
        metro = const_metronome or random.randint(1, 8)
        bcs_s.append(BpmChangeSnap(rand_bpm(), metro, Snap(measure, 0, metro)))
        measure += random.randint(1, 6)
    random.shuffle(bcs_s)
    return TimingMap.from_bpm_changes_snap(rand_initial_offset(), bcs_s)


def tm_from_offsets(n):
    """Tempo changes at arbitrary ms positions (unsorted on purpose)."""
    o = rand_initial_offset()
    bco_s = []
    for i in range(n):
        bco_s.append(BpmChangeOffset(rand_bpm(), random.randint(1, 8), o))
        o += random.choice([250, 1000, 333.333, random.uniform(1, 5000), 4000])
    random.shuffle(bco_s)
    return TimingMap.from_bpm_changes_offset(bco_s)


def rand_snap_queries(tm, k):
    last = tm.bpm_changes_snap()[-1].snap.measure
    pool = []
    for _ in range(k):
        metro = random.randint(1, 8)
        den = random.choice([1, 2, 3, 4, 6, 8, 12, 16, 48, 96, 192])
        beat = Fraction(random.randrange(0, metro * den), den)
        pool.append(Snap(random.randint(0, last + 4), beat, metro))
    # duplicates + the tempo-change positions themselves
    pool += random.choices(pool, k=max(1, k // 3))
    pool += [deepcopy(b.snap) for b in tm.bpm_changes_snap()]
    random.shuffle(pool)
    return pool


def rand_offset_queries(tm, k):
    first = tm.bpm_changes_offset[0].offset
    last = tm.bpm_changes_offset[-1].offset
    pool = [random.uniform(first, last + 5000) for _ in range(k)]
    pool += random.choices(pool, k=max(1, k // 3))
    pool += [b.offset for b in tm.bpm_changes_offset]
    # points just before / after each tempo change
    pool += [b.offset + d for b in tm.bpm_changes_offset[1:] for d in (-1e-6, 1e-6, 0.5)]
    pool = [p for p in pool if p >= first]
    random.shuffle(pool)
    return pool


snapper = Snapper()
case = 0


def grid_offsets(tm, k):
    """Times that lie exactly on the snap grid of the timing map."""
    sq = rand_snap_queries(tm, k)
    try:
        return [float(o) for o in tm.offsets(sq)]
    except Exception:  # some off-measure maps cannot be queried by snap
        return []


for n in [1, 1, 2, 2, 3, 3, 4, 5, 6, 8]:
    for builder in (
        lambda n: tm_from_snaps(n, const_metronome=random.randint(1, 8)),
        tm_from_snaps,
        tm_from_offsets,
    ):
        for rep in range(2):
            case += 1
            tm = builder(n)
            tag = "case%03d[n=%d]" % (case, n)
            OUT.append("%s bco=%s" % (tag, canon(tm.bpm_changes_offset)))
            first = tm.bpm_changes_offset[0].offset

            oq = rand_offset_queries(tm, random.choice([1, 3, 9, 30, 60]))
            oq_copy = list(oq)
            res = record(tag + " beats(list)", lambda: tm.beats(oq, snapper))
            OUT.append("%s beats-arg-unchanged %s" % (tag, oq == oq_copy))
            if res is not None:
                # the beat distance between the sorted queries
                order = np.argsort(oq, kind="stable")
                OUT.append("%s beat-steps %s" % (tag, canon(list(np.diff(res[order])))))
            record(tag + " beats(sorted)", lambda: tm.beats(sorted(oq), snapper))
            record(tag + " beats(rev)", lambda: tm.beats(sorted(oq)[::-1], snapper))
            record(tag + " beats(tuple)", lambda: tm.beats(tuple(oq), snapper))
            record(tag + " beats(ndarray)", lambda: tm.beats(np.array(oq), snapper))
            ser = pd.Series(oq, index=range(10, 10 + len(oq)))
            record(tag + " beats(Series)", lambda: tm.beats(ser, snapper))
            OUT.append("%s beats-series-after %s" % (tag, canon(ser)))
            ints = [int(q) for q in oq if int(q) >= first]
            record(tag + " beats(ints)", lambda: tm.beats(ints, snapper))
            record(tag + " beats(coarse)", lambda: tm.beats(oq, Snapper((1, 2, 4))))
            go = grid_offsets(tm, random.choice([2, 7, 25]))
            record(tag + " beats(grid)", lambda: tm.beats(go, snapper))
            record(tag + " beats(bpm-offsets)",
                   lambda: tm.beats([b.offset for b in tm.bpm_changes_offset], snapper))

            # --- edge cases
            record(tag + " beats([])", lambda: tm.beats([], snapper))
            record(tag + " beats(())", lambda: tm.beats((), snapper))
            record(tag + " beats(empty-ndarray)", lambda: tm.beats(np.array([]), snapper))
            record(tag + " beats(empty-Series)",
                   lambda: tm.beats(pd.Series([], dtype=float), snapper))
            record(tag + " beats(single)", lambda: tm.beats([oq[0]], snapper))
            record(tag + " beats(first)", lambda: tm.beats([first], snapper))
            record(tag + " beats(all-dupes)", lambda: tm.beats([oq[0]] * 5, snapper))
            record(tag + " beats(pair-dupes)", lambda: tm.beats([oq[0], oq[-1]] * 2, snapper))
            # outside the domain: exceptions
            record(tag + " beats(before-first)",
                   lambda: tm.beats([first + 10, first - 1, first + 20], snapper))
            record(tag + " beats(nan)", lambda: tm.beats([first + 1, float("nan")], snapper))
            record(tag + " beats(None)", lambda: tm.beats(None, snapper))
            OUT.append("%s bco-after=%s" % (tag, canon(tm.bpm_changes_offset)))

record("empty-tm beats", lambda: TimingMap(bpm_changes_offset=[]).beats([0.0], snapper))
record("empty-tm beats([])", lambda: TimingMap(bpm_changes_offset=[]).beats([], snapper))

# The unit-test map: 1 beat == 1 ms
tm = TimingMap.from_bpm_changes_offset([BpmChangeOffset(60000, 4, 0)])
for q in ([0, 1, 2], [0, 1, 0], [2, 1, 0], [0, 0, 0], [1, 1, 1], [7, 3, 3, 12, 0, 5]):
    record("unit %r" % (q,), lambda: tm.beats(q, snapper))

import os
if os.environ.get("DEMO_DUMP"):
    open(os.environ["DEMO_DUMP"], "w").write("\n".join(OUT))
print("DIGEST " + hashlib.sha256("\n".join(OUT).encode()).hexdigest())
