"""Common harness used (by copy) in the three demos of C03.

Generates a broad deterministic family of in-memory StepMania mapsets from the
quantified domain of property C03 and dumps, canonically:
  * the written .sm text (SMMapSet.write and each SMMap.write),
  * the mapset read back from that text (every list: values, dtypes, column
    order, row labels; every header field),
  * the text written again from the re-read mapset,
  * the input mapset afterwards (non-mutation),
  * raised exception types and warning categories.
"""
from __future__ import annotations

import hashlib
import random
import warnings
from fractions import Fraction
from pathlib import Path

import numpy as np
import pandas as pd

import reamber
from reamber.sm.SMMapSet import SMMapSet
from reamber.sm.SMMap import SMMap
from reamber.sm.SMBpm import SMBpm
from reamber.sm.SMStop import SMStop
from reamber.sm.SMHit import SMHit
from reamber.sm.SMHold import SMHold
from reamber.sm.SMRoll import SMRoll
from reamber.sm.SMFake import SMFake
from reamber.sm.SMLift import SMLift
from reamber.sm.SMMine import SMMine
from reamber.sm.SMKeySound import SMKeySound
from reamber.sm.lists.SMBpmList import SMBpmList
from reamber.sm.lists.SMStopList import SMStopList
from reamber.sm.lists.notes import (
    SMHitList,
    SMHoldList,
    SMFakeList,
    SMLiftList,
    SMKeySoundList,
    SMMineList,
    SMRollList,
)

RSC = Path(reamber.__file__).parents[1] / "rsc" / "maps"

OUT: list[str] = []


def emit(*a):
    OUT.append(" ".join(str(x) for x in a))


def r(x):
    """canonical repr of a scalar, keeping its type"""
    return f"{type(x).__name__}:{x!r}"


def dump_df(name, df: pd.DataFrame):
    emit("  DF", name, "shape", df.shape, "cols", list(df.columns))
    emit("    index", type(df.index).__name__, df.index.dtype, list(df.index))
    for c in df.columns:
        emit("    col", c, df[c].dtype, [r(v) for v in df[c].tolist()])


META_FIELDS = [
    "title", "subtitle", "artist", "title_translit", "subtitle_translit",
    "artist_translit", "genre", "credit", "banner", "background",
    "lyrics_path", "cd_title", "music", "offset", "sample_start",
    "sample_length", "display_bpm", "selectable", "bg_changes", "fg_changes",
]
MAP_FIELDS = ["chart_type", "description", "difficulty", "difficulty_val",
              "groove_radar"]
LISTS = ["hits", "holds", "rolls", "fakes", "lifts", "mines", "keysounds",
         "bpms", "stops"]


def dump_mapset(tag, ms: SMMapSet):
    emit(" MAPSET", tag, type(ms).__name__, "nmaps", len(ms.maps))
    for f in META_FIELDS:
        emit("  META", f, r(getattr(ms, f)))
    for i, m in enumerate(ms.maps):
        emit("  MAP", i, type(m).__name__)
        for f in MAP_FIELDS:
            emit("   ", f, r(getattr(m, f)))
        emit("    objs-keys", list(m.objs.keys()))
        for ln in LISTS:
            lst = getattr(m, ln)
            emit("   LIST", ln, type(lst).__name__)
            dump_df(ln, lst.df)


def guarded(tag, fn):
    """run fn, emit exception type + warnings, return result or None"""
    with warnings.catch_warnings(record=True) as w:
        warnings.simplefilter("always")
        try:
            res = fn()
            emit(" OK", tag)
        except Exception as e:  # noqa
            emit(" EXC", tag, type(e).__name__)
            res = None
    cats = sorted(x.category.__name__ for x in w)
    emit(" WARN", tag, len(cats), sorted(set(cats)))
    return res


# ------------------------------------------------------------------ generator
SUPPORTED = [
    ("dance-single", 4), ("dance-double", 8), ("dance-solo", 6),
    ("dance-couple", 4), ("dance-threepanel", 3), ("dance-routine", 8),
    ("kb7-single", 7),
]
DENS = [1, 2, 3, 4, 6, 8, 12, 16, 24, 32, 48]
BPMS = [120.0, 150.0, 60.0, 200.0, 90.0, 180.0, 240.0, 100.0, 75.0, 128.0]


def make_tempo(rng, first_offset, n_changes, on_measure):
    """returns list of (beat:Fraction, offset:float, bpm)"""
    pts = [(Fraction(0), float(first_offset), rng.choice(BPMS))]
    beat = Fraction(0)
    for _ in range(n_changes):
        if on_measure:
            step = Fraction(4 * rng.randint(1, 4))
        else:
            step = Fraction(rng.randint(1, 12), rng.choice([1, 2, 4]))
        pb, po, pbpm = pts[-1]
        beat = pb + step
        off = po + float(step) * 60000.0 / pbpm
        pts.append((beat, off, rng.choice(BPMS)))
    return pts


def beat_to_offset(pts, b: Fraction) -> float:
    seg = pts[0]
    for p in pts:
        if p[0] <= b:
            seg = p
    return seg[1] + float(b - seg[0]) * 60000.0 / seg[2]


def rand_beat(rng, max_measures, start_measure=0, dens=DENS):
    m = rng.randint(start_measure, max_measures)
    d = rng.choice(dens)
    return Fraction(4 * m) + Fraction(rng.randrange(0, 4 * d), d)


def make_map(rng, pts, chart, keys, n_obj, max_measures, start_measure, kinds,
             stops_spec, shuffle, dens=DENS):
    m = SMMap()
    m.chart_type = chart
    m.description = rng.choice(["", "desc", "K. Ward", "x y"])
    m.difficulty = rng.choice(["Beginner", "Easy", "Medium", "Hard",
                               "Challenge", "Edit"])
    m.difficulty_val = rng.randint(1, 20)
    m.groove_radar = [round(rng.random(), 3) for _ in range(5)]
    m.bpms = SMBpmList([SMBpm(o, b) for _, o, b in pts])
    occupied = {c: [] for c in range(keys)}  # column -> [(lo, hi)]

    def is_free(c, lo, hi):
        return all(hi < a or lo > b for a, b in occupied[c])

    lists = dict(hits=[], holds=[], rolls=[], fakes=[], lifts=[], mines=[],
                 keysounds=[])
    for _ in range(n_obj):
        k = rng.choice(kinds)
        is_long = k in ("holds", "rolls")
        placed = False
        for _attempt in range(50):
            b = rand_beat(rng, max_measures, start_measure, dens)
            c = rng.randrange(keys)
            ln = (Fraction(rng.randint(1, 16), rng.choice([1, 2, 4, 8]))
                  if is_long else Fraction(0))
            if is_free(c, b, b + ln):
                placed = True
                break
        if not placed:
            if is_long:
                continue  # never overlap long notes in one column
            # a point object tied with another one, on purpose
        occupied[c].append((b, b + ln))
        o = beat_to_offset(pts, b)
        if is_long:
            t = beat_to_offset(pts, b + ln)
            cls = SMHold if k == "holds" else SMRoll
            lists[k].append(cls(o, c, t - o))
        else:
            cls = dict(hits=SMHit, fakes=SMFake, lifts=SMLift, mines=SMMine,
                       keysounds=SMKeySound)[k]
            lists[k].append(cls(o, c))
    if shuffle:
        for v in lists.values():
            rng.shuffle(v)
    m.hits = SMHitList(lists["hits"])
    m.holds = SMHoldList(lists["holds"])
    m.rolls = SMRollList(lists["rolls"])
    m.fakes = SMFakeList(lists["fakes"])
    m.lifts = SMLiftList(lists["lifts"])
    m.mines = SMMineList(lists["mines"])
    m.keysounds = SMKeySoundList(lists["keysounds"])
    m.stops = SMStopList([SMStop(beat_to_offset(pts, b), ln)
                          for b, ln in stops_spec])
    return m


ALL_KINDS = ["hits", "holds", "rolls", "fakes", "lifts", "mines", "keysounds"]
STRS = ["", "Song", "A:B", "ünï çødé", " padded ", "x=y", "曲"]


def make_mapset(rng, case):
    chart, keys = case.get("chart") or rng.choice(SUPPORTED)
    first_offset = case.get("offset", rng.choice(
        [0.0, 0.0, 100.0, -250.0, 1234.5, -0.5, 635.0, 5000.0]))
    pts = make_tempo(rng, first_offset, case.get("n_changes", rng.randint(0, 4)),
                     case.get("on_measure", True))
    stops_spec = case.get("stops", [])
    nmaps = case.get("nmaps", rng.randint(1, 3))
    maps = []
    for i in range(nmaps):
        ch, ky = (chart, keys)
        if case.get("mixed_charts") and i > 0:
            ch, ky = rng.choice(SUPPORTED)
        maps.append(make_map(
            rng, pts, ch, ky,
            case.get("n_obj", rng.randint(1, 40)),
            case.get("max_measures", rng.randint(0, 12)),
            case.get("start_measure", 0),
            case.get("kinds", ALL_KINDS),
            stops_spec, case.get("shuffle", rng.random() < 0.5),
            case.get("dens", DENS)))
    ms = SMMapSet()
    ms.maps = maps
    for f in ["title", "subtitle", "artist", "title_translit",
              "subtitle_translit", "artist_translit", "genre", "credit",
              "banner", "background", "lyrics_path", "cd_title", "music",
              "display_bpm", "bg_changes", "fg_changes"]:
        setattr(ms, f, rng.choice(STRS))
    ms.offset = case.get("ms_offset", first_offset)
    ms.sample_start = rng.choice([0.0, 1000.0, 12345.678, 60000.0])
    ms.sample_length = rng.choice([10.0, 10000.0, 0.0, 15500.0])
    ms.selectable = case.get("selectable", rng.random() < 0.5)
    return ms


CASES = (
    [dict() for _ in range(24)]
    + [dict(chart=c) for c in SUPPORTED]
    + [dict(chart=c, nmaps=2, mixed_charts=True) for c in SUPPORTED[:3]]
    # empty maps / empty kinds
    + [dict(n_obj=0), dict(n_obj=0, nmaps=2), dict(n_obj=1, kinds=["hits"]),
       dict(n_obj=1, kinds=["holds"]), dict(n_obj=1, kinds=["mines"])]
    # empty measures at the start and in the middle
    + [dict(start_measure=3, max_measures=5), dict(start_measure=7, max_measures=7),
       dict(start_measure=2, max_measures=30, n_obj=4)]
    # a single kind only
    + [dict(kinds=[k], n_obj=12) for k in ALL_KINDS]
    # tempo changes off the measure line
    + [dict(on_measure=False, n_changes=n) for n in (1, 2, 3, 5)]
    # no tempo change, many tempo changes
    + [dict(n_changes=0), dict(n_changes=8, max_measures=40, n_obj=60)]
    # selectable both ways
    + [dict(selectable=False), dict(selectable=True)]
    # dense maps, ties
    + [dict(n_obj=150, max_measures=1), dict(n_obj=80, max_measures=0, chart=("dance-threepanel", 3))]
    # measures needing more than 384 rows, odd divisions
    + [dict(dens=[64, 96], max_measures=2, n_obj=30),
       dict(dens=[5, 7, 9], max_measures=3, n_obj=30),
       dict(dens=[32, 96, 7, 1], max_measures=1, n_obj=40),
       dict(dens=[64, 96, 5], max_measures=4, n_obj=25, on_measure=False, n_changes=3)]
    # negative / zero / positive offsets
    + [dict(offset=o) for o in (-1000.0, 0.0, 1e-3, 250.25, 100000.0)]
    # stops
    + [dict(stops=[(Fraction(4), 250.0)]),
       dict(stops=[(Fraction(8), 100.0), (Fraction(2), 500.0)], n_changes=2),
       dict(stops=[(Fraction(0), 125.0)], n_obj=10)]
    # unsupported chart types (get_keys is None) and unknown chart types
    + [dict(chart=("pump-single", 5)), dict(chart=("bm-single7", 8), n_obj=0),
       dict(chart=("no-such-chart", 4))]
    # #OFFSET different from first bpm (outside the domain, still deterministic)
    + [dict(ms_offset=None), dict(ms_offset=0.0, offset=300.0)]
)


def roundtrip(tag, ms, depth=2):
    """write -> read -> write, dumping everything"""
    before = ms.deepcopy() if ms is not None else None
    text = guarded(f"{tag}.write", ms.write)
    for i, m in enumerate(ms.maps):
        part = guarded(f"{tag}.map{i}.write", m.write)
        emit("  MAPWRITE", repr(part))
    emit("  TEXT", repr(text))
    dump_mapset(f"{tag}.input-after-write", ms)
    if text is None:
        return None
    back = guarded(f"{tag}.read", lambda: SMMapSet.read(text))
    if back is None:
        return None
    dump_mapset(f"{tag}.readback", back)
    back_lines = guarded(f"{tag}.read-lines",
                         lambda: SMMapSet.read(text.split("\n")))
    if back_lines is not None:
        dump_mapset(f"{tag}.readback-lines", back_lines)
    text2 = guarded(f"{tag}.rewrite", back.write)
    emit("  TEXT2", repr(text2))
    emit("  TEXT2==TEXT", text2 == text)
    if text2 is not None and text2 != text and depth > 0:
        back2 = guarded(f"{tag}.reread", lambda: SMMapSet.read(text2))
        if back2 is not None:
            text3 = guarded(f"{tag}.rerewrite", back2.write)
            emit("  TEXT3", repr(text3))
    return back


def run_generated(seed=20260930, rates=(1.5, 0.75)):
    rng = random.Random(seed)
    random.seed(seed)
    np.random.seed(seed % (2 ** 32))
    for n, case in enumerate(CASES):
        emit("CASE", n, sorted((k, repr(v)) for k, v in case.items()))
        ms = guarded(f"c{n}.make", lambda: make_mapset(rng, case))
        if ms is None:
            continue
        dump_mapset(f"c{n}.input", ms)
        back = roundtrip(f"c{n}", ms)
        if n % 4 == 0:
            rate = rates[(n // 4) % len(rates)]
            rated = guarded(f"c{n}.rate{rate}", lambda: ms.rate(rate))
            if rated is not None:
                roundtrip(f"c{n}.rated", rated, depth=0)
            dump_mapset(f"c{n}.input-after-rate", ms)
        if back is not None and n % 6 == 0:
            rated = guarded(f"c{n}.back-rate", lambda: back.rate(1.25))
            if rated is not None:
                roundtrip(f"c{n}.back-rated", rated, depth=0)


def run_bundled(sm_names=("ICFITU.sm",), osu_names=("Gravity.osu",)):
    from reamber.osu.OsuMap import OsuMap
    from reamber.algorithms.convert.OsuToSM import OsuToSM

    for name in sm_names:
        emit("BUNDLED-SM", name)
        ms = guarded(f"sm.{name}.read_file",
                     lambda: SMMapSet.read_file(RSC / "sm" / name))
        if ms is None:
            continue
        text = guarded(f"sm.{name}.write", ms.write)
        emit("  TEXT-SHA", hashlib.sha256((text or "").encode()).hexdigest())
        back = guarded(f"sm.{name}.reread", lambda: SMMapSet.read(text))
        if back is not None:
            dump_mapset(f"sm.{name}.readback", back)
            t2 = guarded(f"sm.{name}.rewrite", back.write)
            emit("  TEXT2==TEXT", t2 == text)
    for name in osu_names:
        emit("BUNDLED-OSU", name)
        osu = guarded(f"osu.{name}.read", lambda: OsuMap.read_file(RSC / "osu" / name))
        if osu is None:
            continue
        ms = guarded(f"osu.{name}.convert", lambda: OsuToSM.convert(osu))
        if ms is None:
            continue
        text = guarded(f"osu.{name}.write", ms.write)
        emit("  TEXT-SHA", hashlib.sha256((text or "").encode()).hexdigest())
        emit("  TEXT-HEAD", repr((text or "")[:1500]))
        back = guarded(f"osu.{name}.reread", lambda: SMMapSet.read(text))
        if back is not None:
            dump_mapset(f"osu.{name}.readback", back)
            t2 = guarded(f"osu.{name}.rewrite", back.write)
            emit("  TEXT2==TEXT", t2 == text)


def finish():
    blob = "\n".join(OUT)
    import os
    if os.environ.get("C03_DUMP"):  # optional: keep the canonical dump for inspection
        with open(os.environ["C03_DUMP"], "w", encoding="utf8") as f:
            f.write(blob)
    print("DIGEST", hashlib.sha256(blob.encode("utf8")).hexdigest())


# ------------------------------------------------------------------ change 2
# extras aimed at SMMap._read_notes: the per-character dispatch
HEAD = "#TITLE:t;\n#OFFSET:{off};\n#BPMS:{bpms};\n#STOPS:{stops};\n"
NOTES = ("#NOTES:\n     {chart}:\n     d:\n     Hard:\n     7:\n"
         "     0.1,0.2,0.3,0.4,0.5:\n{body}\n;\n")


def sm_text(body, chart="dance-single", off="0.0", bpms="0.0=120.0", stops="",
            n_charts=1):
    return (HEAD.format(off=off, bpms=bpms, stops=stops)
            + NOTES.format(chart=chart, body=body) * n_charts)


def rand_body(rng, keys, n_measures, alphabet, fill):
    """random syntactically free note body; long notes kept balanced per column
    unless 'alphabet' asks for dangling ones"""
    open_col = [False] * keys
    measures = []
    for _ in range(n_measures):
        rows = []
        for _ in range(rng.choice([4, 8, 12, 16, 24, 48, 5, 7, 1, 2, 3, 192])):
            row = []
            for c in range(keys):
                if rng.random() > fill:
                    row.append("0")
                    continue
                ch = rng.choice(alphabet)
                if ch in "24" and open_col[c]:
                    ch = "3"
                if ch == "3" and not open_col[c] and "!" not in alphabet:
                    ch = "1"
                if ch in "24":
                    open_col[c] = True
                elif ch == "3":
                    open_col[c] = False
                if ch == "!":
                    ch = "3"
                row.append(ch)
            rows.append("".join(row))
        measures.append("\n".join(rows))
    # close what is still open so that every head has a tail
    if "?" not in alphabet:
        tail = "".join("3" if o else "0" for o in open_col)
        measures.append("\n".join([tail, "0" * keys, "0" * keys, "0" * keys]))
    return "\n,\n".join(measures).replace("?", "2")


def extras_read():
    rng = random.Random(4242)
    texts = {}
    # every character in a column of its own, heads and tails of both kinds
    texts["all-chars"] = sm_text("1M24LFK0\n00000000\n00330000\n00000000", "dance-double")
    texts["hold-then-roll-same-col"] = sm_text("2000\n3000\n4000\n3000\n2000\n0000\n3000\n0000")
    texts["roll-and-hold-open-together"] = sm_text("2400\n0000\n0300\n3000", "dance-single")
    texts["tail-without-head"] = sm_text("0000\n3000\n0000\n0000")
    texts["tail-twice"] = sm_text("2000\n3000\n3000\n0000")
    texts["head-without-tail-hold"] = sm_text("2000\n0000\n0000\n0000")
    texts["head-without-tail-roll"] = sm_text("0400\n0000\n0000\n0000")
    texts["head-twice-one-tail"] = sm_text("2000\n2000\n3000\n0000")
    texts["unknown-chars"] = sm_text("X500\n0Z00\n00?0\n1009")
    texts["lowercase"] = sm_text("mlfk\n0000\n0000\n0000")
    texts["only-zeros"] = sm_text("0000\n0000\n0000\n0000")
    texts["empty-body"] = sm_text("")
    texts["empty-measures-first"] = sm_text("0000\n0000\n0000\n0000\n,\n0000\n0000\n0000\n0000\n,\n0010\n0000\n0000\n0001")
    texts["18-columns"] = sm_text(("1" * 18 + "\n") + ("0" * 18 + "\n") * 2 + "0" * 18)
    texts["19-columns-known-char"] = sm_text(("0" * 18 + "1\n") + ("0" * 19 + "\n") * 2 + "0" * 19)
    texts["19-columns-unknown-char"] = sm_text(("0" * 18 + "X\n") + ("0" * 19 + "\n") * 2 + "0" * 19)
    texts["19-columns-tail"] = sm_text(("0" * 18 + "3\n") + ("0" * 19 + "\n") * 2 + "0" * 19)
    texts["ragged-rows"] = sm_text("1\n01\n001\n0001")
    texts["comments-and-blank-lines"] = sm_text("1000 // first\n\n0100\n// c\n0010\n0001")
    texts["stops"] = sm_text("1000\n0100\n0010\n0001\n,\n2000\n0000\n3000\n000M",
                             stops="2.0=0.25,\n5.0=0.1")
    texts["two-bpms"] = sm_text("1000\n0100\n0010\n0001\n,\n1111\n0000\nKKKK\nLLLL",
                                bpms="0.0=120.0,\n4.0=180.0", off="-0.5")
    texts["bpm-off-measure"] = sm_text("1000\n0100\n0010\n0001\n,\n1111\n0000\nFFFF\nMMMM",
                                       bpms="0.0=120.0,\n2.5=90.0", off="0.25")
    texts["two-charts"] = sm_text("1000\n0200\n0300\n0004\n,\n0003\n0000\n0000\n0000", n_charts=2)
    for chart, keys in SUPPORTED:
        for j in range(3):
            texts[f"rand-{chart}-{j}"] = sm_text(
                rand_body(rng, keys, rng.randint(1, 5), "1M24LFK3", rng.choice([0.05, 0.2, 0.6])),
                chart, off=rng.choice(["0.0", "-1.25", "0.635"]),
                bpms=rng.choice(["0.0=120.0", "0.0=150.0,\n8.0=75.0", "0.0=200.0,\n4.0=100.0,\n12.0=60.5"]))
    for j in range(6):  # dangling tails ("!") and dangling heads ("?")
        texts[f"rand-dangling-{j}"] = sm_text(
            rand_body(rng, 4, 2, rng.choice(["1!", "12?", "4!M", "24!?"]), 0.15))
    for j in range(4):  # characters outside the alphabet
        texts[f"rand-junk-{j}"] = sm_text(rand_body(rng, 6, 2, "1M24LFK3XY5xm ", 0.3), "dance-solo")

    for name, text in texts.items():
        emit("READ", name)
        emit("  SRC", repr(text))
        ms = guarded(f"read.{name}", lambda: SMMapSet.read(text))
        if ms is None:
            continue
        dump_mapset(f"read.{name}", ms)
        out = guarded(f"read.{name}.write", ms.write)
        emit("  OUT", repr(out))
        if out is not None:
            again = guarded(f"read.{name}.reread", lambda: SMMapSet.read(out))
            if again is not None:
                dump_mapset(f"read.{name}.again", again)
                emit("  OUT2==OUT", guarded(f"read.{name}.rewrite", again.write) == out)
    # SMMap.read directly on a chart section
    from reamber.algorithms.timing.utils.BpmChangeSnap import BpmChangeSnap
    from reamber.algorithms.timing.utils.snap import Snap
    bcs = [BpmChangeSnap(120.0, 4, Snap(0, 0, 4))]
    for name, body in [("direct", "12M4\n0300\n0003\nLFK0"), ("direct-bad", "3000\n0000\n0000\n0000")]:
        sec = NOTES.format(chart="dance-single", body=body).rstrip().rstrip(";")
        stops_in = SMStopList([SMStop(1000.0, 50.0)])
        m = guarded(f"smmap.read.{name}", lambda: SMMap.read(sec, bcs, 100.0, stops_in))
        dump_df(f"smmap.read.{name}.stops-arg-after", stops_in.df)
        emit("  bcs-after", repr(bcs))
        if m is not None:
            for ln in LISTS:
                dump_df(f"smmap.read.{name}.{ln}", getattr(m, ln).df)


if __name__ == "__main__":
    run_generated()
    run_bundled(sm_names=("ICFITU.sm", "Escapes.sm"), osu_names=())
    extras_read()
    finish()
