"""Demo for change 2 (SMMap._read_notes): feeds many generated note grids through
SMMap._read_notes (directly, via SMMap.read and via SMMapSet.read) and prints a
sha256 digest over a canonical dump of everything that comes out (or of the
exception type raised), plus the arguments afterwards (they must not be modified)."""
import hashlib
import logging
import random

from reamber.algorithms.timing.utils.BpmChangeSnap import BpmChangeSnap
from reamber.algorithms.timing.utils.snap import Snap
from reamber.sm.SMMap import SMMap
from reamber.sm.SMMapSet import SMMapSet
from reamber.sm.lists.SMStopList import SMStopList

logging.disable(logging.CRITICAL)
random.seed(2026100102)

CHART_TYPES = [
    ("dance-threepanel", 3), ("dance-single", 4), ("dance-couple", 4),
    ("pump-single", 5), ("dance-solo", 6), ("kb7-single", 7),
    ("dance-double", 8), ("pnm-nine", 9), ("techno-double8", 16),
    ("eighteen", 18),
]
ROWS_OK = [4, 8, 12, 16, 20, 24, 32, 48, 64, 96, 192]
ROWS_ODD = [1, 2, 3, 5, 6, 7, 9, 10, 13, 30]
OUT = []


def emit(*a):
    OUT.append(" ".join(str(x) for x in a))


def gen_measure(keys, rows, open_heads, density, paired):
    out = []
    for _ in range(rows):
        row = []
        for k in range(keys):
            if random.random() > density:
                row.append("0")
            elif not paired:
                row.append(random.choice("1234MLFK"))
            elif open_heads[k]:
                row.append("3")
                open_heads[k] = False
            else:
                c = random.choice("1MLFK24")
                open_heads[k] = c in "24"
                row.append(c)
        out.append("".join(row))
    return out


def gen_notes(keys, n_measures, rows_pool, paired=True, messy=False, density=None):
    open_heads = [False] * keys
    measures = []
    for _ in range(n_measures):
        d = random.choice([0.0, 0.03, 0.15, 0.6]) if density is None else density
        measures.append(gen_measure(keys, random.choice(rows_pool), open_heads, d, paired))
    if paired and any(open_heads):
        measures.append(["".join("3" if h else "0" for h in open_heads)] + ["0" * keys] * 3)
    text = []
    for i, m in enumerate(measures):
        if messy and random.random() < 0.4:
            text.append("  // measure %d" % i)
        for r in m:
            if messy and random.random() < 0.15:
                text.append("")
            if messy and random.random() < 0.15:
                text.append("  \t" + r + "   ")
            else:
                text.append(r)
            if messy and random.random() < 0.1:
                # _read_notes drops a line that still carries a comment
                text.append("1" * len(r) + " // c")
        if i != len(measures) - 1:
            text.append(",")
    return "\n" + "\n".join(text) + "\n"


def gen_bcs(on_measures=None):
    n = random.choice([1, 1, 2, 3, 6])
    ticks = random.sample(range(1, 48 * 30), n - 1)
    if on_measures if on_measures is not None else random.random() < 0.5:
        ticks = list({(t // 192 + 1) * 192 for t in ticks})
    ticks = [0] + ticks
    random.shuffle(ticks)
    return [
        BpmChangeSnap(random.choice([120.0, 150.5, 87.25, 200.0, 60.0, 333.0, 175.0]), 4,
                      Snap(0, float(t / 48), 4))
        for t in ticks
    ]


def dump_tl(name, tl):
    df = tl.df
    emit(" ", name, type(tl).__name__, list(df.columns), [str(t) for t in df.dtypes],
         type(df.index).__name__, list(df.index))
    for row in df.values.tolist():
        emit("   ", [repr(x) for x in row])


def dump_map(m):
    emit(" map", type(m).__name__, repr(m.chart_type), repr(m.description),
         repr(m.difficulty), repr(m.difficulty_val), repr(m.groove_radar))
    emit(" objs keys", list(m.objs.keys()))
    for k, tl in m.objs.items():
        dump_tl(k, tl)


def bcs_repr(bcs_s):
    return [(b.bpm, b.metronome, b.snap.measure, repr(b.snap.beat), b.snap.metronome) for b in bcs_s]


def run_direct(label, note_data, offset, bcs_s):
    emit("CASE direct", label, repr(offset))
    before = bcs_repr(bcs_s)
    stops = SMStopList([])
    m = SMMap()
    try:
        ret = m._read_notes(note_data, offset, bcs_s, stops)
    except Exception as e:
        emit(" RAISED", type(e).__name__, str(e))
    else:
        emit(" returned", repr(ret))
        dump_map(m)
    emit(" bcs unchanged", bcs_repr(bcs_s) == before, before)
    emit(" stops after", len(stops), list(stops.df.columns))


def run_read(label, s, offset, bcs_s):
    emit("CASE read", label, repr(offset))
    try:
        m = SMMap.read(s, bcs_s, offset, SMStopList([]))
    except Exception as e:
        emit(" RAISED", type(e).__name__, str(e))
    else:
        dump_map(m)


def run_file(label, text):
    emit("CASE file", label)
    try:
        ms = SMMapSet.read(text)
    except Exception as e:
        emit(" RAISED", type(e).__name__, str(e))
    else:
        emit(" offset", repr(ms.offset), "n_maps", len(ms.maps))
        for m in ms.maps:
            dump_map(m)


OFFSETS = [0.0, 635.0, -1250.0, 12345.6, -0.0]

# 1. well-formed grids, every key count, clean and messy text
for i in range(40):
    ct, keys = random.choice(CHART_TYPES)
    run_direct("ok%d/%s" % (i, ct),
               gen_notes(keys, random.choice([1, 2, 3, 5, 8]), ROWS_OK, messy=i % 2 == 1),
               random.choice(OFFSETS), gen_bcs())
# one of each key count, dense
for ct, keys in CHART_TYPES:
    run_direct("dense/%s" % ct, gen_notes(keys, 3, ROWS_OK, density=0.6),
               random.choice(OFFSETS), gen_bcs())
# 2. any mixture of the symbols (orphan tails, heads never closed, 2 then 4 then 3 ...)
for i in range(30):
    ct, keys = random.choice(CHART_TYPES[:7])
    run_direct("mix%d/%s" % (i, ct),
               gen_notes(keys, random.choice([1, 2, 4]), ROWS_OK, paired=False,
                         density=random.choice([0.02, 0.05, 0.3])),
               random.choice(OFFSETS), gen_bcs())
# 3. measures whose row count is not a multiple of 4 (outside the domain, still compared)
for i in range(20):
    ct, keys = random.choice(CHART_TYPES)
    run_direct("odd%d/%s" % (i, ct),
               gen_notes(keys, random.choice([1, 3, 6]), ROWS_ODD + ROWS_OK, messy=i % 3 == 0),
               random.choice(OFFSETS), gen_bcs())
# 4. hand-written edge cases
bcs1 = lambda: [BpmChangeSnap(120.0, 4, Snap(0, 0.0, 4))]
EDGE = {
    "empty": "",
    "blank": "\n\n",
    "all_zero": "0000\n0000\n0000\n0000",
    "empty_measures": "1000\n0000\n0000\n0000\n,\n,\n0001\n0000\n0000\n0000",
    "trailing_comma": "1000\n0000\n0000\n0000\n,\n",
    "only_commas": ",,,",
    "hold_over_measures": "2004\n0000\n0000\n0000\n,\n0000\n0000\n3000\n0003",
    "hold_then_roll_same_col": "2000\n4000\n3000\n3000",
    "roll_then_hold_same_col": "4000\n2000\n3000\n3000",
    "two_heads": "2000\n2000\n3000\n0000",
    "two_tails": "2000\n3000\n3000\n0000",
    "orphan_tail": "0300\n0000\n0000\n0000",
    "open_hold": "0020\n0000\n0000\n0000",
    "open_roll": "0040\n1000\n0000\n0000",
    "zero_length_pairing": "2300\n0000\n0000\n0000",
    "unknown_symbols": "x0y1\n00z0\n9000\n000m",
    "wide_row_18": "0" * 17 + "1\n" + ("0" * 18 + "\n") * 3,
    "wide_row_19_zero": "0" * 18 + "0\n" + ("1" + "0" * 18 + "\n") * 3,
    "wide_row_19_note": "0" * 18 + "1\n" + ("0" * 19 + "\n") * 3,
    "wide_row_19_unknown": "0" * 18 + "x\n" + ("0" * 19 + "\n") * 3,
    "ragged_rows": "1\n01\n001\n0001\n00001\n000001\n0000001\n00000001",
    "same_time_all_kinds": "12\n4M\nLF\nK1\n33\n00\n00\n00",
    "rows192": "\n".join(("1000" if r % 7 == 0 else "0000") for r in range(192)),
    "comment_rows": "1000\n// gone\n0100 // gone too\n0010\n0001\n0000",
    "crlf": "1000\r\n0100\r\n0010\r\n0001\r\n,\r\n1111\r\n0000\r\n0000\r\n0000\r\n",
}
for label, nd in EDGE.items():
    run_direct("edge/" + label, nd, 100.0, bcs1())
    run_direct("edge2/" + label, nd, -635.0,
               [BpmChangeSnap(200.0, 4, Snap(0, 0.0, 4)), BpmChangeSnap(100.0, 4, Snap(0, 2.5, 4)),
                BpmChangeSnap(60.0, 4, Snap(0, 4.0, 4))])
run_direct("edge/bad_first_bpm", "1000\n0000\n0000\n0000", 0.0, [BpmChangeSnap(120.0, 4, Snap(0, 1.0, 4))])
try:
    run_direct("edge/no_bpms", "1000\n0000\n0000\n0000", 0.0, [])
except Exception as e:  # pragma: no cover
    emit("outer", type(e).__name__)

# 5. via SMMap.read and via a whole file with several charts
for i in range(12):
    ct, keys = random.choice(CHART_TYPES)
    head = "#NOTES:\n     %s:\n     d%d:\n     Hard:\n     %d:\n     0,0,0,0,0:" % (ct, i, i + 1)
    run_read("read%d/%s" % (i, ct), head + gen_notes(keys, 3, ROWS_OK, messy=i % 2 == 0),
             random.choice(OFFSETS), gen_bcs())
for i in range(10):
    bpms = ",".join("%s=%s" % (repr(t / 48), b) for t, b in
                    [(0, "140")] + [(random.randrange(1, 48 * 20), random.choice(["70", "280.5", "99"]))
                                    for _ in range(random.choice([0, 1, 3]))])
    parts = ["#TITLE:f%d;" % i, "#OFFSET:%s;" % random.choice(["0", "-0.635", "1.5"]), "#BPMS:%s;" % bpms]
    for j in range(random.choice([1, 2, 4])):
        ct, keys = random.choice(CHART_TYPES)
        parts.append("#NOTES:\n     %s:\n     c%d:\n     Easy:\n     %d:\n     0,0,0,0,0:" % (ct, j, j)
                     + gen_notes(keys, random.choice([1, 2, 5]), ROWS_OK, messy=i % 2 == 0) + ";")
    run_file("file%d" % i, "\n".join(parts))

dump = "\n".join(OUT)
print("DIGEST", hashlib.sha256(dump.encode("utf8")).hexdigest())
