"""Demonstration for C09 / k=2: OsuToBMS.convert.

Run as:  cd /tmp/r15/C09 && PYTHONPATH=/tmp/r15/C09 /venv/bin/python demo.py
Prints ONE line on stdout: sha256 over a canonical text of every result
(frames, dtypes, row labels, metadata, written .bms bytes and their re-read),
every exception type raised and the state of the inputs afterwards.
Optional argv[1]: file to dump the canonical text into.
"""
import hashlib
import logging
import random
import sys
import warnings
from copy import deepcopy

import numpy as np
import pandas as pd

warnings.filterwarnings("ignore")
logging.disable(logging.WARNING)

import reamber
from reamber.algorithms.convert import OsuToBMS
from reamber.bms.BMSChannel import BMSChannel
from reamber.bms.BMSMap import BMSMap
from reamber.osu.OsuMap import OsuMap
from reamber.osu.lists.OsuBpmList import OsuBpmList
from reamber.osu.lists.OsuSvList import OsuSvList
from reamber.osu.lists.notes.OsuHitList import OsuHitList
from reamber.osu.lists.notes.OsuHoldList import OsuHoldList

print(reamber.__file__, file=sys.stderr)

RNG = random.Random(150902)
OUT = []


def emit(*parts):
    OUT.append(" | ".join(str(p) for p in parts))


def cell(v):
    if isinstance(v, (float, np.floating)):
        return "f:" + repr(float(v))
    if isinstance(v, (bool, np.bool_)):
        return "b:" + repr(bool(v))
    if isinstance(v, (int, np.integer)):
        return "i:" + repr(int(v))
    return type(v).__name__ + ":" + repr(v)


def dump_df(tag, df):
    emit(tag, "type", type(df).__name__, "shape", df.shape)
    emit(tag, "columns", list(df.columns), "dtypes", [str(d) for d in df.dtypes])
    emit(tag, "index", type(df.index).__name__, str(df.index.dtype), list(df.index))
    for row in df.itertuples(index=True, name=None):
        emit(tag, "row", [cell(v) for v in row])


def dump_list(tag, tl):
    emit(tag, "class", type(tl).__module__, type(tl).__name__, "len", len(tl))
    dump_df(tag, tl.df)


def dump_map(tag, m, write=None):
    emit(tag, "class", type(m).__module__, type(m).__name__)
    for k, v in sorted(vars(m).items()):
        if k == "objs":
            continue
        if hasattr(v, "df"):
            dump_list(f"{tag}.{k}", v)
            continue
        emit(tag, "attr", k, cell(v))
    emit(tag, "objs", list(m.objs.keys()))
    for name, tl in m.objs.items():
        dump_list(f"{tag}.{name}", tl)
    if write:
        write(tag, m)


def write_bms(tag, bms):
    for cfg_name in ("BME", "BMS", "PMS"):
        cfg = getattr(BMSChannel, cfg_name)
        try:
            data = bms.write(note_channel_config=cfg)
        except Exception as e:  # noqa
            emit(tag, cfg_name, "write raised", type(e).__name__)
            continue
        emit(tag, cfg_name, "write", type(data).__name__, len(data),
             hashlib.sha256(data).hexdigest())
        if cfg_name == "BME":
            for line in data.split(b"\r\n"):
                emit(tag, "w", repr(line))
        try:
            back = BMSMap.read(data.decode("shift_jis").split("\r\n"),
                               note_channel_config=cfg)
        except Exception as e:  # noqa
            emit(tag, cfg_name, "read-back raised", type(e).__name__)
            continue
        for name in ("hits", "holds", "bpms"):
            dump_list(f"{tag}.{cfg_name}.back.{name}", getattr(back, name))
        emit(tag, cfg_name, "back meta", cell(back.title), cell(back.artist),
             cell(back.version))


def frames_equal(a, b):
    same = True
    for name in a.objs:
        da, db = a.objs[name].df, b.objs[name].df
        same &= da.equals(db) and list(da.index) == list(db.index)
        same &= [str(x) for x in da.dtypes] == [str(x) for x in db.dtypes]
        same &= list(da.columns) == list(db.columns)
    return bool(same)


def run(tag, osu, *args, **kwargs):
    """Convert, dump everything, then check the input's state and independence."""
    before = deepcopy(osu)
    ids_before = [id(tl.df) for tl in osu.objs.values()]
    emit(tag, "args", [cell(a) if not isinstance(a, (np.ndarray, pd.Series)) else
                       type(a).__name__ + str(list(a)) for a in args],
         sorted((k, cell(v)) for k, v in kwargs.items()))
    try:
        bms = OsuToBMS.convert(osu, *args, **kwargs)
    except Exception as e:  # noqa
        emit(tag, "convert raised", type(e).__name__)
        bms = None
    else:
        dump_map(f"{tag}.bms", bms, write=write_bms)
    # state of the input afterwards
    dump_map(f"{tag}.after", osu)
    emit(tag, "same frames kept", ids_before == [id(tl.df) for tl in osu.objs.values()])
    emit(tag, "input unchanged", frames_equal(before, osu))
    emit(tag, "input meta unchanged",
         all(cell(getattr(before, k)) == cell(getattr(osu, k))
             for k in vars(before) if k not in ("objs", "samples")))
    if bms is not None:
        # the result does not alias the input: mutate it, look at the input
        if len(bms.hits):
            bms.hits.offset += 999.25
            bms.hits.column += 1
        if len(bms.holds):
            bms.holds.length *= 2
        if len(bms.bpms):
            bms.bpms.bpm += 1
        emit(tag, "input unchanged after mutating result", frames_equal(before, osu))
        # a second conversion of the same input gives an independent, equal start
        again = OsuToBMS.convert(osu, *args, **kwargs)
        emit(tag, "again is new object", again is not bms)
        for name in ("hits", "holds", "bpms"):
            dump_list(f"{tag}.again.{name}", getattr(again, name))


# --------------------------------------------------------------------------
# generators
# --------------------------------------------------------------------------
def rand_time(kind):
    if kind == "int":
        return float(RNG.randrange(0, 60000))
    if kind == "frac":
        return RNG.uniform(0, 60000)
    if kind == "neg":
        return RNG.uniform(-3000, 20000)
    return RNG.choice([0.0, 0.1 + 0.2, 1e-9, 250000.5, -0.0, 333.3333333333333])


TITLES = ["Song", "曲名テスト", "", "smile 😀 ∀", "Ünïcödé café", "a" * 60, "tab\there",
          "半角ｶﾅ と 全角"]


def make_osu(keys, n_hits, n_holds, n_bpms, kind, unsorted=False, relabel=None,
             zero_holds=False, n_svs=0, int_offsets=False, early_bpm=True):
    osu = OsuMap()
    osu.circle_size = keys
    osu.title = RNG.choice(TITLES)
    osu.title_unicode = RNG.choice(TITLES)
    osu.artist = RNG.choice(TITLES)
    osu.artist_unicode = RNG.choice(TITLES)
    osu.version = RNG.choice(["Easy", "7K Lv.12", "難", "", "[x]"])
    osu.creator = RNG.choice(["me", ""])
    osu.audio_file_name = "audio.mp3"

    hits = OsuHitList.empty(n_hits)
    holds = OsuHoldList.empty(n_holds)
    bpms = OsuBpmList.empty(n_bpms)
    if n_hits:
        hits.offset = [rand_time(kind) for _ in range(n_hits)]
        hits.column = [RNG.randrange(keys) for _ in range(n_hits)]
        hits.volume = [RNG.randrange(0, 100) for _ in range(n_hits)]
    if n_holds:
        holds.offset = [rand_time(kind) for _ in range(n_holds)]
        holds.column = [RNG.randrange(keys) for _ in range(n_holds)]
        holds.length = [0.0 if (zero_holds and i % 2 == 0) else RNG.uniform(0.5, 5000)
                        for i in range(n_holds)]
    if n_bpms:
        boffs = sorted(rand_time(kind) for _ in range(n_bpms))
        if early_bpm:
            # the usual file: the first tempo is set at or before the first object
            first = min([*boffs, *(hits.offset if n_hits else []),
                         *(holds.offset if n_holds else [])])
            boffs[0] = first - RNG.choice([0.0, 0.0, 100.5, 1000.0])
        bpms.offset = boffs
        bpms.bpm = [RNG.choice([60.0, 120.0, 174.5, 200.0, 333.333, 90.0])
                    for _ in range(n_bpms)]
    if int_offsets:
        if n_hits:
            hits.df = hits.df.astype({"offset": "int64"})
        if n_holds:
            holds.df = holds.df.astype({"offset": "int64", "length": "int64"})
    if not unsorted:
        hits = hits.sorted()
        holds = holds.sorted()
        hits.df = hits.df.reset_index(drop=True)
        holds.df = holds.df.reset_index(drop=True)
    else:
        bpms.df = bpms.df.iloc[::-1].reset_index(drop=True)
    osu.hits = hits
    osu.holds = holds
    osu.bpms = bpms
    if n_svs:
        svs = OsuSvList.empty(n_svs)
        svs.offset = [rand_time(kind) for _ in range(n_svs)]
        svs.multiplier = [RNG.choice([0.5, 1.0, 2.0]) for _ in range(n_svs)]
        osu.svs = svs

    if relabel == "filter":
        # non-default row labels after a filter
        if n_hits:
            osu.hits = osu.hits[osu.hits.column != 0]
        if n_holds:
            osu.holds = osu.holds[osu.holds.offset > osu.holds.offset.median()]
    elif relabel == "shuffle":
        if n_hits:
            ix = list(range(n_hits))
            RNG.shuffle(ix)
            osu.hits.df = osu.hits.df.iloc[ix]
        if n_holds:
            osu.holds.df = osu.holds.df.set_index(
                pd.Index([100 + 3 * i for i in range(n_holds)])
            )
        if n_bpms:
            osu.bpms.df = osu.bpms.df.set_index(
                pd.Index([f"b{i}" for i in range(n_bpms)])
            )
    return osu


def osu_text(keys, n_notes, n_bpms):
    """A small .osu file; columns are encoded as x positions."""
    lines = [
        "osu file format v14", "", "[General]", "AudioFilename: a.mp3", "Mode: 3", "",
        "[Metadata]", f"Title:{RNG.choice(['T', 'Title of it', 'x:y'])}",
        f"TitleUnicode:{RNG.choice(['題', 'T'])}", "Artist:Ar", "ArtistUnicode:アー",
        "Creator:cr", f"Version:{RNG.choice(['Hard', '7K', ''])}", "",
        "[Difficulty]", "HPDrainRate:8", f"CircleSize:{keys}", "OverallDifficulty:8",
        "ApproachRate:5", "SliderMultiplier:1.4", "SliderTickRate:1", "",
        "[Events]", "", "[TimingPoints]",
    ]
    t = t0 = RNG.randrange(0, 500)
    for i in range(n_bpms):
        bpm = RNG.choice([120, 150, 180, 200.5])
        lines.append(f"{t},{60000 / bpm},4,1,0,50,1,0")
        if RNG.random() < 0.5:
            lines.append(f"{t + 10},-{RNG.choice([50, 100, 200])},4,1,0,50,0,0")
        t += RNG.randrange(1000, 9000)
    lines += ["", "", "[HitObjects]"]
    t = t0 + RNG.randrange(0, 800)
    busy = [-1] * keys  # last time taken in each column: no overlaps within a column
    for _ in range(n_notes):
        free = [c for c in range(keys) if busy[c] < t]
        if free:
            col = RNG.choice(free)
            x = int(round((col + 0.5) * 512 / keys))
            if RNG.random() < 0.3:
                end = t + RNG.randrange(0, 1500)
                lines.append(f"{x},192,{t},128,0,{end}:0:0:0:0:")
                busy[col] = end
            else:
                lines.append(f"{x},192,{t},1,0,0:0:0:0:")
                busy[col] = t
        t += RNG.choice([0, 0, 125, 250, 333, 1000])
    return lines


# --------------------------------------------------------------------------
# cases
# --------------------------------------------------------------------------
case = 0


def next_tag(label):
    global case
    case += 1
    return f"case{case:02d}[{label}]"


# A. files read through the public reader, each key count, default and shifted
for keys in (1, 2, 3, 4, 5, 6, 7, 8, 9, 10):
    text = osu_text(keys, RNG.randrange(3, 14), RNG.randrange(1, 4))
    tag = next_tag(f"file {keys}k")
    try:
        osu = OsuMap.read(text)
    except Exception as e:  # noqa
        emit(tag, "read raised", type(e).__name__)
        continue
    if keys % 2:
        run(tag, osu)
    else:
        run(tag, osu, move_right_by=RNG.choice([1, 2]))

# B. built maps: time kinds x key counts x shifts (positional and keyword)
for kind in ("int", "frac", "neg", "odd"):
    for keys, shift in ((4, 0), (7, 1), (8, -1), (6, 3)):
        osu = make_osu(keys, RNG.randrange(1, 12), RNG.randrange(0, 6),
                       RNG.randrange(1, 4), kind, n_svs=RNG.randrange(0, 3))
        if shift % 2:
            run(next_tag(f"built {kind} {keys}k shift {shift} positional"), osu, shift)
        else:
            run(next_tag(f"built {kind} {keys}k shift {shift}"), osu, move_right_by=shift)

# C. unsorted rows, foreign row labels, zero-length holds, integer-typed times
for relabel in (None, "filter", "shuffle"):
    for keys, shift in ((4, 0), (7, 1)):
        osu = make_osu(keys, 9, 6, 3, "frac", unsorted=True, relabel=relabel,
                       zero_holds=True)
        run(next_tag(f"unsorted relabel={relabel} {keys}k shift {shift}"), osu, shift)
run(next_tag("integer dtype times"), make_osu(5, 6, 4, 2, "int", int_offsets=True), 1)
run(next_tag("objects before the first bpm"), make_osu(4, 6, 3, 2, "frac", early_bpm=False))
run(next_tag("objects before the first bpm shifted"),
    make_osu(7, 6, 3, 2, "neg", early_bpm=False), 1)

# D. empty lists, in every combination worth having
run(next_tag("no hits"), make_osu(4, 0, 4, 2, "int"), 1)
run(next_tag("no holds"), make_osu(4, 5, 0, 2, "int"), 1)
run(next_tag("no bpms"), make_osu(4, 5, 3, 0, "int"), 1)
run(next_tag("no bpms, no shift"), make_osu(4, 5, 3, 0, "int"))
run(next_tag("only bpms"), make_osu(7, 0, 0, 2, "int"), 2)
run(next_tag("only hits"), make_osu(7, 3, 0, 0, "frac"), 2)
run(next_tag("nothing"), make_osu(7, 0, 0, 0, "int"))
run(next_tag("nothing shifted"), make_osu(7, 0, 0, 0, "int"), 5)
run(next_tag("default map"), OsuMap())
run(next_tag("default map shifted"), OsuMap(), move_right_by=1)

# E. unusual shifts
base = make_osu(7, 6, 3, 2, "frac")
n_rows = len(base.hits) + len(base.holds) + len(base.bpms)
for label, shift in [
    ("large", 40), ("very negative", -9), ("float", 0.5), ("float whole", 2.0),
    ("numpy int", np.int64(1)), ("numpy float32", np.float32(1.5)), ("bool", True),
    ("nan", float("nan")), ("str", "1"), ("None", None), ("list wrong length", [1, 2]),
    ("array per row", np.arange(n_rows)), ("list per row", list(range(n_rows))),
    ("series per row", pd.Series(range(n_rows))),
    ("series foreign labels", pd.Series(range(n_rows), index=range(5, 5 + n_rows))),
    ("complex", 1j),
]:
    run(next_tag(f"shift {label}"), base, shift)

# F. metadata that cannot be encoded as asked
for label, meta in [
    ("title None", dict(title=None)), ("artist None", dict(artist=None)),
    ("version int", dict(version=7)), ("title bytes", dict(title=b"raw")),
    ("title and artist None", dict(title=None, artist=None)),
    ("lone surrogate", dict(title="bad \ud800 one")),
]:
    osu = make_osu(4, 3, 1, 1, "int")
    for k, v in meta.items():
        setattr(osu, k, v)
    run(next_tag(label), osu, 1)

# G. not an osu map at all / incomplete map
for bad in (None, 5, "abc", BMSMap()):
    tag = next_tag(f"bad argument {type(bad).__name__}")
    try:
        r = OsuToBMS.convert(bad)
        dump_map(f"{tag}.bms", r, write=write_bms)
    except Exception as e:  # noqa
        emit(tag, "convert raised", type(e).__name__)
broken = make_osu(4, 3, 2, 1, "int")
del broken.objs["holds"]
run(next_tag("map without holds entry"), broken)
broken = make_osu(4, 3, 2, 1, "int")
broken.bpms.df = broken.bpms.df.drop(columns=["bpm"])
run(next_tag("bpms without bpm column"), broken)
broken = make_osu(4, 3, 2, 1, "int")
broken.hits.df = broken.hits.df.assign(column=["a", "b", "c"])
run(next_tag("text columns"), broken, 1)

emit("cases", case)
text = "\n".join(OUT)
print(len(OUT), "lines,", case, "cases", file=sys.stderr)
if len(sys.argv) > 1:  # optional: keep the canonical text for inspection
    with open(sys.argv[1], "w", encoding="utf8", errors="backslashreplace") as f:
        f.write(text)
print(hashlib.sha256(text.encode("utf8", errors="backslashreplace")).hexdigest())
