"""Demo for refactoring 3 (the `read` static methods of OsuHitList, OsuHoldList,
OsuBpmList and OsuSvList: conditional expression -> early return + named rows).

Generates many .osu texts and in-memory charts of the quantified domain, reads /
writes / re-reads them, then calls every list reader directly with empty, single,
large, tied, unsorted, malformed and oddly-typed inputs for every key count, and
prints one sha256 digest over a canonical dump of everything observed (values,
dtypes, column order, row labels, exception types + messages, inputs afterwards).
"""
import hashlib
import os
import random
import tempfile
import traceback

import pandas as pd

from reamber.osu.OsuBpm import OsuBpm
from reamber.osu.OsuHit import OsuHit
from reamber.osu.OsuHold import OsuHold
from reamber.osu.OsuMap import OsuMap
from reamber.osu.OsuSample import OsuSample
from reamber.osu.OsuSv import OsuSv
from reamber.osu.lists.OsuBpmList import OsuBpmList
from reamber.osu.lists.OsuSampleList import OsuSampleList
from reamber.osu.lists.OsuSvList import OsuSvList
from reamber.osu.lists.notes.OsuHitList import OsuHitList
from reamber.osu.lists.notes.OsuHoldList import OsuHoldList

random.seed(20260303)
OUT = []


def emit(*parts):
    OUT.append(" | ".join(str(p) for p in parts))


def cell(v):
    return f"{type(v).__module__}.{type(v).__name__}:{v!r}"


def dump_list(tag, lst):
    df = lst.df
    emit(tag, "class", type(lst).__name__, "dfclass", type(df).__name__)
    emit(tag, "columns", list(df.columns))
    emit(tag, "dtypes", [str(t) for t in df.dtypes])
    emit(tag, "index", type(df.index).__name__, [cell(i) for i in df.index])
    for r in range(len(df)):
        emit(tag, "row", r, [cell(v) for v in df.iloc[r].tolist()])


META_FIELDS = [
    "audio_file_name", "audio_lead_in", "preview_time", "countdown",
    "sample_set", "stack_leniency", "mode", "letterbox_in_breaks",
    "special_style", "widescreen_storyboard", "distance_spacing",
    "beat_divisor", "grid_size", "timeline_zoom", "title", "title_unicode",
    "artist", "artist_unicode", "creator", "version", "source", "tags",
    "beatmap_id", "beatmap_set_id", "hp_drain_rate", "circle_size",
    "overall_difficulty", "approach_rate", "slider_multiplier",
    "slider_tick_rate", "background_file_name",
]


def dump_map(tag, m):
    for f in META_FIELDS:
        emit(tag, "meta", f, cell(getattr(m, f)))
    emit(tag, "objs-keys", list(m.objs.keys()))
    for k, v in m.objs.items():
        dump_list(f"{tag}.objs[{k}]", v)
    dump_list(f"{tag}.samples", m.samples)


def attempt(tag, fn):
    """Runs fn, records the exception type + message if it raises."""
    try:
        return fn()
    except BaseException as e:  # noqa
        emit(tag, "RAISED", type(e).__name__, str(e))
        return None


# ---------------------------------------------------------------- generators
TITLES = [
    "Plain Title", "Re:Zero", "a:b:c", " lead and trail ", "夜に駆ける",
    "Ünïcödé: ça va", "", "x" * 40, "tab\there", "comma, in, title",
]
FILES = ["", "hit.wav", "sub dir/clap 1.ogg", "ド.wav", "a.b.c.wav"]


def rnd_time():
    kind = random.randrange(7)
    if kind == 0:
        return random.randint(-5000, -1)
    if kind == 1:
        return random.randint(10**6, 10**8)
    if kind == 2:
        return 0
    return random.randint(0, 300000)


def rnd_ftime():
    t = rnd_time()
    kind = random.randrange(4)
    if kind == 0:
        return float(t)
    if kind == 1:
        return t + 0.5
    return t + random.random()


def gen_osu_text(keys, n_hit, n_hold, n_bpm, n_sv, n_smp, frac=False):
    """A v14 mania text.  `frac` -> fractional timing point offsets."""
    title = random.choice(TITLES)
    L = [
        "osu file format v14", "", "[General]",
        f"AudioFilename: {random.choice(['audio.mp3', 'a:b.mp3', 'オーディオ.mp3'])}",
        f"AudioLeadIn: {random.choice([0, 500, 1500])}",
        f"PreviewTime: {random.choice([-1, 0, 12345])}",
        f"Countdown: {random.randint(0, 1)}",
        f"SampleSet: {random.choice(['None', 'Normal', 'Soft', 'Drum', 'Weird'])}",
        f"StackLeniency: {random.choice(['0.7', '0.3', '1'])}",
        "Mode: 3",
        f"LetterboxInBreaks: {random.randint(0, 1)}",
        f"SpecialStyle: {random.randint(0, 1)}",
        f"WidescreenStoryboard: {random.randint(0, 1)}",
        "", "[Editor]",
        f"DistanceSpacing: {random.choice(['4', '1.2', '0.8'])}",
        f"BeatDivisor: {random.choice([1, 4, 16])}",
        f"GridSize: {random.choice([4, 8, 32])}",
        f"TimelineZoom: {random.choice(['0.3', '1', '2.5'])}",
        "", "[Metadata]",
        f"Title:{title}",
        f"TitleUnicode:{random.choice(TITLES)}",
        f"Artist:{random.choice(TITLES)}",
        f"ArtistUnicode:{random.choice(TITLES)}",
        f"Creator:{random.choice(['me', 'you:them', 'Ωmega'])}",
        f"Version:{random.choice(['Hard', '7K: Insane', '[4K] ☆'])}",
        f"Source:{random.choice(['', 'http://a.b/c', 'src'])}",
        f"Tags:{random.choice(['', 'a b c', ' a  b ', 'x:y z', 'タグ tag'])}",
        f"BeatmapID:{random.choice([0, 123456])}",
        f"BeatmapSetID:{random.choice([-1, 654321])}",
        "", "[Difficulty]",
        f"HPDrainRate:{random.choice(['5', '7.5', '0'])}",
        f"CircleSize:{keys}",
        f"OverallDifficulty:{random.choice(['5', '8.2', '10'])}",
        f"ApproachRate:{random.choice(['5', '9'])}",
        f"SliderMultiplier:{random.choice(['1.4', '1', '3.6'])}",
        f"SliderTickRate:{random.choice(['1', '2', '0.5'])}",
        "", "[Events]", "//Background and Video events",
        f'0,0,"{random.choice(["bg.jpg", "b g.png", "背景.jpg", ""])}",0,0',
        "//Break Periods", "//Storyboard Layer 0 (Background)",
        "//Storyboard Layer 1 (Fail)", "//Storyboard Layer 2 (Pass)",
        "//Storyboard Layer 3 (Foreground)", "//Storyboard Layer 4 (Overlay)",
        "//Storyboard Sound Samples",
    ]
    for _ in range(n_smp):
        f = random.choice(FILES[1:])
        if random.random() < 0.3:
            L.append(f'Sample,{rnd_time()},0,"{f}"')
        else:
            L.append(f'Sample,{rnd_time()},0,"{f}",{random.randint(0, 100)}')
    L += ["", "[TimingPoints]"]
    tps = []
    for _ in range(n_bpm):
        t = rnd_ftime() if frac else rnd_time()
        code = random.choice([500, 333.333333333333, 0.5, 1e6, 60000 / 7, -250.0])
        tps.append(f"{t},{code},{random.choice([3, 4, 7])},{random.randint(0, 3)},"
                   f"{random.randint(0, 2)},{random.randint(0, 100)},1,"
                   f"{random.choice([0, 1, 8, 9])}")
    for _ in range(n_sv):
        t = rnd_ftime() if frac else rnd_time()
        code = random.choice([-100, -50, -200, -1e-3, -12.5, -10000, 100.0])
        tps.append(f"{t},{code},4,{random.randint(0, 3)},{random.randint(0, 2)},"
                   f"{random.randint(0, 100)},0,{random.choice([0, 1, 8, 9])}")
    random.shuffle(tps)
    L += tps
    L += ["", "", "[HitObjects]"]
    hos = []
    tie = rnd_time()
    for i in range(n_hit):
        x = random.randint(0, 511)
        t = tie if i % 3 == 0 else rnd_time()
        hos.append(f"{x},192,{t},{random.choice([1, 5])},{random.randint(0, 14)},"
                   f"{random.randint(0, 3)}:{random.randint(0, 3)}:"
                   f"{random.randint(0, 5)}:{random.randint(0, 100)}:"
                   f"{random.choice(FILES)}")
    for i in range(n_hold):
        x = random.randint(0, 511)
        t = tie if i % 3 == 0 else rnd_time()
        hos.append(f"{x},192,{t},128,{random.randint(0, 14)},"
                   f"{t + random.randint(0, 5000)}:"
                   f"{random.randint(0, 3)}:{random.randint(0, 3)}:"
                   f"{random.randint(0, 5)}:{random.randint(0, 100)}:"
                   f"{random.choice(FILES)}")
    random.shuffle(hos)
    L += hos
    return L


def gen_memory_map(keys, n_hit, n_hold, n_bpm, n_sv, n_smp):
    m = OsuMap()
    m.circle_size = random.choice([keys, float(keys)])
    m.title = random.choice(TITLES)
    m.title_unicode = random.choice(TITLES)
    m.artist = random.choice(TITLES)
    m.artist_unicode = random.choice(TITLES)
    m.version = random.choice(["v", "a:b", "難"])
    m.tags = random.choice([[], ["a", "b"], ["x:y"]])
    m.preview_time = random.choice([-1, 0, 1234, 99.9])
    tie = rnd_ftime()
    if n_hit:
        m.hits = OsuHitList([
            OsuHit(offset=tie if i % 4 == 0 else rnd_ftime(),
                   column=random.randrange(keys),
                   hitsound_set=random.randint(0, 14),
                   sample_set=random.randint(0, 3),
                   addition_set=random.randint(0, 3),
                   custom_set=random.randint(0, 5),
                   volume=random.randint(0, 100),
                   hitsound_file=random.choice(FILES))
            for i in range(n_hit)])
    if n_hold:
        m.holds = OsuHoldList([
            OsuHold(offset=tie if i % 4 == 0 else rnd_ftime(),
                    column=random.randrange(keys),
                    length=random.choice([0.0, 0.4, 1.0, 250.75, 99999.0]),
                    hitsound_set=random.randint(0, 14),
                    volume=random.randint(0, 100),
                    hitsound_file=random.choice(FILES))
            for i in range(n_hold)])
    if n_bpm:
        m.bpms = OsuBpmList([
            OsuBpm(offset=rnd_ftime(),
                   bpm=random.choice([120.0, 180.5, 0.001, 1e5, -100.0, 222.22]),
                   metronome=random.choice([3, 4, 7]),
                   kiai=random.choice([True, False]),
                   volume=random.randint(0, 100))
            for _ in range(n_bpm)])
    if n_sv:
        m.svs = OsuSvList([
            OsuSv(offset=rnd_ftime(),
                  multiplier=random.choice([1.0, 0.5, 2.0, 1e-3, 10.0, -1.0, 1.23]),
                  kiai=random.choice([True, False]),
                  sample_set=random.randint(0, 3))
            for _ in range(n_sv)])
    if n_smp:
        m.samples = OsuSampleList([
            OsuSample(offset=rnd_ftime(), sample_file=f'"{random.choice(FILES[1:])}"',
                      volume=random.randint(0, 100))
            for _ in range(n_smp)])
    return m


def cycle(tag, m, gens=3):
    """write -> read -> write ..., dumping every generation, and checking that
    write() leaves the map it is called on untouched."""
    for g in range(gens):
        before = len(OUT)
        dump_map(f"{tag}.g{g}.before", m)
        snap = OUT[before:]
        lines = attempt(f"{tag}.g{g}.write", m.write)
        mark = len(OUT)
        dump_map(f"{tag}.g{g}.before", m)
        emit(f"{tag}.g{g}", "write-left-input-unchanged", OUT[mark:] == snap)
        if lines is None:
            return
        emit(f"{tag}.g{g}", "lines-type", type(lines).__name__, len(lines))
        for i, ln in enumerate(lines):
            emit(f"{tag}.g{g}.line", i, cell(ln))
        text = "\n".join(lines).split("\n")
        m = attempt(f"{tag}.g{g}.read", lambda: OsuMap.read(text))
        if m is None:
            return
    dump_map(f"{tag}.final", m)


# --------------------------------------------------------------------- cases
# 1. texts for every key count, with all list-size edge cases
SIZES = [(0, 0, 0, 0, 0), (1, 0, 1, 0, 0), (0, 1, 1, 1, 1), (5, 4, 2, 3, 2),
         (9, 7, 3, 6, 3)]
case = 0
for keys in range(1, 19):
    for sizes in (SIZES if keys in (1, 4, 7, 18) else random.sample(SIZES, 2)):
        case += 1
        txt = gen_osu_text(keys, *sizes, frac=(case % 2 == 0))
        tag = f"T{case}.k{keys}"
        m = attempt(tag + ".read", lambda: OsuMap.read(txt))
        if m is not None:
            cycle(tag, m)

# 2. in-memory charts for every key count
for keys in range(1, 19):
    for sizes in random.sample(SIZES, 2) + [(3, 3, 1, 2, 1)]:
        case += 1
        tag = f"M{case}.k{keys}"
        m = attempt(tag + ".gen", lambda: gen_memory_map(keys, *sizes))
        if m is not None:
            cycle(tag, m)

# 3. the list readers called directly
import numpy as np  # noqa: E402


def hit_str(keys=None):
    return (f"{random.randint(0, 511)},192,{rnd_time()},{random.choice([1, 5])},"
            f"{random.randint(0, 14)},{random.randint(0, 3)}:{random.randint(0, 3)}:"
            f"{random.randint(0, 5)}:{random.randint(0, 100)}:{random.choice(FILES)}")


def hold_str(keys=None):
    t = rnd_time()
    return (f"{random.randint(0, 511)},192,{t},128,{random.randint(0, 14)},"
            f"{t + random.randint(0, 9000)}:{random.randint(0, 3)}:"
            f"{random.randint(0, 3)}:{random.randint(0, 5)}:"
            f"{random.randint(0, 100)}:{random.choice(FILES)}")


def bpm_str():
    code = random.choice([500, 333.333333333333, 0.5, 1e6, 60000 / 7, -250.0])
    return (f"{rnd_ftime()},{code},{random.choice([3, 4, 7])},{random.randint(0, 3)},"
            f"{random.randint(0, 2)},{random.randint(0, 100)},1,"
            f"{random.choice([0, 1, 8, 9])}")


def sv_str():
    code = random.choice([-100, -50, -200, -1e-3, -12.5, -10000, 100.0])
    return (f"{rnd_ftime()},{code},4,{random.randint(0, 3)},{random.randint(0, 2)},"
            f"{random.randint(0, 100)},0,{random.choice([0, 1, 8, 9])}")


def smp_str():
    f = random.choice(FILES[1:])
    if random.random() < 0.4:
        return f'Sample,{rnd_time()},0,"{f}"'
    return f'Sample,{rnd_time()},0,"{f}",{random.randint(0, 100)}'


READERS = {
    "hit": (lambda s, k: OsuHitList.read(s, k), hit_str, True),
    "hold": (lambda s, k: OsuHoldList.read(s, k), hold_str, True),
    "bpm": (lambda s, k: OsuBpmList.read(s), bpm_str, False),
    "sv": (lambda s, k: OsuSvList.read(s), sv_str, False),
    "smp": (lambda s, k: OsuSampleList.read(s), smp_str, False),
}
BAD = ["", "garbage", "1,2,3", "0,0,0,0,0,0,0,0", "a,b,c,d,e,f,1,h", "a,b,c,d,e,f,0,h",
       "256,192,x,1,0,0:0:0:0:", "256,192,5,128,0,x:0:0:0:0:", "5,0,4,0,0,0,1,0",
       "5,0,4,0,0,0,0,0", "Sample,1", "Sample,x,0,f,1", "Sample,1,0,f,v"]


def run_reader(tag, name, strings, keys):
    fn = READERS[name][0]
    given = list(strings) if isinstance(strings, (list, tuple)) else None
    lst = attempt(tag, lambda: fn(strings, keys))
    if given is not None:
        emit(tag, "input-unchanged", list(strings) == given, type(strings).__name__)
    if lst is not None:
        dump_list(tag, lst)
        # a fresh list must not share state with another empty read
        emit(tag, "len", len(lst), "df-is-copy-independent",
             lst.df is not fn([], keys).df)


n = 0
for name, (fn, gen, needs_keys) in READERS.items():
    key_range = range(1, 19) if needs_keys else [None]
    for keys in key_range:
        for size in [0, 1, 2, 5, 11]:
            n += 1
            strings = [gen() for _ in range(size)]
            if size >= 5:  # ties + unsorted
                strings.append(strings[0])
                random.shuffle(strings)
            run_reader(f"R{n}.{name}.k{keys}.n{size}", name, strings, keys)
    # falsy / odd containers
    for label, strings in [("empty-list", []), ("empty-tuple", ()), ("none", None),
                           ("empty-str", ""), ("empty-dict", {}),
                           ("tuple", tuple(gen() for _ in range(3))),
                           ("np-empty", np.array([], dtype=object)),
                           ("np-one", np.array([gen()], dtype=object)),
                           ("np-two", np.array([gen(), gen()], dtype=object)),
                           ("generator", (gen() for _ in range(2))),
                           ("empty-generator", (x for x in [])),
                           ("zero", 0), ("one-str", gen())]:
        n += 1
        run_reader(f"R{n}.{name}.{label}", name, strings, 4)
    # malformed members -> exception, at first / middle / last position
    for b in BAD:
        for pos in (0, 1, 2):
            n += 1
            strings = [gen(), gen()]
            strings.insert(pos, b)
            run_reader(f"R{n}.{name}.bad{pos}.{b!r}", name, strings, 7)
    # lines of another kind
    for other, (_, ogen, _) in READERS.items():
        n += 1
        run_reader(f"R{n}.{name}.given-{other}", name, [ogen(), ogen()], 4)
    # odd key counts (only meaningful for notes)
    if needs_keys:
        for keys in [0, -1, 2.5, "4", None, 19, 1000]:
            n += 1
            run_reader(f"R{n}.{name}.keys={keys!r}", name, [gen(), gen()], keys)
            run_reader(f"R{n}.{name}.keys={keys!r}.empty", name, [], keys)

# 4. whole files whose sections are empty in every combination
for mask in range(32):
    sizes = tuple(3 if mask >> b & 1 else 0 for b in range(5))
    txt = gen_osu_text(random.randint(1, 18), *sizes, frac=bool(mask & 1))
    m = attempt(f"S{mask}.read", lambda: OsuMap.read(txt))
    if m is not None:
        cycle(f"S{mask}", m, gens=2)

digest = hashlib.sha256("\n".join(OUT).encode("utf8")).hexdigest()
if os.environ.get("DEMO_DUMP"):
    with open(os.environ["DEMO_DUMP"], "w", encoding="utf8") as f:
        f.write("\n".join(OUT))
print(f"DIGEST {digest}")
