"""Demo for C02 refactoring 1: from_bpm_changes_snap, recursion -> loop.

Prints one line ``DIGEST <sha256>`` over a canonical dump of
  * TimingMap.from_bpm_changes_snap on many generated tempo lists
    (reseat True / False / truthy non-bool, unsorted input, ties, single entry,
    empty list, first change not on beat 0, mid-measure changes),
    including raised exception types, the number of "Reseating" warnings that
    were logged, and the argument list afterwards (must not be modified);
  * SMMapSet.read on generated .sm texts with mid-measure tempo changes
    (every chart: header fields, all note lists and the tempo list).
"""
import hashlib
import logging
import random
import sys
from copy import deepcopy
from fractions import Fraction

import numpy as np
import pandas as pd

from reamber.algorithms.timing.TimingMap import TimingMap
from reamber.algorithms.timing.utils.BpmChangeSnap import BpmChangeSnap
from reamber.algorithms.timing.utils.snap import Snap
from reamber.sm.SMMapSet import SMMapSet

OUT = []


def emit(*a):
    OUT.append(" ".join(str(x) for x in a))


class Counter(logging.Handler):
    def __init__(self):
        super().__init__()
        self.msgs = []

    def emit(self, record):
        self.msgs.append((record.levelname, record.getMessage()))


COUNTER = Counter()
logging.getLogger().addHandler(COUNTER)
logging.getLogger().setLevel(logging.WARNING)
# keep stderr quiet: lastResort handler is not used once a handler is attached


def cell(v):
    if isinstance(v, (float, np.floating)):
        return f"{type(v).__name__}:{float(v).hex()}"
    return f"{type(v).__name__}:{v!r}"


def dump_df(name, df: pd.DataFrame):
    emit(" ", name, "cols", list(df.columns), "dtypes", [str(t) for t in df.dtypes])
    emit(" ", name, "index", type(df.index).__name__, list(df.index))
    for row in df.itertuples(index=False):
        emit("   ", [cell(v) for v in row])


def dump_bcs(bcs_s):
    return [
        (cell(b.bpm), cell(b.metronome), cell(b.snap.measure), cell(b.snap.beat),
         cell(b.snap.metronome))
        for b in bcs_s
    ]


def dump_tm(tm):
    emit("  tm type", type(tm).__name__, "n", len(tm.bpm_changes_offset))
    for b in tm.bpm_changes_offset:
        emit("   ", type(b).__name__, cell(b.bpm), cell(b.metronome), cell(b.offset))


def run_tm(tag, initial_offset, bcs_s, *args, **kwargs):
    before = dump_bcs(bcs_s)
    n0 = len(COUNTER.msgs)
    emit("CASE", tag, cell(initial_offset), before, args, sorted(kwargs.items()))
    try:
        tm = TimingMap.from_bpm_changes_snap(initial_offset, bcs_s, *args, **kwargs)
    except Exception as e:  # noqa
        emit("  raised", type(e).__name__)
    else:
        dump_tm(tm)
    emit("  logged", COUNTER.msgs[n0:])
    emit("  input unchanged", dump_bcs(bcs_s) == before)
    emit("  input after", dump_bcs(bcs_s))


def bcs(bpm, measure, beat, metronome=4):
    return BpmChangeSnap(bpm, metronome, Snap(measure, beat, metronome))


# ---------------------------------------------------------------- direct calls
def direct_cases(rng):
    # hand-written edge cases
    run_tm("single", 0.0, [bcs(120.0, 0, 0)])
    run_tm("single-noreseat", -12.5, [bcs(120.0, 0, 0)], False)
    run_tm("empty", 0.0, [])
    run_tm("empty-noreseat", 0.0, [], False)
    run_tm("first-not-zero", 0.0, [bcs(120.0, 1, 0)])
    run_tm("first-not-zero-beat", 0.0, [bcs(120.0, 0, 1)], False)
    run_tm("on-measures", 10.0, [bcs(120.0, 0, 0), bcs(240.0, 2, 0), bcs(60.0, 5, 0)])
    run_tm("unsorted", 10.0, [bcs(60.0, 5, 0), bcs(120.0, 0, 0), bcs(240.0, 2, 0)])
    run_tm("tie", 0.0, [bcs(120.0, 0, 0), bcs(240.0, 2, 0), bcs(90.0, 2, 0)])
    run_tm("tie-at-zero", 0.0, [bcs(120.0, 0, 0), bcs(240.0, 0, 0)])
    run_tm("mid", 0.0, [bcs(120.0, 0, 0), bcs(240.0, 0, 2)])
    run_tm("mid-kw", 0.0, [bcs(120.0, 0, 0), bcs(240.0, 0, 2)], reseat=True)
    run_tm("mid-noreseat", 0.0, [bcs(120.0, 0, 0), bcs(240.0, 0, 2)], reseat=False)
    run_tm("mid-truthy", 0.0, [bcs(120.0, 0, 0), bcs(240.0, 0, 2)], 1)
    run_tm("mid-falsy", 0.0, [bcs(120.0, 0, 0), bcs(240.0, 0, 2)], 0)
    run_tm("mid-none", 0.0, [bcs(120.0, 0, 0), bcs(240.0, 0, 2)], None)
    run_tm("mid-frac", 5.0, [bcs(120.0, 0, 0), bcs(200.0, 1, Fraction(7, 48)),
                             bcs(100.0, 3, Fraction(1, 3))])
    run_tm("beat-over-metronome", 0.0, [bcs(120.0, 0, 0), bcs(150.0, 0, 9.5)])
    run_tm("float-beats", 0.0, [bcs(120.0, 0, 0.0), bcs(150.0, 0, 6.25),
                                bcs(175.0, 0, 13.0)])
    run_tm("extend-measure", 0.0, [bcs(60000.0, 0, 0), bcs(60000.0, 1, 0.002)])
    run_tm("extend-beat", 0.0, [bcs(60000.0, 0, 0), bcs(60000.0, 0, 2.0005)])
    run_tm("metronome3", 0.0, [bcs(120.0, 0, 0, 3), bcs(180.0, 1, 1, 3)])
    run_tm("int-values", 0, [bcs(120, 0, 0), bcs(240, 1, 2)])

    # generated: SM-like lists (all at measure 0, beat on the 1/48 grid)
    for i in range(60):
        n = rng.choice([1, 2, 2, 3, 4, 5, 8])
        beats = sorted(rng.sample(range(1, 48 * 40), n - 1))
        lst = [bcs(float(rng.choice([60, 90, 120, 128, 150, 174.5, 200, 333.33])), 0, 0)]
        for b in beats:
            how = rng.random()
            if how < 0.4:
                b = b - b % 48  # on a beat
            elif how < 0.6:
                b = b - b % 192  # on a measure
            beat = Fraction(b, 48) if rng.random() < 0.5 else float(round(b / 48, 6))
            lst.append(bcs(float(rng.choice([45, 80, 100, 140, 180, 222.2, 400])), 0, beat))
        if rng.random() < 0.3:
            rng.shuffle(lst)
        if rng.random() < 0.2 and len(lst) > 1:
            lst.append(deepcopy(lst[-1]))  # tie
            lst[-1].bpm = 77.0
        off = float(rng.choice([0, -250, 13.5, 1000.125, -3.3]))
        for reseat in (True, False):
            run_tm(f"gen{i}-{reseat}", off, lst, reseat)


# ------------------------------------------------------------------ .sm reading
CHARTS = [("dance-single", 4), ("dance-double", 8), ("dance-solo", 6),
          ("dance-threepanel", 3), ("kb7-single", 7), ("pump-single", 5),
          ("dance-couple", 8), ("kb7-single", 7)]


def gen_notes(rng, keys, n_measures):
    open_ = [False] * keys
    measures = []
    for m in range(n_measures + 1):
        last = m == n_measures
        rows = rng.choice([4, 4, 8, 8, 12, 16, 16, 24, 32, 48, 64, 96, 192])
        lines = []
        for r in range(rows):
            row = []
            dense = rng.random() < (0.5 if rows <= 16 else 0.12)
            for c in range(keys):
                if open_[c]:
                    if last or rng.random() < 0.25:
                        row.append("3")
                        open_[c] = False
                    else:
                        row.append("0")
                elif last or not dense or rng.random() < 0.5:
                    row.append("0")
                else:
                    ch = rng.choice("1111122244MLFK")
                    if ch in "24":
                        open_[c] = True
                    row.append(ch)
            lines.append("".join(row))
        if last and any(open_):
            raise AssertionError
        measures.append(lines)
    return measures


def gen_sm(rng, n_charts, n_bpms, style):
    offset = rng.choice([0.0, -0.25, 1.337, 0.009, -2.5])
    bpms = [(0, float(rng.choice([60, 120, 128, 150, 174.5, 200])))]
    for b in sorted(rng.sample(range(1, 48 * 24), n_bpms)):
        how = rng.random()
        if how < 0.35:
            b = b - b % 48
        elif how < 0.55:
            b = b - b % 192
        if b == 0 or b in [x[0] for x in bpms]:
            continue
        bpms.append((b, float(rng.choice([45, 80, 100, 140, 180, 222.2, 400]))))
    out = [
        f"#TITLE:Song {rng.randrange(1000)};", "#SUBTITLE:sub;", "#ARTIST:Someone;",
        "#TITLETRANSLIT:;", "#SUBTITLETRANSLIT:;", "#ARTISTTRANSLIT:;",
        "#GENRE:g;", "#CREDIT:me;", "#BANNER:bn.png;", "#BACKGROUND:bg.png;",
        "#LYRICSPATH:;", "#CDTITLE:;", "#MUSIC:a.ogg;",
    ]
    if style != "nooffset":
        out.append(f"#OFFSET:{offset:.3f};")
    out.append("#BPMS:" + (",\n" if style == "multiline" else ",").join(
        f"{b / 48:.3f}={v:.3f}" if (b * 1000) % 48 == 0 else f"{b / 48:.6f}={v:.3f}"
        for b, v in bpms) + ";")
    out += ["#SAMPLESTART:12.500;", "#SAMPLELENGTH:9.000;", "#DISPLAYBPM:*;",
            "#SELECTABLE:YES;", "#BGCHANGES:;", "#FGCHANGES:;"]
    for ci in range(n_charts):
        chart, keys = rng.choice(CHARTS)
        measures = gen_notes(rng, keys, rng.choice([1, 2, 3, 5, 8]))
        if style == "comments":
            out.append(f"//--------------- {chart} - chart {ci} ----------------")
        out.append("#NOTES:")
        out.append(f"     {chart}:")
        out.append(f"     desc {ci}:")
        out.append(f"     {rng.choice(['Beginner', 'Easy', 'Hard', 'Challenge', 'Edit'])}:")
        out.append(f"     {rng.randrange(1, 20)}:")
        out.append("     " + ",".join(f"{rng.random():.3f}" for _ in range(5)) + ":")
        for mi, lines in enumerate(measures):
            if style == "comments":
                out.append(f"  // measure {mi}")
            for ln in lines:
                out.append(ln)
                if style in ("comments", "blank") and rng.random() < 0.1:
                    out.append("")
            out.append("," if mi < len(measures) - 1 else ";")
    return "\n".join(out) + "\n"


META = ["title", "subtitle", "artist", "title_translit", "subtitle_translit",
        "artist_translit", "genre", "credit", "banner", "background", "lyrics_path",
        "cd_title", "music", "offset", "sample_start", "sample_length", "display_bpm",
        "selectable", "bg_changes", "fg_changes"]
LISTS = ["hits", "holds", "rolls", "mines", "lifts", "fakes", "keysounds", "bpms",
         "stops"]


def run_sm(tag, text):
    n0 = len(COUNTER.msgs)
    emit("SM", tag, hashlib.sha256(repr(text).encode()).hexdigest()[:16])
    keep = deepcopy(text)
    try:
        ms = SMMapSet.read(text)
    except Exception as e:  # noqa
        emit("  raised", type(e).__name__)
    else:
        emit("  meta", [(k, cell(getattr(ms, k))) for k in META])
        emit("  n maps", len(ms.maps))
        for i, m in enumerate(ms.maps):
            emit("  map", i, type(m).__name__, cell(m.chart_type), cell(m.description),
                 cell(m.difficulty), cell(m.difficulty_val),
                 [cell(x) for x in m.groove_radar])
            for name in LISTS:
                lst = getattr(m, name)
                emit("  list", name, type(lst).__name__)
                dump_df(name, lst.df)
    emit("  logged", COUNTER.msgs[n0:])
    emit("  input unchanged", keep == text)


def sm_cases(rng):
    for i in range(36):
        style = ["plain", "comments", "blank", "multiline", "nooffset"][i % 5]
        text = gen_sm(rng, n_charts=rng.choice([1, 1, 2, 3]),
                      n_bpms=rng.choice([0, 1, 2, 3, 6]), style=style)
        run_sm(f"gen{i}-{style}", text)
        if i % 9 == 0:
            run_sm(f"gen{i}-{style}-aslist", text.split("\n"))


def main():
    rng = random.Random(20802)
    random.seed(20802)
    np.random.seed(20802)
    direct_cases(rng)
    sm_cases(rng)
    blob = "\n".join(OUT).encode()
    if len(sys.argv) > 1 and sys.argv[1] == "--dump":
        sys.stdout.write(blob.decode() + "\n")
    print("DIGEST", hashlib.sha256(blob).hexdigest())


if __name__ == "__main__":
    main()
