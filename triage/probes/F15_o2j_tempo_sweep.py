"""F15 (C07): O2JMap.read_pkgs tempo sweep.  Builds small well-formed .ojn byte strings and compares every note and tempo
time with an independent piecewise integration (measure + slot/slots, 4 beats per measure, header tempo first).

Run:  cd /repo && /venv/bin/python /verif/triage/probes/F15_o2j_tempo_sweep.py
pinned tree: TypeError without tempo packages; a tempo event after measure 0 ignored; later tempo points left at 0 ms
"""
import struct, warnings, itertools
warnings.simplefilter("ignore")
from reamber.o2jam.O2JMapSet import O2JMapSet


def ojn(pkgs, bpm=120.0):
    hdr = struct.pack("<i4sfif4h3i3i3i3ihh20sii64s32s32s32si3i3ii",
                      1, b"ojn\0", 2.9, 0, bpm, 1, 1, 1, 0, 0, 0, 0, 0, 0, 0, 0, 0, 0,
                      len(pkgs), 0, 0, 0, 0, b"", 0, 0, b"t", b"a", b"c", b"o.ojm", 0, 0, 0, 0, 300, 0, 0, 0)
    body = b""
    for measure, channel, events in pkgs:
        body += struct.pack("<ihh", measure, channel, len(events)) + b"".join(events)
    return hdr + body


NOTE = struct.pack("<hBc", 1, 0, b"\x00")
EMPTY = struct.pack("<hBc", 0, 0, b"\x00")
TEMPO = lambda v: struct.pack("<f", v)        # noqa: E731
NOTEMPO = struct.pack("<f", 0.0)


def reference(init_bpm, tempos, positions):
    """tempos: sorted [(pos, bpm)], positions: list of measure positions -> ms"""
    out = []
    for p in positions:
        t, at, cur = 0.0, 0.0, init_bpm
        for tp, tb in tempos:
            if tp <= p:
                t += (tp - at) * 4 * 60000.0 / cur
                at, cur = tp, tb
        out.append(t + (p - at) * 4 * 60000.0 / cur)
    return out


def check(name, pkgs, init_bpm, tempos, note_pos):
    ms = O2JMapSet.read(ojn(pkgs, init_bpm))
    got_n = sorted(ms[0].hits.offset.tolist())
    want_n = sorted(reference(init_bpm, tempos, note_pos))
    got_b = ms[0].bpms.offset.tolist()[1:]          # [0] is the header tempo at 0
    want_b = reference(init_bpm, tempos, [p for p, _ in tempos])
    ok = all(abs(a - b) < 1e-6 for a, b in zip(got_n, want_n)) and len(got_n) == len(want_n) and \
        all(abs(a - b) < 1e-6 for a, b in zip(got_b, want_b)) and len(got_b) == len(want_b)
    print(f"{'ok  ' if ok else 'FAIL'} {name}: notes {got_n} want {want_n}; tempo points {got_b} want {want_b}")
    return ok


res = []
try:
    res.append(check("no tempo package", [(0, 2, [NOTE]), (1, 2, [NOTE])], 120.0, [], [0, 1]))
except Exception as e:  # noqa: BLE001
    print("FAIL no tempo package:", repr(e)); res.append(False)
res.append(check("tempo after measure 0", [(0, 2, [NOTE]), (2, 1, [TEMPO(240.0)]), (4, 2, [NOTE])], 120.0, [(2, 240.0)], [0, 4]))
res.append(check("two tempos, note between", [(0, 1, [TEMPO(120.0)]), (0, 2, [NOTE]), (1, 1, [TEMPO(240.0)]), (2, 2, [NOTE]),
                                              (3, 1, [TEMPO(60.0)]), (4, 2, [NOTE])], 120.0, [(0, 120.0), (1, 240.0), (3, 60.0)], [0, 2, 4]))
res.append(check("tempo after the last note", [(0, 2, [NOTE]), (1, 2, [NOTE]), (3, 1, [TEMPO(200.0)])], 150.0, [(3, 200.0)], [0, 1]))
res.append(check("mid-measure tempo, notes at three positions",
                 [(0, 1, [TEMPO(100.0)]), (0, 2, [NOTE, EMPTY, NOTE, EMPTY]), (1, 1, [NOTEMPO, TEMPO(300.0)]), (1, 2, [EMPTY, EMPTY, EMPTY, NOTE])],
                 100.0, [(0, 100.0), (1.5, 300.0)], [0, 0.5, 1.75]))
assert all(res), "F15: O2Jam times do not follow the tempo integration"
print("ok")
