"""Demo for property C13 (rate change).

Run as:  cd /tmp/wt6/C13 && PYTHONPATH=/tmp/wt6/C13 /venv/bin/python demo.py

Builds several dozen charts / mapsets of all five games (synthetic ones with
edge cases + a few real files shipped in rsc/), rates them by many rates,
and prints one line ``DIGEST <hex>``: a sha256 over a canonical text dump of
  * the rated result (every list: class, column order, dtypes, row labels,
    repr of every value; every file-level meta field),
  * the original after the call (non-mutation),
  * aliasing facts between result and original,
  * composition rate(a).rate(b),
  * the text written from the rated chart and the chart read back from it,
  * direct operations on the Stacker that ``rate`` is built on,
  * the type of any exception raised at any of these steps.
"""
import dataclasses
import hashlib
import os
import random
import sys
import warnings

import numpy as np
import pandas as pd

warnings.filterwarnings("ignore")
import logging

logging.disable(logging.CRITICAL)

from reamber.base import Map, MapSet, Hit, Hold, Bpm
from reamber.base.lists import BpmList
from reamber.base.lists.notes import HitList, HoldList
from reamber.bms import BMSMap, BMSHit, BMSHold, BMSBpm
from reamber.bms.lists import BMSBpmList
from reamber.bms.lists.notes import BMSHitList, BMSHoldList
from reamber.o2jam import O2JMapSet, O2JMap, O2JHit, O2JHold, O2JBpm
from reamber.o2jam.lists import O2JBpmList
from reamber.o2jam.lists.notes import O2JHitList, O2JHoldList
from reamber.osu import OsuMap, OsuHit, OsuHold, OsuBpm, OsuSv
from reamber.osu.OsuSample import OsuSample
from reamber.osu.lists import OsuBpmList, OsuSvList, OsuSampleList
from reamber.osu.lists.notes import OsuHitList, OsuHoldList
from reamber.quaver import QuaMap, QuaHit, QuaHold, QuaBpm, QuaSv
from reamber.quaver.lists import QuaBpmList, QuaSvList
from reamber.quaver.lists.notes import QuaHitList, QuaHoldList
from reamber.sm import SMMapSet, SMMap, SMHit, SMHold, SMBpm
from reamber.sm.lists import SMBpmList
from reamber.sm.lists.notes import SMHitList, SMHoldList
from reamber.base.lists.TimedList import TimedList

random.seed(130013)
np.random.seed(130013)

ROOT = os.path.dirname(os.path.dirname(os.path.abspath(sys.modules["reamber"].__file__)))
RSC = os.path.join(ROOT, "rsc", "maps")

OUT = []


def emit(*parts):
    OUT.append(" ".join(str(p) for p in parts))


# --------------------------------------------------------------------------
# canonical dumps
# --------------------------------------------------------------------------
def dump_df(df):
    lines = [
        "cols=" + repr(list(df.columns)),
        "dtypes=" + repr([str(t) for t in df.dtypes]),
        "index=" + type(df.index).__name__ + repr(df.index.tolist()),
    ]
    for c in df.columns:
        lines.append(f" {c}: " + repr([repr(v) for v in df[c].tolist()]))
    return "\n".join(lines)


def dump_value(v):
    if isinstance(v, TimedList):
        return type(v).__name__ + "{\n" + dump_df(v.df) + "\n}"
    if isinstance(v, pd.DataFrame):
        return "DF{\n" + dump_df(v) + "\n}"
    if isinstance(v, pd.Series):
        return "SER{" + str(v.dtype) + repr(v.index.tolist()) + repr([repr(x) for x in v.tolist()]) + "}"
    if isinstance(v, (list, tuple)):
        return type(v).__name__ + "[" + ",".join(dump_value(x) for x in v) + "]"
    if isinstance(v, dict):
        return "{" + ",".join(f"{k!r}:{dump_value(x)}" for k, x in v.items()) + "}"
    if isinstance(v, Map):
        return dump_map(v)
    return type(v).__name__ + ":" + repr(v)


def dump_meta(obj):
    lines = []
    if dataclasses.is_dataclass(obj):
        for f in dataclasses.fields(obj):
            if f.name in ("objs", "maps"):
                continue
            try:
                lines.append(f" .{f.name}=" + dump_value(getattr(obj, f.name)))
            except Exception as e:  # pragma: no cover
                lines.append(f" .{f.name}!{type(e).__name__}")
    # instance attributes that are not dataclass fields
    extra = sorted(
        k for k in vars(obj)
        if k not in ("objs", "maps")
        and k not in {f.name for f in dataclasses.fields(obj)}
    ) if dataclasses.is_dataclass(obj) else sorted(vars(obj))
    for k in extra:
        lines.append(f" +{k}=" + dump_value(getattr(obj, k)))
    return "\n".join(lines)


def dump_map(m):
    lines = ["MAP " + type(m).__name__, "keys=" + repr(list(m.objs.keys()))]
    for k, v in m.objs.items():
        lines.append(f"[{k}] " + type(v).__name__)
        lines.append(dump_df(v.df))
    lines.append(dump_meta(m))
    return "\n".join(lines)


def dump_chart(c):
    if isinstance(c, MapSet):
        lines = ["SET " + type(c).__name__, "maps:" + type(c.maps).__name__ + f" n={len(c.maps)}"]
        for m in c.maps:
            lines.append(dump_map(m))
        lines.append(dump_meta(c))
        return "\n".join(lines)
    return dump_map(c)


def maps_of(c):
    return list(c.maps) if isinstance(c, MapSet) else [c]


def alias_facts(a, b):
    """Which parts of result ``a`` are the same objects / share memory with ``b``."""
    facts = [a is b]
    if isinstance(a, MapSet) and isinstance(b, MapSet):
        facts.append(a.maps is b.maps)
    for ma, mb in zip(maps_of(a), maps_of(b)):
        facts.append(ma is mb)
        facts.append(ma.objs is mb.objs)
        for k in ma.objs:
            if k in mb.objs:
                la, lb = ma.objs[k], mb.objs[k]
                facts.append(la is lb)
                facts.append(la.df is lb.df)
                for col in la.df.columns:
                    if col in lb.df.columns and la.df[col].dtype != object and len(la.df):
                        facts.append(
                            bool(np.shares_memory(la.df[col].to_numpy(), lb.df[col].to_numpy()))
                        )
        sa, sb = getattr(ma, "samples", None), getattr(mb, "samples", None)
        if isinstance(sa, TimedList) and isinstance(sb, TimedList):
            facts.append(sa is sb)
            facts.append(sa.df is sb.df)
    return repr(facts)


# --------------------------------------------------------------------------
# generators
# --------------------------------------------------------------------------
def rnd_offsets(n, style):
    if style == "sorted":
        return sorted(random.uniform(-500, 60000) for _ in range(n))
    if style == "unsorted":
        return [random.uniform(-500, 60000) for _ in range(n)]
    if style == "ties":
        base = [random.choice([0.0, 250.0, 500.0, 1000.0]) for _ in range(n)]
        return base
    if style == "ints":
        return [float(random.randrange(0, 60000)) for _ in range(n)]
    if style == "negzero":
        return [random.choice([-1000.0, -0.0, 0.0, -1.5, 3.25]) for _ in range(n)]
    raise ValueError(style)


STYLES = ["sorted", "unsorted", "ties", "ints", "negzero"]


def rnd_len():
    return random.choice([0.0, 1.0, random.uniform(0, 4000), float(random.randrange(1, 3000)), -10.0])


def rnd_bpm():
    return random.choice([120.0, 60.0, 200.5, random.uniform(1, 999), 0.0, -120.0, 1e6])


def gen_base_map(nh, nl, nb, keys, style):
    m = Map()
    m.hits = HitList([Hit(o, random.randrange(keys)) for o in rnd_offsets(nh, style)])
    m.holds = HoldList([Hold(o, random.randrange(keys), rnd_len()) for o in rnd_offsets(nl, style)])
    m.bpms = BpmList([Bpm(o, rnd_bpm(), random.choice([4, 3, 7])) for o in rnd_offsets(nb, style)])
    return m


def gen_osu(nh, nl, nb, ns, nsm, keys, style, preview):
    m = OsuMap()
    m.circle_size = keys
    m.hits = OsuHitList(
        [
            OsuHit(o, random.randrange(keys), random.randrange(4), random.randrange(4),
                   random.randrange(4), random.randrange(3), random.randrange(101),
                   random.choice(["", "a.wav", "b.ogg"]))
            for o in rnd_offsets(nh, style)
        ]
    )
    m.holds = OsuHoldList(
        [
            OsuHold(o, random.randrange(keys), rnd_len(), random.randrange(4), random.randrange(4),
                    random.randrange(4), random.randrange(3), random.randrange(101),
                    random.choice(["", "c.wav"]))
            for o in rnd_offsets(nl, style)
        ]
    )
    m.bpms = OsuBpmList(
        [
            OsuBpm(o, rnd_bpm(), random.choice([4, 3, 5]), random.randrange(4), random.randrange(3),
                   random.randrange(101), random.choice([True, False]))
            for o in rnd_offsets(nb, style)
        ]
    )
    m.svs = OsuSvList(
        [
            OsuSv(o, random.choice([1.0, 0.5, 2.0, random.uniform(0.01, 10)]), 4, random.randrange(4),
                  random.randrange(3), random.randrange(101), random.choice([True, False]))
            for o in rnd_offsets(ns, style)
        ]
    )
    m.samples = OsuSampleList(
        [OsuSample(o, random.choice(["s.wav", "t.ogg", ""]), random.randrange(101)) for o in rnd_offsets(nsm, style)]
    )
    m.preview_time = preview
    m.title = "t" + str(random.randrange(1000))
    m.audio_file_name = "audio.mp3"
    return m


def gen_qua(nh, nl, nb, ns, keys, style):
    m = QuaMap()
    m.hits = QuaHitList([QuaHit(o, random.randrange(keys), random.choice([[], ["k1"]])) for o in rnd_offsets(nh, style)])
    m.holds = QuaHoldList(
        [QuaHold(o, random.randrange(keys), rnd_len(), random.choice([[], ["k2", "k3"]])) for o in rnd_offsets(nl, style)]
    )
    m.bpms = QuaBpmList([QuaBpm(o, rnd_bpm(), random.choice([4, 3])) for o in rnd_offsets(nb, style)])
    m.svs = QuaSvList([QuaSv(o, random.uniform(0.01, 10)) for o in rnd_offsets(ns, style)])
    m.song_preview_time = random.choice([0, 1234, -1])
    m.title = "q" + str(random.randrange(1000))
    return m


def gen_bms(nh, nl, nb, keys, style):
    m = BMSMap()
    m.hits = BMSHitList([BMSHit(o, random.randrange(keys), random.choice([b"", b"01", b"0Z"])) for o in rnd_offsets(nh, style)])
    m.holds = BMSHoldList(
        [BMSHold(o, random.randrange(keys), rnd_len(), random.choice([b"", b"02"])) for o in rnd_offsets(nl, style)]
    )
    m.bpms = BMSBpmList([BMSBpm(o, rnd_bpm(), 4) for o in rnd_offsets(nb, style)])
    m.title = b"bms"
    return m


def gen_sm_map(nh, nl, nb, keys, style):
    m = SMMap()
    m.hits = SMHitList([SMHit(o, random.randrange(keys)) for o in rnd_offsets(nh, style)])
    m.holds = SMHoldList([SMHold(o, random.randrange(keys), rnd_len()) for o in rnd_offsets(nl, style)])
    m.bpms = SMBpmList([SMBpm(o, rnd_bpm(), 4) for o in rnd_offsets(nb, style)])
    return m


def gen_sm_set(nmaps, nh, nl, nb, keys, style, offset, ss, sl):
    s = SMMapSet(maps=[gen_sm_map(nh, nl, nb, keys, style) for _ in range(nmaps)])
    s.offset = offset
    s.sample_start = ss
    s.sample_length = sl
    s.title = "sm" + str(random.randrange(1000))
    return s


def gen_o2j_map(nh, nl, nb, style):
    m = O2JMap()
    m.hits = O2JHitList([O2JHit(o, random.randrange(7), random.randrange(16), random.randrange(16)) for o in rnd_offsets(nh, style)])
    m.holds = O2JHoldList(
        [O2JHold(o, random.randrange(7), rnd_len(), random.randrange(16), random.randrange(16)) for o in rnd_offsets(nl, style)]
    )
    m.bpms = O2JBpmList([O2JBpm(o, rnd_bpm(), 4) for o in rnd_offsets(nb, style)])
    return m


def clean_sm_set(nmaps, offset, ss, sl, keys=4):
    """A StepMania set that is writable: 1 bpm at the file offset, snapped notes."""
    bpm = random.choice([120.0, 150.0, 200.0])
    beat = 60000.0 / bpm
    maps = []
    for _ in range(nmaps):
        m = SMMap()
        hits, holds = [], []
        kind = random.choice(["hits", "holds", "both", "both"])
        for col in range(keys):
            cursor = random.randrange(0, 4)  # in half beats
            for _k in range(random.randrange(0, 6)):
                if kind == "hits" or (kind == "both" and random.random() < 0.6):
                    hits.append(SMHit(offset + beat * cursor / 2, col))
                    cursor += random.randrange(1, 6)
                else:
                    ln = random.randrange(1, 8)
                    holds.append(SMHold(offset + beat * cursor / 2, col, beat * ln / 2))
                    cursor += ln + random.randrange(1, 6)
        if not hits and not holds:
            hits.append(SMHit(offset, 0))
        m.hits = SMHitList(hits)
        m.holds = SMHoldList(holds)
        m.bpms = SMBpmList([SMBpm(offset, bpm, 4)])
        maps.append(m)
    s = SMMapSet(maps=maps)
    s.offset = offset
    s.sample_start = ss
    s.sample_length = sl
    s.title = "clean"
    return s


def clean_osu(keys, preview, with_ln=True, with_sv=True, with_samples=True):
    """An osu map with integer-ms data, i.e. what a file holds."""
    bpm = random.choice([120.0, 180.0, 240.0])
    m = OsuMap()
    m.circle_size = keys
    m.hits = OsuHitList([OsuHit(float(random.randrange(0, 90000)), random.randrange(keys)) for _ in range(random.randrange(1, 20))])
    m.holds = OsuHoldList(
        [OsuHold(float(random.randrange(0, 90000)), random.randrange(keys), float(random.randrange(1, 2000)))
         for _ in range(random.randrange(1, 10) if with_ln else 0)]
    )
    m.bpms = OsuBpmList([OsuBpm(0.0, bpm), OsuBpm(30000.0, bpm * 2)])
    m.svs = OsuSvList([OsuSv(float(random.randrange(0, 90000)), random.choice([0.5, 1.0, 2.0])) for _ in range(4 if with_sv else 0)])
    m.samples = OsuSampleList(
        [OsuSample(float(random.randrange(0, 90000)), "s.wav", 70) for _ in range(3 if with_samples else 0)]
    )
    m.preview_time = preview
    return m


# --------------------------------------------------------------------------
# writers / readers
# --------------------------------------------------------------------------
def write_and_read(c):
    """Returns (text, chart read back) for writable games, else None."""
    if isinstance(c, OsuMap):
        lines = c.write()
        return "\n".join(lines), OsuMap.read(lines)
    if isinstance(c, QuaMap):
        s = c.write()
        return s, QuaMap.read(s)
    if isinstance(c, SMMapSet):
        s = c.write()
        return s, SMMapSet.read(s)
    if isinstance(c, BMSMap):
        b = c.write()
        return repr(b), BMSMap.read(b.decode("ascii", errors="replace").split("\n")) if isinstance(b, bytes) else None
    return None


def attempt(label, fn):
    try:
        r = fn()
        return r
    except BaseException as e:  # noqa
        if isinstance(e, (KeyboardInterrupt, SystemExit)):
            raise
        emit(label, "RAISED", type(e).__name__)
        return None


# --------------------------------------------------------------------------
# the scenario run on every chart
# --------------------------------------------------------------------------
RATES_FULL = [1, 1.0, 0.5, 2, 2.0, 1.1, 0.75, 3.0, 1e-3, 1000.0, np.float64(1.25), np.float32(1.5), np.int64(2)]
RATES_BAD = [0, 0.0, -2.0, "x", None, float("nan"), float("inf")]


def run_chart(name, chart, rates, do_write, compose=True, bad=True):
    emit("=" * 20, name)
    before = dump_chart(chart)
    emit("BEFORE", hashlib.sha256(before.encode()).hexdigest())
    for r in rates:
        tag = f"{name} rate={type(r).__name__}:{r!r}"
        res = attempt(tag, lambda: chart.rate(r))
        if res is None:
            continue
        emit(tag, "TYPE", type(res).__name__)
        emit(dump_chart(res))
        emit(tag, "ALIAS", alias_facts(res, chart))
        emit(tag, "ORIG_UNCHANGED", dump_chart(chart) == before)
        if do_write:
            wr = attempt(tag + " write", lambda: write_and_read(res))
            if wr is not None:
                text, back = wr
                emit(tag, "WRITTEN", hashlib.sha256(text.encode("utf8", "replace")).hexdigest(), len(text))
                if back is not None:
                    emit(tag, "READBACK")
                    emit(dump_chart(back))
    if compose:
        pairs = [(2.0, 0.5), (1.5, 2), (0.8, 1.25), (random.uniform(0.2, 3), random.uniform(0.2, 3))]
        for a, b in pairs:
            tag = f"{name} compose {a!r},{b!r}"
            res = attempt(tag, lambda: chart.rate(a).rate(b))
            if res is not None:
                emit(tag)
                emit(dump_chart(res))
            # keyword form
            res = attempt(tag + " kw", lambda: chart.rate(by=a * b))
            if res is not None:
                emit(tag, "direct")
                emit(dump_chart(res))
    if bad:
        for r in RATES_BAD:
            tag = f"{name} badrate={type(r).__name__}:{r!r}"
            res = attempt(tag, lambda: chart.rate(r))
            if res is not None:
                emit(tag, "OK", type(res).__name__)
                emit(dump_chart(res))
            emit(tag, "ORIG_UNCHANGED", dump_chart(chart) == before)
    emit("AFTER", hashlib.sha256(dump_chart(chart).encode()).hexdigest(), dump_chart(chart) == before)


def run_stacker(name, m):
    """Direct use of the Stacker the rate is built on (on a copy)."""
    m = m.deepcopy()
    tag = f"{name} stacker"
    st = attempt(tag + " stack()", lambda: m.stack())
    if st is None:
        return
    emit(tag, "ixs", repr(st._ixs), [type(i).__name__ for i in st._ixs])
    emit(tag, "unstacked", [type(o).__name__ for o in st._unstacked])
    emit(dump_value(st._stacked))

    def op1():
        st.offset += 7
        st.loc[st.offset > 1000, "offset"] *= 2
        st.column = st.column
    attempt(tag + " op1", op1)
    emit(dump_map(m))

    def op2():
        st2 = m.stack()
        st2.length /= 3
        st2.bpm *= 1.5
        st2.offset /= 0.3
        return st2
    st2 = attempt(tag + " op2", op2)
    emit(dump_map(m))
    if st2 is not None:
        emit(tag, "ixs2", repr(st2._ixs))
        emit(dump_value(st2._stacked))

    def op3():
        sub = m.stack(tuple(type(v) for v in list(m.objs.values())[:2]))
        emit(tag, "sub ixs", repr(sub._ixs))
        sub.offset -= 1
    attempt(tag + " op3", op3)
    emit(dump_map(m))
    attempt(tag + " missing", lambda: st.__getitem__("does_not_exist"))


def finish():
    text = "\n".join(OUT)
    print("DIGEST", hashlib.sha256(text.encode("utf8", "replace")).hexdigest())
    if os.environ.get("C13_DUMP"):
        with open(os.environ["C13_DUMP"], "w", encoding="utf8", errors="replace") as f:
            f.write(text)


# --------------------------------------------------------------------------
# main
# --------------------------------------------------------------------------
def main():
    charts = []  # (name, chart, rates, do_write)
    short = [1, 0.5, 2.0, 1.1, np.float64(1.25)]

    # ---- base Map / MapSet -------------------------------------------------
    i = 0
    for nh, nl, nb in [(0, 0, 0), (5, 0, 1), (0, 4, 1), (6, 3, 2), (1, 1, 1), (12, 7, 3), (3, 3, 0)]:
        for style in (STYLES if (nh, nl, nb) == (6, 3, 2) else [STYLES[i % len(STYLES)]]):
            i += 1
            m = gen_base_map(nh, nl, nb, random.choice([1, 4, 7, 10]), style)
            charts.append((f"base{i}[{nh},{nl},{nb},{style}]", m, RATES_FULL if i % 3 == 0 else short, False))
    charts.append(("baseset0", MapSet([]), RATES_FULL, False))
    charts.append(("baseset1", MapSet([gen_base_map(4, 2, 1, 4, "sorted")]), short, False))
    charts.append(
        ("baseset3", MapSet([gen_base_map(4, 2, 1, 4, "ties"), gen_base_map(0, 0, 0, 4, "sorted"),
                             gen_base_map(2, 0, 2, 7, "unsorted")]), short, False)
    )
    shared = gen_base_map(3, 1, 1, 4, "ints")
    charts.append(("baseset_sharedmap", MapSet([shared, shared]), short, False))

    # ---- osu ---------------------------------------------------------------
    i = 0
    for nh, nl, nb, ns, nsm in [(0, 0, 0, 0, 0), (5, 0, 1, 0, 0), (0, 4, 1, 0, 2), (6, 3, 2, 3, 0),
                                (6, 3, 2, 3, 4), (1, 1, 1, 1, 1), (10, 5, 2, 0, 3), (8, 0, 1, 5, 5)]:
        for preview in ([-1, 0, 1, 15000, 1234.5, -2] if (nh, nl, nb, ns, nsm) == (6, 3, 2, 3, 4) else
                        [random.choice([-1, 0, 777, 45000])]):
            i += 1
            style = STYLES[i % len(STYLES)]
            m = gen_osu(nh, nl, nb, ns, nsm, random.choice([4, 7, 1, 10]), style, preview)
            charts.append((f"osu{i}[{nh},{nl},{nb},{ns},{nsm},{style},pv={preview}]", m,
                           RATES_FULL if i % 4 == 0 else short, True))
    for j, (pv, ln, sv, sm) in enumerate([(-1, True, True, True), (20000, True, True, True), (0, False, True, False),
                                          (5000, True, False, True), (-1, False, False, False), (333, True, True, False)]):
        charts.append((f"osuclean{j}", clean_osu(random.choice([4, 7]), pv, ln, sv, sm), short + [0.75, 3.0], True))
    for fn in ["test.osu", "osu/Gravity.osu"]:
        p = os.path.join(RSC, fn)
        m = attempt("read " + fn, lambda: OsuMap.read_file(p))
        if m is not None:
            charts.append((f"osufile[{fn}]", m, [1, 0.5, 1.1], True))
    p = os.path.join(ROOT, "tests", "unit_tests", "osu", "map_read.osu")
    m = attempt("read map_read.osu", lambda: OsuMap.read_file(p))
    if m is not None:
        charts.append(("osufile[map_read]", m, short, True))

    # ---- quaver ------------------------------------------------------------
    i = 0
    for nh, nl, nb, ns in [(0, 0, 0, 0), (5, 0, 1, 0), (0, 4, 1, 2), (6, 3, 2, 3), (9, 4, 1, 1)]:
        i += 1
        style = STYLES[i % len(STYLES)]
        charts.append((f"qua{i}[{nh},{nl},{nb},{ns},{style}]", gen_qua(nh, nl, nb, ns, random.choice([4, 7]), style),
                       short, True))
    p = os.path.join(ROOT, "tests", "unit_tests", "qua", "map.qua")
    m = attempt("read map.qua", lambda: QuaMap.read_file(p))
    if m is not None:
        charts.append(("quafile[map.qua]", m, [1, 0.5, 1.1], True))

    # ---- bms ---------------------------------------------------------------
    i = 0
    for nh, nl, nb in [(0, 0, 0), (5, 0, 1), (0, 4, 1), (6, 3, 2)]:
        i += 1
        style = STYLES[i % len(STYLES)]
        charts.append((f"bms{i}[{nh},{nl},{nb},{style}]", gen_bms(nh, nl, nb, random.choice([7, 8]), style), short, False))
    p = os.path.join(RSC, "bms", "take.bms")
    m = attempt("read take.bms", lambda: BMSMap.read_file(p))
    if m is not None:
        charts.append(("bmsfile[take]", m, [1, 0.5], False))

    # ---- stepmania ---------------------------------------------------------
    i = 0
    for nmaps, nh, nl, nb, off, ss, sl in [(0, 0, 0, 0, 0.0, 0.0, 10.0), (1, 0, 0, 1, None, 0.0, 10000.0),
                                           (1, 5, 2, 1, 0.0, 1000.0, 10000.0), (2, 6, 3, 2, -250.0, 33333.3, 12000.0),
                                           (3, 4, 0, 1, 1234.5, 0.0, 0.0), (1, 0, 4, 1, None, -5.0, 15000.0),
                                           (2, 3, 3, 3, 100, 2000, 3000)]:
        i += 1
        style = STYLES[i % len(STYLES)]
        charts.append((f"sm{i}[{nmaps},{nh},{nl},{nb},{style},off={off},ss={ss},sl={sl}]",
                       gen_sm_set(nmaps, nh, nl, nb, 4, style, off, ss, sl), short if i % 2 else RATES_FULL, False))
    for j, (nmaps, off, ss, sl) in enumerate([(1, 0.0, 0.0, 10000.0), (2, -300.0, 45000.0, 12000.0), (1, 500.0, 1000.0, 5000.0),
                                              (3, 20.0, 0.0, 0.0)]):
        charts.append((f"smclean{j}", clean_sm_set(nmaps, off, ss, sl), [1, 0.5, 2.0, 1.25, 1.1], True))
    for fn in ["sm/Escapes.sm", "sm/Gravity.sm"]:
        p = os.path.join(RSC, fn)
        m = attempt("read " + fn, lambda: SMMapSet.read_file(p))
        if m is not None:
            charts.append((f"smfile[{fn}]", m, [1, 0.5, 1.1] if "Escapes" in fn else [2.0], True))

    # ---- o2jam -------------------------------------------------------------
    i = 0
    for nmaps, nh, nl, nb in [(0, 0, 0, 0), (1, 5, 0, 1), (3, 4, 3, 2), (2, 0, 0, 0)]:
        i += 1
        style = STYLES[i % len(STYLES)]
        s = O2JMapSet(maps=[gen_o2j_map(nh, nl, nb, style) for _ in range(nmaps)])
        charts.append((f"o2j{i}[{nmaps},{nh},{nl},{nb},{style}]", s, short, False))
    p = os.path.join(RSC, "o2jam", "o2ma178.ojn")
    m = attempt("read o2ma178", lambda: O2JMapSet.read_file(p))
    if m is not None:
        charts.append(("o2jfile[o2ma178]", m, [1, 0.5], False))

    emit("NCHARTS", len(charts))
    for name, chart, rates, do_write in charts:
        big = "file[" in name
        run_chart(name, chart, rates, do_write, compose=True, bad=not big)
        for k, m in enumerate(maps_of(chart)[:2]):
            if not big or k == 0:
                run_stacker(f"{name}#{k}", m)
    finish()


main()
