"""The only place where pandas / numpy / builtin-container semantics are asserted
(DESIGN §3 *pandas/numpy model*).  One line of justification per entry.

result classes
  fresh   the result shares no mutable storage with the receiver / arguments
  view    the result may share storage with the receiver (writes may write through)
  scalar  the result is an immutable scalar
  none    returns None
  elem    the result is an element stored in the receiver (containers)
  shallow a new container whose elements are the receiver's elements
inplace   True: the call mutates the receiver; "kw": only with inplace=True

Anything not listed evaluates to TOP: the result may alias receiver and arguments,
no mutation is claimed, and the site is counted as unresolved in the evidence.
"""

# (receiver family, method) -> (result, inplace)
PANDAS_METHODS = {
    # ---- DataFrame / Series: new-object producers (pandas returns a new object) ----
    "copy": ("fresh", False),            # explicit copy (deep=True default)
    "sort_values": ("fresh", "kw"),      # new sorted object unless inplace=True
    "sort_index": ("fresh", "kw"),
    "astype": ("fresh", False),          # copy=True default
    "rename": ("fresh", "kw"),
    "drop": ("fresh", "kw"),
    "reset_index": ("fresh", "kw"),
    "reindex": ("fresh", False),
    "fillna": ("fresh", "kw"),
    "ffill": ("fresh", "kw"),
    "bfill": ("fresh", "kw"),
    "dropna": ("fresh", "kw"),
    "drop_duplicates": ("fresh", "kw"),
    "assign": ("fresh", False),          # assign() copies the frame first
    "merge": ("fresh", False),
    "join": ("fresh", False),
    "set_index": ("fresh", "kw"),
    "set_axis": ("fresh", False),        # copy=True default in pandas 2.x
    "describe": ("fresh", False),
    "diff": ("fresh", False),
    "shift": ("fresh", False),
    "cumsum": ("fresh", False),
    "cummax": ("fresh", False),
    "cummin": ("fresh", False),
    "apply": ("fresh", False),
    "map": ("fresh", False),
    "applymap": ("fresh", False),
    "replace": ("fresh", "kw"),
    "abs": ("fresh", False),
    "round": ("fresh", False),
    "clip": ("fresh", "kw"),
    "where": ("fresh", "kw"),
    "mask": ("fresh", "kw"),
    "isin": ("fresh", False),
    "between": ("fresh", False),
    "isna": ("fresh", False),
    "notna": ("fresh", False),
    "isnull": ("fresh", False),
    "notnull": ("fresh", False),
    "eq": ("fresh", False), "ne": ("fresh", False), "lt": ("fresh", False), "le": ("fresh", False),
    "gt": ("fresh", False), "ge": ("fresh", False),
    "add": ("fresh", False), "sub": ("fresh", False), "mul": ("fresh", False), "div": ("fresh", False),
    "truediv": ("fresh", False), "floordiv": ("fresh", False), "mod": ("fresh", False), "pow": ("fresh", False),
    "repeat": ("fresh", False),
    "take": ("fresh", False),
    "sample": ("fresh", False),
    "nlargest": ("fresh", False), "nsmallest": ("fresh", False),
    "unique": ("fresh", False),
    "value_counts": ("fresh", False),
    "to_dict": ("fresh", False),         # builds new python containers
    "to_records": ("fresh", False),      # copies into a record array
    "tolist": ("fresh", False), "to_list": ("fresh", False),
    "to_string": ("scalar", False), "to_csv": ("scalar", False),
    "iterrows": ("fresh", False),        # yields (label, Series) copies of each row
    "itertuples": ("fresh", False),      # yields tuples of scalars
    "agg": ("fresh", False), "aggregate": ("fresh", False),
    "first": ("fresh", False), "last": ("fresh", False), "nth": ("fresh", False),
    "transform": ("fresh", False),
    "interpolate": ("fresh", "kw"),
    "explode": ("fresh", False),
    "rank": ("fresh", False),
    "pct_change": ("fresh", False),
    "duplicated": ("fresh", False),
    "select_dtypes": ("fresh", False),
    "query": ("fresh", False),
    "eval": ("fresh", False),
    "melt": ("fresh", False), "pivot": ("fresh", False), "stack": ("fresh", False), "unstack": ("fresh", False),
    "infer_objects": ("fresh", False), "convert_dtypes": ("fresh", False),
    "union": ("fresh", False), "difference": ("fresh", False), "intersection": ("fresh", False),
    "argsort": ("fresh", False),
    "flatten": ("fresh", False),
    "nonzero": ("fresh", False),
    "searchsorted": ("fresh", False),
    # ---- may share storage with the receiver ----
    "to_numpy": ("view", False),         # no copy for a single-dtype frame/series
    "to_frame": ("view", False),
    "head": ("view", False), "tail": ("view", False),   # positional slices
    "groupby": ("view", False),          # the groupby object keeps a reference to the frame
    "rolling": ("view", False),
    "transpose": ("view", False), "reshape": ("view", False), "ravel": ("view", False),
    "view": ("view", False), "squeeze": ("view", False), "swapaxes": ("view", False),
    "items": ("view", False),            # yields the frame's own column Series
    "get": ("view", False),
    "pipe": ("view", False),
    "droplevel": ("view", False), "swaplevel": ("view", False), "rename_axis": ("view", False),
    # ---- reductions ----
    "max": ("scalar", False), "min": ("scalar", False), "sum": ("scalar", False), "mean": ("scalar", False),
    "median": ("scalar", False), "std": ("scalar", False), "var": ("scalar", False), "count": ("scalar", False),
    "prod": ("scalar", False), "any": ("scalar", False), "all": ("scalar", False), "idxmax": ("scalar", False),
    "idxmin": ("scalar", False), "nunique": ("scalar", False), "argmax": ("scalar", False),
    "argmin": ("scalar", False), "item": ("scalar", False), "equals": ("scalar", False), "ptp": ("scalar", False),
    "first_valid_index": ("scalar", False), "last_valid_index": ("scalar", False),
    "info": ("none", False), "memory_usage": ("fresh", False), "corr": ("fresh", False),
    # ---- in-place mutators ----
    "__setitem__": ("none", True),       # frame / series / indexer / ndarray item assignment
    "insert": ("none", True),
    "pop": ("fresh", True),              # DataFrame.pop removes the column
    "update": ("none", True),
    "sort": ("none", True),              # ndarray.sort
    "fill": ("none", True), "put": ("none", True), "resize": ("none", True), "itemset": ("none", True),
    "setflags": ("none", True),
    "__delitem__": ("none", True),
}

# attribute loads on frames / series / arrays
PANDAS_ATTRS = {
    "loc": "view", "iloc": "view", "at": "view", "iat": "view",   # indexers write through to the frame
    "values": "view", "array": "view", "T": "view",
    "index": "scalar", "columns": "scalar",                       # Index objects are immutable
    "shape": "scalar", "dtype": "scalar", "dtypes": "scalar", "size": "scalar", "ndim": "scalar",
    "empty": "scalar", "name": "scalar",
    "str": "view", "dt": "view", "cat": "view",
}

# external callables: dotted name -> result class (first argument is the "receiver")
EXTERNAL_CALLS = {
    "copy.deepcopy": "fresh",            # recursive copy
    "copy.copy": "shallow",
    "pandas.concat": "fresh",            # copy=True default
    "pandas.merge": "fresh",
    "pandas.DataFrame.from_dict": "fresh",
    "pandas.DataFrame.from_records": "fresh",
    "pandas.to_numeric": "fresh",
    "pandas.isna": "fresh", "pandas.notna": "fresh", "pandas.isnull": "fresh",
    "numpy.array": "fresh",              # copy=True default
    "numpy.asarray": "view",             # no copy when the input already is an array
    "numpy.asanyarray": "view",
    "numpy.where": "fresh", "numpy.diff": "fresh", "numpy.concatenate": "fresh", "numpy.unique": "fresh",
    "numpy.sort": "fresh", "numpy.argsort": "fresh", "numpy.cumsum": "fresh", "numpy.zeros": "fresh",
    "numpy.ones": "fresh", "numpy.arange": "fresh", "numpy.stack": "fresh", "numpy.vstack": "fresh",
    "numpy.hstack": "fresh", "numpy.isin": "fresh", "numpy.invert": "fresh", "numpy.flip": "view",
    "numpy.meshgrid": "fresh", "numpy.indices": "fresh", "numpy.triu_indices": "fresh", "numpy.empty": "fresh",
    "numpy.full": "fresh", "numpy.linspace": "fresh", "numpy.expand_dims": "view", "numpy.transpose": "view",
    "numpy.isnan": "fresh", "numpy.abs": "fresh", "numpy.floor": "fresh", "numpy.ceil": "fresh",
    "numpy.round": "fresh", "numpy.sqrt": "fresh", "numpy.lcm": "fresh", "numpy.gcd": "fresh",
    "numpy.logical_and": "fresh", "numpy.logical_or": "fresh", "numpy.logical_not": "fresh",
    "numpy.nan_to_num": "fresh", "numpy.repeat": "fresh", "numpy.tile": "fresh", "numpy.intersect1d": "fresh",
    "numpy.core.records.fromarrays": "fresh", "numpy.lib.stride_tricks.sliding_window_view": "view",
    "numpy.sum": "scalar", "numpy.max": "scalar", "numpy.min": "scalar", "numpy.mean": "scalar",
    "numpy.all": "scalar", "numpy.any": "scalar", "numpy.prod": "scalar", "numpy.median": "scalar",
    "numpy.std": "scalar", "numpy.ndim": "scalar", "numpy.argmax": "scalar", "numpy.argmin": "scalar",
    "numpy.base_repr": "scalar", "numpy.float64": "scalar", "numpy.int64": "scalar",
    "numpy.vectorize": "fresh",
    "fractions.Fraction": "scalar",
    "math.floor": "scalar", "math.ceil": "scalar",
    "bisect.bisect_left": "scalar", "bisect.bisect_right": "scalar",
    "struct.unpack": "fresh", "struct.pack": "scalar", "struct.calcsize": "scalar",
    "codecs.encode": "scalar", "codecs.decode": "scalar", "codecs.open": "fresh",
    "unidecode.unidecode": "scalar",
    "yaml.safe_load": "fresh", "yaml.load": "fresh", "yaml.dump": "scalar",
    "pathlib.Path": "scalar",
    "warnings.warn": "none", "logging.warning": "none", "logging.debug": "none", "logging.getLogger": "fresh",
    "itertools.permutations": "shallow",
    "functools.reduce": "top",
    "collections.deque": "shallow",
    "collections.namedtuple": "fresh",
    "dataclasses.field": "fresh",
    "datetime.timedelta": "scalar",
}

# python containers: (family, method) -> (result, inplace, stores_argument)
PY_METHODS = {
    ("pylist", "append"): ("none", True, True),
    ("pylist", "appendleft"): ("none", True, True),
    ("pylist", "extend"): ("none", True, True),
    ("pylist", "insert"): ("none", True, True),
    ("pylist", "pop"): ("elem", True, False),
    ("pylist", "popleft"): ("elem", True, False),
    ("pylist", "remove"): ("none", True, False),
    ("pylist", "sort"): ("none", True, False),
    ("pylist", "reverse"): ("none", True, False),
    ("pylist", "clear"): ("none", True, False),
    ("pylist", "copy"): ("shallow", False, False),
    ("pylist", "index"): ("scalar", False, False),
    ("pylist", "count"): ("scalar", False, False),
    ("pylist", "__setitem__"): ("none", True, True),
    ("dict", "get"): ("elem", False, False),
    ("dict", "pop"): ("elem", True, False),
    ("dict", "popitem"): ("elem", True, False),
    ("dict", "setdefault"): ("elem", True, True),
    ("dict", "update"): ("none", True, True),
    ("dict", "clear"): ("none", True, False),
    ("dict", "items"): ("shallow", False, False),
    ("dict", "keys"): ("shallow", False, False),
    ("dict", "values"): ("shallow", False, False),
    ("dict", "copy"): ("shallow", False, False),
    ("dict", "__setitem__"): ("none", True, True),
    ("set", "add"): ("none", True, True),
    ("set", "update"): ("none", True, True),
    ("set", "discard"): ("none", True, False),
    ("set", "remove"): ("none", True, False),
    ("set", "clear"): ("none", True, False),
}

# builtins: name -> result class
BUILTINS = {
    "len": "scalar", "int": "scalar", "float": "scalar", "str": "scalar", "bool": "scalar", "bytes": "scalar",
    "abs": "scalar", "round": "scalar", "ord": "scalar", "chr": "scalar", "id": "scalar", "hash": "scalar",
    "repr": "scalar", "format": "scalar", "isinstance": "scalar", "issubclass": "scalar", "hasattr": "scalar",
    "callable": "scalar", "any": "scalar", "all": "scalar", "print": "none", "type": "scalar", "divmod": "scalar",
    "range": "fresh", "open": "fresh", "super": "top",
    "list": "shallow", "tuple": "shallow", "set": "shallow", "sorted": "shallow", "reversed": "shallow",
    "zip": "shallow", "enumerate": "shallow", "map": "shallow", "filter": "shallow", "iter": "shallow",
    "dict": "shallow", "frozenset": "shallow",
    "max": "elem", "min": "elem", "next": "elem", "sum": "elem",
}

# row-order facts used by the A5 ORDER analysis (sa/order.py); each is part of the trusted base
ORDER_FACTS = {
    "sort_values / TimedList.sorted": "result ordered by the key (ties: order of the input when kind='stable')",
    "groupby(...)": "groups are ordered by key (sort=True default); rows inside a group keep the frame's order",
    "merge(how='outer', on=k)": "result keys are the union of both sides sorted lexicographically (verified on pandas 2.3.3)",
    "concat": "rows of the parts in the order listed",
    "Series op Series": "aligned on labels, hence independent of row order (not a site)",
    "TimingMap.offsets/snaps/beats": "results in query order (C10.R1)",
}
