"""C10 — timing engine: beat positions and millisecond offsets convert consistently (DESIGN §5 C10)."""
from __future__ import annotations

import ast
from typing import Dict, List, Optional, Tuple

from ..model import AnalysisError, walk_no_nested, params_of
from .. import report as R
from ..report import RuleSpec
from .. import sym
from .. import cmp as P
from .common import unparse, call_name, local_defs, short
from . import timing_common as T

SNAP = "reamber.algorithms.timing.utils.snap.Snap"
SNAPPER = "reamber.algorithms.timing.utils.Snapper.Snapper"
BCBASE = "reamber.algorithms.timing.utils.BpmChangeBase.BpmChangeBase"


# --------------------------------------------------------------------------- A6: permutation tags
class Perm:
    """symbolic permutation of the query positions: a word over {s = argsort of the query, r = reversal, i = inverse}."""

    def __init__(self, base: str, rev: bool = False, inv: bool = False):
        self.base, self.rev, self.inv = base, rev, inv

    def __repr__(self):
        t = self.base + ("∘rev" if self.rev else "")
        return f"({t})⁻¹" if self.inv else t

    def is_inverse_of(self, o: "Perm") -> bool:
        return self.base == o.base and self.rev == o.rev and self.inv != o.inv


_LOCALS: Dict[str, ast.AST] = {}
_DESC: set = set()       # sorters that already list the positions from the largest query to the smallest (sorted(..., reverse=True))


def _index_sort(v: ast.AST) -> Optional[Tuple[str, bool]]:
    """sorted(range(len(Q)), key=Q.__getitem__ | lambda i: Q[i] [, reverse=True]) -> (Q, descending): the positions of Q in sorted order,
    i.e. Q.argsort() spelled on index lists"""
    if not (isinstance(v, ast.Call) and isinstance(v.func, ast.Name) and v.func.id == "sorted" and len(v.args) == 1):
        return None
    r = v.args[0]
    if not (isinstance(r, ast.Call) and isinstance(r.func, ast.Name) and r.func.id == "range" and len(r.args) == 1 and isinstance(r.args[0], ast.Call) and
            call_name(r.args[0]) == "len" and len(r.args[0].args) == 1 and isinstance(r.args[0].args[0], ast.Name)):
        return None
    q = r.args[0].args[0].id
    kw = {k.arg: k.value for k in v.keywords}
    if set(kw) - {"key", "reverse"} or "key" not in kw:
        return None
    k = kw["key"]
    key_ok = (isinstance(k, ast.Attribute) and k.attr == "__getitem__" and isinstance(k.value, ast.Name) and k.value.id == q) or \
        (isinstance(k, ast.Lambda) and len(k.args.args) == 1 and isinstance(k.body, ast.Subscript) and isinstance(k.body.value, ast.Name) and
         k.body.value.id == q and isinstance(k.body.slice, ast.Name) and k.body.slice.id == k.args.args[0].arg)
    if not key_ok:
        return None
    rv = kw.get("reverse")
    if rv is not None and not isinstance(rv, ast.Constant):
        return None
    return q, bool(rv.value) if rv is not None else False


def perm_of(e: ast.AST, sorters: Dict[str, str], _depth: int = 0) -> Optional[Perm]:
    """permutation denoted by an index expression: sorter, sorter[::-1], <perm>.argsort()"""
    if isinstance(e, ast.Name) and e.id in sorters:
        return Perm(e.id)
    if isinstance(e, ast.Name) and e.id in _LOCALS and _depth < 4:
        return perm_of(_LOCALS[e.id], sorters, _depth + 1)
    if isinstance(e, ast.Subscript) and isinstance(e.slice, ast.Slice) and e.slice.lower is None and e.slice.upper is None \
            and isinstance(e.slice.step, ast.UnaryOp) and isinstance(e.slice.step.operand, ast.Constant) and \
            e.slice.step.operand.value == 1 and isinstance(e.slice.step.op, ast.USub):
        p = perm_of(e.value, sorters)
        if p and not p.inv:
            return Perm(p.base, not p.rev, p.inv)
        return None
    if isinstance(e, ast.Call) and call_name(e) == "argsort" and not e.args and isinstance(e.func, ast.Attribute):
        p = perm_of(e.func.value, sorters)
        if p:
            return Perm(p.base, p.rev, not p.inv)
        return None
    return None


def loop_perm(it: ast.AST, sorters: Dict[str, str], aliases: Dict[str, ast.AST]) -> Optional[Tuple[Perm, str]]:
    """order in which a loop visits the query: q[sorter] / reversed(q[sorter]) / alias of those -> (perm, query name)"""
    if isinstance(it, ast.Name) and it.id in aliases:
        return loop_perm(aliases[it.id], sorters, aliases)
    if isinstance(it, ast.Call) and isinstance(it.func, ast.Name) and it.func.id == "reversed" and len(it.args) == 1:
        r = loop_perm(it.args[0], sorters, aliases)
        if r:
            return Perm(r[0].base, not r[0].rev, r[0].inv), r[1]
        return None
    # map(Q.__getitem__, P) / (Q[i] for i in P): Q[P] one element at a time
    if isinstance(it, ast.Call) and isinstance(it.func, ast.Name) and it.func.id == "map" and len(it.args) == 2 and \
            isinstance(it.args[0], ast.Attribute) and it.args[0].attr == "__getitem__" and isinstance(it.args[0].value, ast.Name):
        return loop_perm(ast.Subscript(value=it.args[0].value, slice=it.args[1], ctx=ast.Load()), sorters, aliases)
    if isinstance(it, (ast.GeneratorExp, ast.ListComp)) and len(it.generators) == 1 and not it.generators[0].ifs and \
            isinstance(it.generators[0].target, ast.Name) and isinstance(it.elt, ast.Subscript) and isinstance(it.elt.value, ast.Name) and \
            isinstance(it.elt.slice, ast.Name) and it.elt.slice.id == it.generators[0].target.id:
        return loop_perm(ast.Subscript(value=it.elt.value, slice=it.generators[0].iter, ctx=ast.Load()), sorters, aliases)
    # Q[P][::-1]: the reverse slice of something visited in a known order is reversed(..) of it
    if isinstance(it, ast.Subscript) and isinstance(it.slice, ast.Slice) and it.slice.lower is None and it.slice.upper is None and \
            isinstance(it.slice.step, ast.UnaryOp) and isinstance(it.slice.step.op, ast.USub) and isinstance(it.slice.step.operand, ast.Constant) and \
            it.slice.step.operand.value == 1 and isinstance(it.value, ast.Subscript):
        r = loop_perm(it.value, sorters, aliases)
        if r:
            return Perm(r[0].base, not r[0].rev, r[0].inv), r[1]
        return None
    if isinstance(it, ast.Subscript) and isinstance(it.value, ast.Name):
        p = perm_of(it.slice, sorters)
        if p and not p.inv and sorters.get(p.base) == it.value.id:
            return p, it.value.id
        # x[::-1] of an alias
        if isinstance(it.slice, ast.Slice) and it.value.id in aliases:
            p2 = perm_of(ast.Subscript(value=ast.Name(id="__a", ctx=ast.Load()), slice=it.slice, ctx=ast.Load()), {"__a": ""})
            r = loop_perm(aliases[it.value.id], sorters, aliases)
            if p2 and r:
                return Perm(r[0].base, not r[0].rev, r[0].inv), r[1]
    return None


def _u(e):
    return ast.unparse(e) if e is not None else ""


# roles of the locals the rules below talk about (sa/normal.py: with_roles)
C10_ROLES = {
    "offsets": (
        ("bcs_s", lambda n, v, st: isinstance(v, ast.Call) and call_name(v) == "bpm_changes_snap"),
        ("sorter", lambda n, v, st: isinstance(v, ast.Call) and call_name(v) == "argsort" and not v.args and isinstance(st, ast.Assign)),
        ("snap", lambda n, v, st: isinstance(st, ast.For) and isinstance(st.target, ast.Name) and st.target.id == n and "sorter" in _u(st.iter)),
        ("bc_i", lambda n, v, st: isinstance(st, ast.AugAssign) and isinstance(st.op, ast.Sub) and isinstance(v, ast.Constant) and v.value == 1),
        ("bcs", lambda n, v, st: isinstance(v, ast.Subscript) and _u(v.value) == "bcs_s"),
        ("diff_snap", lambda n, v, st: isinstance(v, ast.BinOp) and isinstance(v.op, ast.Sub) and _u(v.right).endswith(".snap")),
    ),
    "from_offset": (
        ("offset_del", lambda n, v, st: isinstance(st, ast.Assign) and isinstance(v, ast.BinOp) and isinstance(v.op, ast.Sub) and _u(v.right) == "bco.offset"),
        ("measure", lambda n, v, st: isinstance(v, ast.Call) and call_name(v) == "int" and "measure_length" in _u(v)),
        ("beat", lambda n, v, st: isinstance(v, ast.Call) and call_name(v) == "snap" and "beat_length" in _u(v)),
    ),
    "snap": (
        ("quo", lambda n, v, st: isinstance(v, ast.BinOp) and isinstance(v.op, ast.FloorDiv) and _u(v.right) == "1"),
        ("rem", lambda n, v, st: isinstance(v, ast.BinOp) and isinstance(v.op, ast.Mod) and _u(v.right) == "1"),
        ("ix", lambda n, v, st: isinstance(v, ast.Call) and call_name(v) in ("bisect_left", "bisect", "bisect_right", "searchsorted")),
        ("left_diff", lambda n, v, st: isinstance(v, ast.BinOp) and isinstance(v.op, ast.Sub) and _u(v.left) == "rem"),
        ("right_diff", lambda n, v, st: isinstance(v, ast.BinOp) and isinstance(v.op, ast.Sub) and _u(v.right) == "rem"),
    ),
}


def _rfn(ctx, q: str, **kw):
    from ..normal import with_roles
    return with_roles(ctx.M.nfn(q, **kw), C10_ROLES.get(q.rsplit(".", 1)[1], ()))



def _running_total_form(fn):
    """from_bpm_changes_snap written without a loop:
        durations = ((child.snap - parent.snap).offset(parent) for parent, child in zip(X[:-1], X[1:]))
        offsets   = accumulate(durations, initial=<initial offset>)
        changes   = [BpmChangeOffset(c.bpm, c.metronome, t) for c, t in zip(X, offsets)]
    -> dict(gen, elt, parent, child, base, acc, comp) or None; names are resolved through locals bound once"""
    def res(e):
        for _ in range(3):
            if isinstance(e, ast.Name):
                ds = [x.value for x in walk_no_nested(fn.node) if isinstance(x, ast.Assign) and len(x.targets) == 1 and
                      isinstance(x.targets[0], ast.Name) and x.targets[0].id == e.id]
                if len(ds) == 1:
                    e = ds[0]
                    continue
            break
        return e
    for comp in (n for n in ast.walk(fn.node) if isinstance(n, (ast.ListComp, ast.GeneratorExp))):
        if not (isinstance(comp.elt, ast.Call) and call_name(comp.elt) == "BpmChangeOffset" and len(comp.generators) == 1):
            continue
        g = comp.generators[0]
        if not (isinstance(g.iter, ast.Call) and call_name(g.iter) == "zip" and len(g.iter.args) == 2 and isinstance(g.target, ast.Tuple) and
                len(g.target.elts) == 2 and not g.ifs):
            continue
        base, acc = g.iter.args[0], res(g.iter.args[1])
        if isinstance(acc, ast.Call) and call_name(acc) in ("list", "tuple") and len(acc.args) == 1:
            acc = res(acc.args[0])
        if not (isinstance(acc, ast.Call) and call_name(acc) == "accumulate" and len(acc.args) == 1 and {k.arg for k in acc.keywords} == {"initial"}):
            continue
        gen = res(acc.args[0])
        if not (isinstance(gen, (ast.ListComp, ast.GeneratorExp)) and len(gen.generators) == 1 and not gen.generators[0].ifs):
            continue
        gg = gen.generators[0]
        if not (isinstance(gg.iter, ast.Call) and call_name(gg.iter) == "zip" and len(gg.iter.args) == 2 and isinstance(gg.target, ast.Tuple) and
                len(gg.target.elts) == 2 and all(isinstance(t, ast.Name) for t in gg.target.elts)):
            continue
        a0, a1 = gg.iter.args
        if not (unparse(a0) == unparse(base) + "[:-1]" and unparse(a1) == unparse(base) + "[1:]"):
            continue
        return dict(gen=gen, elt=gen.elt, parent=gg.target.elts[0].id, child=gg.target.elts[1].id, base=base, acc=acc, comp=comp,
                    cvar=unparse(g.target.elts[0]), tvar=unparse(g.target.elts[1]))
    return None



def _index_scatter(fn, rid, key, meth, file) -> Optional[List[R.Inst]]:
    """results written straight to the position of their query:
        R = [x] * len(..);  for i in <a permutation of the query's indices>: ... Q[i] ...; R[i] = <result>;  return np.array(R)
    (or R is an auxiliary array and the result is `[f(q, r) for q, r in zip(Q, R)]`): whatever order the loop visits the
    indices in, result i belongs to query i.  A cursor that only steps backwards needs the visit order to be descending."""
    params = [a.arg for a in fn.node.args.args if a.arg != "self"]
    if not params:
        return None
    Q = params[0]

    def res1(e):
        if isinstance(e, ast.Name):
            ds = [x.value for x in walk_no_nested(fn.node) if
                  (isinstance(x, ast.Assign) and len(x.targets) == 1 and isinstance(x.targets[0], ast.Name) and x.targets[0].id == e.id) or
                  (isinstance(x, ast.AnnAssign) and isinstance(x.target, ast.Name) and x.target.id == e.id and x.value is not None)]
            if len(ds) == 1:
                return ds[0]
        return e
    for lp in (n for n in walk_no_nested(fn.node) if isinstance(n, ast.For) and isinstance(n.target, ast.Name)):
        it, rev = lp.iter, False
        for _ in range(3):
            if isinstance(it, ast.Call) and isinstance(it.func, ast.Name) and it.func.id == "reversed" and len(it.args) == 1:
                it, rev = it.args[0], not rev
            elif isinstance(it, ast.Subscript) and unparse(it.slice) == "::-1":
                it, rev = it.value, not rev
            else:
                it = res1(it) if isinstance(it, ast.Name) else it
        if not (isinstance(it, ast.Call) and call_name(it) == "argsort" and not it.args and isinstance(it.func, ast.Attribute) and
                unparse(it.func.value) == Q):
            continue
        ix = lp.target.id
        stores = [n for n in ast.walk(lp) if isinstance(n, ast.Assign) and isinstance(n.targets[0], ast.Subscript) and
                  isinstance(n.targets[0].value, ast.Name) and isinstance(n.targets[0].slice, ast.Name) and n.targets[0].slice.id == ix]
        if len(stores) != 1:
            continue
        Rn = stores[0].targets[0].value.id
        init = res1(ast.Name(id=Rn, ctx=ast.Load()))
        sized = isinstance(init, ast.BinOp) and isinstance(init.op, ast.Mult) and "len(" in unparse(init)
        reads = [n for n in ast.walk(lp) if isinstance(n, ast.Subscript) and unparse(n.value) == Q and isinstance(n.ctx, ast.Load)]
        own = all(isinstance(n.slice, ast.Name) and n.slice.id == ix for n in reads) and bool(reads)
        rets = [n for n in walk_no_nested(fn.node) if isinstance(n, ast.Return) and n.value is not None]
        if len(rets) != 1 or not sized or not own:
            continue
        rv = rets[0].value
        while isinstance(rv, ast.Call) and call_name(rv) in ("array", "asarray", "list") and rv.args:
            rv = rv.args[0]
        rv = res1(rv)
        direct = isinstance(rv, ast.Name) and rv.id == Rn or unparse(rv) == unparse(init) and False
        direct = isinstance(rets[0].value, ast.Name) and rets[0].value.id == Rn or \
            (isinstance(rets[0].value, ast.Call) and call_name(rets[0].value) in ("array", "asarray", "list") and rets[0].value.args and
             isinstance(rets[0].value.args[0], ast.Name) and rets[0].value.args[0].id == Rn)
        zipped = isinstance(rv, (ast.ListComp, ast.GeneratorExp)) and len(rv.generators) == 1 and not rv.generators[0].ifs and \
            isinstance(rv.generators[0].iter, ast.Call) and call_name(rv.generators[0].iter) == "zip" and \
            [unparse(a) for a in rv.generators[0].iter.args][:1] == [Q] and Rn in [unparse(a) for a in rv.generators[0].iter.args]
        out = []
        if direct or zipped:
            out.append(R.ok(rid, key, file, stores[0].lineno,
                            idiom=f"{Rn}[i] is computed from {Q}[i]: each result sits at the position of its own query"
                            + (f"; results = comprehension over zip({Q}, {Rn})" if zipped else "")))
        else:
            out.append(R.undec(rid, key, file, rets[0].lineno, f"per-index scatter into '{Rn}', but the returned expression is not recognised"))
        # cursor discipline of the sweep inside this loop
        cur = [n for n in ast.walk(lp) if isinstance(n, ast.AugAssign) and isinstance(n.target, ast.Name)]
        decs = [c for c in cur if isinstance(c.op, ast.Sub)]
        incs = [c for c in cur if isinstance(c.op, ast.Add) and c.target.id in {d.target.id for d in decs}]
        if decs and not incs:
            k2 = f"TimingMap.{meth}:sweep"
            whiles = [w for w in ast.walk(lp) if isinstance(w, ast.While)]
            cmp_ok = any(isinstance(w.test, ast.Compare) and len(w.test.ops) == 1 and isinstance(w.test.ops[0], ast.Gt) for w in whiles)
            if rev and cmp_ok:
                out.append(R.ok(rid, k2, file, lp.lineno, idiom="indices visited from the largest query down, cursor only decrements while change > query"))
            elif not rev:
                out.append(R.viol(rid, k2, file, lp.lineno,
                                  "the tempo cursor only moves backwards, so the queries must be visited from last to first; "
                                  "they are visited in ascending order", construct=f"{meth}: ascending sweep with decrementing cursor"))
            else:
                out.append(R.viol(rid, k2, file, lp.lineno,
                                  "the cursor must step back while the tempo change lies strictly after the query "
                                  "(a query exactly on a change belongs to that change)",
                                  construct=f"{meth}: " + "; ".join(unparse(w.test) for w in whiles)))
        return out
    return None



def _direct_bisect(fn, rid, key, meth, file) -> Optional[List[R.Inst]]:
    """`for q in QUERIES: i = bisect_*(KEYS, q) - 1; ...; acc.append(..)` and `return np.array(acc)`: query order is kept by
    construction; the segment selection must put a query that EQUALS a change position into the segment that change starts
    (bisect_right - 1); bisect_left - 1 selects the previous segment there."""
    from .. import seqexpr as SE
    qparam = [a.arg for a in fn.node.args.args if a.arg != "self"]
    if not qparam:
        return None
    env = SE.Env(fn.node)
    loops = [n for n in walk_no_nested(fn.node) if isinstance(n, ast.For)]
    for lp in loops:
        alts = env.of(lp.iter)
        if not alts or len(alts) != 1:
            continue
        sq = next(iter(alts))
        if sq.base != qparam[0] or sq.filters or sq.elt != "_" or not isinstance(lp.target, ast.Name):
            continue
        apps = [c for c in ast.walk(lp) if isinstance(c, ast.Call) and call_name(c) == "append" and isinstance(c.func.value, ast.Name)]
        bis = [c for c in ast.walk(lp) if isinstance(c, ast.Call) and call_name(c) in ("bisect_left", "bisect_right", "bisect", "searchsorted")]
        if len(apps) != 1 or len(bis) != 1 or any(isinstance(x, (ast.Break, ast.Continue)) for x in ast.walk(lp)):
            continue
        acc = apps[0].func.value.id
        rets = [n for n in walk_no_nested(fn.node) if isinstance(n, ast.Return) and n.value is not None]
        if len(rets) != 1:
            continue
        rv = rets[0].value
        plain = (isinstance(rv, ast.Name) and rv.id == acc) or (isinstance(rv, ast.Call) and call_name(rv) in ("array", "asarray", "list") and
                                                               len(rv.args) >= 1 and isinstance(rv.args[0], ast.Name) and rv.args[0].id == acc)
        out = []
        if plain:
            out.append(R.ok(rid, key, file, rets[0].lineno, idiom=f"one result per query in query order (no sorting), returned as it is"))
        else:
            out.append(R.undec(rid, key, file, rets[0].lineno, f"per-query loop, but the result expression '{unparse(rv)[:60]}' is not the plain accumulator"))
        b = bis[0]
        name = call_name(b)
        side = next((k.value for k in b.keywords if k.arg == "side"), None)
        right = name in ("bisect_right", "bisect") or (name == "searchsorted" and isinstance(side, ast.Constant) and side.value == "right")
        # the selected index is <bisect> - 1 (possibly clamped)
        minus1 = any(isinstance(x, ast.BinOp) and isinstance(x.op, ast.Sub) and x.left is b and isinstance(x.right, ast.Constant) and x.right.value == 1
                     for x in ast.walk(lp))
        k2 = f"TimingMap.{meth}:sweep"
        if not minus1:
            out.append(R.undec(rid, k2, file, b.lineno, f"use of the insertion point '{unparse(b)[:60]}' not recognised (expected <bisect> - 1)"))
        elif right:
            out.append(R.ok(rid, k2, file, b.lineno, idiom="active change = bisect_right(change positions, query) - 1"))
        else:
            out.append(R.viol(rid, k2, file, b.lineno,
                              f"the active tempo change is selected with {name}(...) - 1: a query that lies exactly ON a tempo change gets the "
                              f"insertion point before it and is converted with the PREVIOUS segment's tempo (a query exactly on a change "
                              f"belongs to that change: bisect_right)", construct=f"{meth}: {name} - 1 selects the previous segment at equality"))
        return out
    return None


def _vector_bisect(fn, rid, key, meth, file) -> Optional[List[R.Inst]]:
    """`A = np.searchsorted(KEYS, QUERIES, side=..) - 1` for all queries at once, and the result `np.array([f(q, X[i], ..) for q, i in
    zip(QUERIES, A)])`: one result per query in query order by construction; the side decides which segment a query exactly on a
    change falls into, as in the per-query form"""
    qparam = [a.arg for a in fn.node.args.args if a.arg != "self"]
    if not qparam:
        return None
    q = qparam[0]
    cand = None
    for n in walk_no_nested(fn.node):
        if isinstance(n, ast.Assign) and len(n.targets) == 1 and isinstance(n.targets[0], ast.Name) and isinstance(n.value, ast.BinOp) and \
                isinstance(n.value.op, ast.Sub) and isinstance(n.value.right, ast.Constant) and n.value.right.value == 1 and \
                isinstance(n.value.left, ast.Call) and call_name(n.value.left) == "searchsorted" and len(n.value.left.args) >= 2 and \
                unparse(n.value.left.args[1]) == q:
            cand = (n.targets[0].id, n.value.left, n)
    if cand is None:
        return None
    a, b, node = cand
    rets = [n for n in walk_no_nested(fn.node) if isinstance(n, ast.Return) and n.value is not None]
    if len(rets) != 1:
        return None
    rv = rets[0].value
    while isinstance(rv, ast.Call) and call_name(rv) in ("array", "asarray", "list") and rv.args:
        rv = rv.args[0]
    out = []
    ok_order = isinstance(rv, (ast.ListComp, ast.GeneratorExp)) and len(rv.generators) == 1 and not rv.generators[0].ifs and \
        isinstance(rv.generators[0].iter, ast.Call) and call_name(rv.generators[0].iter) == "zip" and \
        sorted(unparse(x) for x in rv.generators[0].iter.args) == sorted([q, a])
    if ok_order:
        out.append(R.ok(rid, key, file, rets[0].lineno, idiom="one result per query in query order (all queries bisected at once, no sorting)"))
    else:
        out.append(R.undec(rid, key, file, rets[0].lineno, f"vectorised bisection, but the result '{unparse(rets[0].value)[:60]}' is not built per (query, index) pair in query order"))
    side = next((k.value for k in b.keywords if k.arg == "side"), None)
    right = isinstance(side, ast.Constant) and side.value == "right"
    k2 = f"TimingMap.{meth}:sweep"
    if right:
        out.append(R.ok(rid, k2, file, b.lineno, idiom="active change = searchsorted(change positions, queries, right) - 1"))
    else:
        out.append(R.viol(rid, k2, file, b.lineno,
                          "the active tempo change is selected with searchsorted(.., side='left') - 1: a query that lies exactly ON a tempo change "
                          "is converted with the PREVIOUS segment's tempo (a query exactly on a change belongs to that change: side='right')",
                          construct=f"{meth}: searchsorted left - 1 selects the previous segment at equality"))
    return out


def rule_r1(ctx) -> List[R.Inst]:
    M = ctx.M
    rid = "C10.R1"
    insts = []
    for meth in ("offsets", "snaps", "beats"):
        q = f"{T.TIMINGMAP}.{meth}"
        fn = M.nfn(q, subst="alias")
        file = M.mods[fn.mod].rel
        key = f"TimingMap.{meth}"
        sorters: Dict[str, str] = {}       # sorter var -> array it sorts
        aliases: Dict[str, ast.AST] = {}
        _LOCALS.clear()
        _DESC.clear()
        for n in walk_no_nested(fn.node):
            if isinstance(n, ast.Assign) and isinstance(n.targets[0], ast.Name) and len(local_defs(fn.node, n.targets[0].id)) == 1:
                _LOCALS[n.targets[0].id] = n.value
        for n in walk_no_nested(fn.node):
            if isinstance(n, ast.Assign) and isinstance(n.targets[0], ast.Name):
                v = n.value
                if isinstance(v, ast.Call) and call_name(v) == "argsort" and not v.args and not v.keywords and \
                        isinstance(v.func.value, ast.Name):
                    sorters[n.targets[0].id] = v.func.value.id
                ixs = _index_sort(v)
                if ixs is not None:
                    sorters[n.targets[0].id] = ixs[0]
                    if ixs[1]:
                        _DESC.add(n.targets[0].id)
        for n in walk_no_nested(fn.node):
            if isinstance(n, ast.Assign) and isinstance(n.targets[0], ast.Name) and isinstance(n.value, ast.Subscript) and \
                    isinstance(n.value.value, ast.Name) and perm_of(n.value.slice, sorters):
                aliases[n.targets[0].id] = n.value
        # the accumulator: a list appended once per iteration of a loop over the permuted query
        loops = [n for n in walk_no_nested(fn.node) if isinstance(n, ast.For)]
        acc = None
        for lp in loops:
            apps = [c for c in ast.walk(lp) if isinstance(c, ast.Call) and call_name(c) == "append" and isinstance(c.func.value, ast.Name)]
            lpm = loop_perm(lp.iter, sorters, aliases)
            zipped = None
            if lpm is None and isinstance(lp.iter, ast.Call) and call_name(lp.iter) == "zip" and len(lp.iter.args) == 2:
                # zip(x[:-1], x[1:]) over the sorted alias: visits x in its own order, one append per step + one seed element
                a0, a1 = lp.iter.args
                if isinstance(a0, ast.Subscript) and isinstance(a1, ast.Subscript) and unparse(a0.value) == unparse(a1.value) and \
                        unparse(a0.slice) == ":-1" and unparse(a1.slice) == "1:" and isinstance(a0.value, ast.Name):
                    lpm = loop_perm(a0.value, sorters, aliases)
                    zipped = a0.value.id
            if lpm and len(apps) == 1:
                acc = (apps[0].func.value.id, lpm[0], lpm[1], lp, zipped)
        if acc is not None and acc[4] is not None:
            # pairwise differences collected by the loop and summed up afterwards: X = list(accumulate(<acc>, initial=seed))
            for n in walk_no_nested(fn.node):
                if isinstance(n, ast.Assign) and isinstance(n.targets[0], ast.Name):
                    v = n.value
                    while isinstance(v, ast.Call) and call_name(v) in ("list", "tuple") and len(v.args) == 1:
                        v = v.args[0]
                    if isinstance(v, ast.Call) and call_name(v) == "accumulate" and len(v.args) == 1 and isinstance(v.args[0], ast.Name) and \
                            v.args[0].id == acc[0] and {k.arg for k in v.keywords} == {"initial"}:
                        acc = (n.targets[0].id, acc[1], acc[2], acc[3], None)
        if acc is None:
            # running-sum form: acc = list(accumulate([f(prev, curr) for prev, curr in zip(x[:-1], x[1:])], initial=seed)):
            # one result per element of x, in x's order (the seed stands for x[0])
            for n in walk_no_nested(fn.node):
                if not (isinstance(n, ast.Assign) and isinstance(n.targets[0], ast.Name)):
                    continue
                v = n.value
                while isinstance(v, ast.Call) and call_name(v) in ("list", "tuple") and len(v.args) == 1:
                    v = v.args[0]
                if isinstance(v, ast.Call) and call_name(v) == "accumulate" and len(v.args) == 1 and \
                        {k.arg for k in v.keywords} == {"initial"}:
                    src = v.args[0]
                    if isinstance(src, ast.Name) and src.id in _LOCALS:
                        src = _LOCALS[src.id]
                    # one element per consecutive pair of x: a comprehension over zip(x[:-1], x[1:]) (or zip(x, x[1:]): zip stops at the
                    # shortest), starmap(f, <that zip>), or a local generator whose body is one loop over that zip with one yield
                    it = None
                    if isinstance(src, (ast.ListComp, ast.GeneratorExp)) and len(src.generators) == 1 and not src.generators[0].ifs:
                        it = src.generators[0].iter
                    elif isinstance(src, ast.Call) and call_name(src) == "starmap" and len(src.args) == 2:
                        it = src.args[1]
                    elif isinstance(src, ast.Call) and isinstance(src.func, ast.Name) and not src.args:
                        gdef = [d_ for d_ in fn.node.body if isinstance(d_, ast.FunctionDef) and d_.name == src.func.id]
                        if len(gdef) == 1:
                            gb = [x for x in gdef[0].body if not (isinstance(x, ast.Expr) and isinstance(x.value, ast.Constant))]
                            ys = [x for x in ast.walk(gdef[0]) if isinstance(x, (ast.Yield, ast.YieldFrom))]
                            if len(gb) == 1 and isinstance(gb[0], ast.For) and len(ys) == 1 and isinstance(ys[0], ast.Yield) and \
                                    not any(isinstance(x, (ast.If, ast.Continue, ast.Break)) for x in ast.walk(gb[0])):
                                it = gb[0].iter
                    if isinstance(it, ast.Call) and call_name(it) == "zip" and len(it.args) == 2:
                        a0, a1 = it.args
                        x0 = a0.value if isinstance(a0, ast.Subscript) and unparse(a0.slice) == ":-1" else a0
                        if isinstance(a1, ast.Subscript) and unparse(x0) == unparse(a1.value) and unparse(a1.slice) == "1:" and isinstance(x0, ast.Name):
                            lpm = loop_perm(x0, sorters, aliases)
                            if lpm:
                                acc = (n.targets[0].id, lpm[0], lpm[1], src, None)
        rets = [n for n in walk_no_nested(fn.node) if isinstance(n, ast.Return) and n.value is not None]
        # scatter form: U = np.empty_like(A); U[P] = A; return U   ==   return A[P⁻¹]  (P a permutation)
        for r_ in rets:
            if isinstance(r_.value, ast.Name):
                u = r_.value.id
                mk = [n for n in walk_no_nested(fn.node) if isinstance(n, ast.Assign) and isinstance(n.targets[0], ast.Name) and n.targets[0].id == u]
                sc = [n for n in walk_no_nested(fn.node) if isinstance(n, ast.Assign) and isinstance(n.targets[0], ast.Subscript) and
                      isinstance(n.targets[0].value, ast.Name) and n.targets[0].value.id == u]
                if len(mk) == 1 and len(sc) == 1 and isinstance(mk[0].value, ast.Call) and call_name(mk[0].value) in (
                        "empty_like", "empty", "zeros_like", "zeros", "full_like"):
                    inv = ast.Call(func=ast.Attribute(value=sc[0].targets[0].slice, attr="argsort", ctx=ast.Load()), args=[], keywords=[])
                    gather = ast.Subscript(value=sc[0].value, slice=inv, ctx=ast.Load())
                    r_.value = ast.copy_location(ast.fix_missing_locations(ast.copy_location(gather, r_.value)), r_.value)
        main = [r for r in rets if isinstance(r.value, ast.Subscript)]
        if acc is None or len(main) != 1:
            # second structure: no sorting at all — one result per query, in query order, the active change found by bisection
            direct = _direct_bisect(fn, rid, key, meth, file) or _index_scatter(fn, rid, key, meth, file) or _vector_bisect(fn, rid, key, meth, file)
            if direct is not None:
                insts.extend(direct)
                continue
            insts.append(R.undec(rid, key, file, fn.node.lineno, "sort / compute / unsort structure not recognised"))
            continue
        name, p, query, lp, zipped = acc
        rv = main[0].value
        base = rv.value
        for _ in range(3):          # a local bound once to an expression over the accumulator (np.array(acc)) stands for it
            if isinstance(base, ast.Name) and base.id != name and base.id in _LOCALS:
                base = _LOCALS[base.id]
        holds_acc = any(isinstance(x, ast.Name) and x.id == name for x in ast.walk(base))
        ip = perm_of(rv.slice, sorters)
        if zipped is not None:
            # seed element appended before the loop: list initialised with one element
            seed = [x for x in local_defs(fn.node, name) if isinstance(x, ast.List) and len(x.elts) == 1]
            if not seed:
                insts.append(R.viol(rid, key, file, lp.lineno,
                                    "consecutive-pair loop yields n-1 results for n queries and no seed element is present",
                                    construct=f"{meth}: pairs without seed"))
                continue
        if holds_acc and ip is None and not isinstance(rv.slice, (ast.Slice, ast.Constant)):
            insts.append(R.undec(rid, key, file, main[0].lineno, f"re-indexing expression '{unparse(rv.slice)}' not recognised"))
        elif not holds_acc or ip is None:
            insts.append(R.viol(rid, key, file, main[0].lineno,
                                f"results are computed in the order {p} of the queries but returned as '{unparse(rv)}', which does "
                                f"not undo that order", construct=f"{meth}: loop {p}, return {unparse(rv.slice)}"))
        elif ip.is_inverse_of(p):
            insts.append(R.ok(rid, key, file, main[0].lineno, idiom=f"loop visits {query}[{p}], result indexed by {ip}: identity"))
        else:
            insts.append(R.viol(rid, key, file, main[0].lineno,
                                f"results are computed in the order {p} of the queries but re-indexed by {ip}: the i-th result does "
                                f"not belong to the i-th query", construct=f"{meth}: loop {p}, return {ip}"))
        # a cursor that only decrements requires a descending sweep
        cur = [n for n in ast.walk(lp) if isinstance(n, ast.AugAssign) and isinstance(n.target, ast.Name)]
        decs = [c for c in cur if isinstance(c.op, ast.Sub)]
        incs = [c for c in cur if isinstance(c.op, ast.Add) and c.target.id in {d.target.id for d in decs}]
        if decs and not incs:
            k2 = f"TimingMap.{meth}:sweep"
            whiles = [w for w in ast.walk(lp) if isinstance(w, ast.While)]
            cmp_ok = None
            for w in whiles:
                if isinstance(w.test, ast.Compare) and len(w.test.ops) == 1:
                    # while <change>[cursor].pos > query: cursor -= 1
                    cmp_ok = isinstance(w.test.ops[0], ast.Gt)
            descending = p.rev != (p.base in _DESC)
            if descending and not p.inv and cmp_ok:
                insts.append(R.ok(rid, k2, file, lp.lineno, idiom="descending sweep, cursor only decrements while change > query"))
            elif not descending:
                insts.append(R.viol(rid, k2, file, lp.lineno,
                                    "the tempo cursor only moves backwards, so the queries must be visited from last to first; "
                                    "they are visited in ascending order", construct=f"{meth}: ascending sweep with decrementing cursor"))
            else:
                insts.append(R.viol(rid, k2, file, lp.lineno,
                                    "the cursor must step back while the tempo change lies strictly after the query "
                                    "(a query exactly on a change belongs to that change)",
                                    construct=f"{meth}: " + "; ".join(unparse(w.test) for w in whiles)))
    return insts


# --------------------------------------------------------------------------- R2
def ordered_stmts_(body):
    from .common import ordered_stmts
    return ordered_stmts(body)


def rule_r2(ctx) -> List[R.Inst]:
    M = ctx.M
    rid = "C10.R2"
    insts = []
    # position-keyed chain: the only sort before the consecutive pairing is from_bpm_changes_snap's own
    fn = M.nfn(T.FROM_SNAP)
    file = M.mods[fn.mod].rel
    good, why = T.callee_sorts_param(ctx, T.FROM_SNAP, "bcs_s", "snap")
    insts.append(R.ok(rid, "position-chain", file, fn.node.lineno, idiom=why) if good else
                 R.viol(rid, "position-chain", file, fn.node.lineno,
                        f"{why}: consecutive tempo changes are integrated pairwise, so the caller's order leaks into every time",
                        construct=f"from_bpm_changes_snap: {why}"))
    # time-keyed chain: TimingMap's list is sorted either at construction (from_bpm_changes_offset) or, in place, at first
    # use (bpm_changes_offset_to_snap sorts the very list the map holds); one of the two suffices
    g1, w1 = T.callee_sorts_param(ctx, T.FROM_OFFSET, "bco_s", "offset")
    g2, w2 = T.callee_sorts_param(ctx, T.OFFSET_TO_SNAP, "bco_s", "offset")
    f2 = M.fn(T.OFFSET_TO_SNAP)
    srt2 = T.first_sort_of(f2.node, "bco_s")
    in_place2 = g2 and srt2 is not None and call_name(srt2[1]) == "sort"
    fo = M.fn(T.FROM_OFFSET)
    file = M.mods[fo.mod].rel
    # the dataclass constructor is public (TimingMap(bpm_changes_offset=[..]) in any order), and the queries read the map's OWN list
    # by position next to the derived position list: construction-time sorting covers only maps built through the helper, so the
    # in-place sort at first use (or a sort in __post_init__) is what the directly-built map relies on
    post = M.method(T.TIMINGMAP, "__post_init__")
    post_sorts = post is not None and any(isinstance(x, ast.Call) and call_name(x) in ("sort", "sorted") and "bpm_changes_offset" in unparse(x)
                                          for x in ast.walk(M.fn(post).node))
    reads_own = [x for meth in ("offsets", "snaps") for x in ast.walk(M.nfn(f"{T.TIMINGMAP}.{meth}").node)
                 if isinstance(x, ast.Subscript) and unparse(x.value) in ("self.bpm_changes_offset", "bco_s") and not isinstance(x.slice, ast.Slice)]
    if g1 and g2 and not in_place2 and not post_sorts and reads_own:
        insts.append(R.viol(rid, "time-chain", M.mods[f2.mod].rel, (srt2[1] if srt2 else f2.node).lineno,
                            f"bpm_changes_offset_to_snap derives the position list from a sorted COPY of the tempo list ({w2}), while the queries "
                            f"read the map's own list by the same index ('{unparse(reads_own[0])}'): a TimingMap built directly from a list that is "
                            f"not in time order (the dataclass constructor sorts nothing), or one whose list is appended to afterwards, pairs "
                            f"the i-th position with another change's time — every conversion is wrong",
                            construct="time-keyed tempo list sorted on a copy; the map's own list keeps the caller's order"))
    elif g1 or in_place2:
        insts.append(R.ok(rid, "time-chain", file, fo.node.lineno,
                          idiom=("sorted at construction" if g1 else "") + (" / " if g1 and in_place2 else "") +
                                ("sorted in place at first use" if in_place2 else "")))
    else:
        insts.append(R.viol(rid, "time-chain", file, fo.node.lineno,
                            f"the time-keyed tempo list is sorted neither at construction ({w1}) nor in place before the positional "
                            f"sweeps ({w2}{'' if not g2 else ', but on a copy: the map keeps its unsorted list'})",
                            construct="time-keyed tempo list never sorted in place"))
    # contradiction: bpm_changes_offset_to_snap sorts the list it is given, so it believes the list may be unsorted (a TimingMap
    # can be built directly from a list in any order); reading an element by position BEFORE that sort contradicts the belief
    if srt2 is not None and not g2 and "positionally" in w2:
        insts.append(R.viol(rid, "time-chain:use-before-sort", M.mods[f2.mod].rel, f2.node.lineno,
                            f"{w2}: the function sorts 'bco_s' itself, so callers may pass it unsorted (TimingMap(bpm_changes_offset=[..])); "
                            f"the element read before the sort is then not the earliest change, and every position derived from it is wrong",
                            construct=f"bpm_changes_offset_to_snap: {w2}"))
    elif srt2 is not None:
        insts.append(R.ok(rid, "time-chain:use-before-sort", M.mods[f2.mod].rel, f2.node.lineno, idiom="no positional read of the list before its own sort"))
    # the queries pair the time list with the position list index by index; the time list is put in order IN PLACE by
    # bpm_changes_snap() at first use, so a COPY of it taken before that call keeps the caller's order and pairs wrongly
    for meth in ("offsets", "snaps", "beats"):
        fq = M.fn(f"{T.TIMINGMAP}.{meth}")
        body = ordered_stmts_(fq.node.body)
        first_sort = next((st_ for st_ in body if any(isinstance(x, ast.Call) and call_name(x) == "bpm_changes_snap" for x in ast.walk(st_))), None)
        stale = []
        for st_ in body:
            if isinstance(st_, ast.Assign) and len(st_.targets) == 1 and isinstance(st_.targets[0], ast.Name) and \
                    (first_sort is None or st_.lineno < first_sort.lineno):
                v = st_.value
                copies = (isinstance(v, ast.Call) and call_name(v) in ("list", "tuple", "copy", "deepcopy", "array", "asarray") and
                          "self.bpm_changes_offset" in unparse(v)) or \
                    (isinstance(v, ast.Subscript) and isinstance(v.slice, ast.Slice) and unparse(v.value) == "self.bpm_changes_offset") or \
                    (isinstance(v, (ast.List, ast.ListComp)) and "self.bpm_changes_offset" in unparse(v))
                if copies and any(isinstance(x, ast.Name) and x.id == st_.targets[0].id and isinstance(x.ctx, ast.Load)
                                  for s2 in body if s2.lineno > st_.lineno for x in ast.walk(s2)):
                    stale.append(st_)
        keyq = f"time-chain:{meth}"
        fqf = M.mods[fq.mod].rel
        if stale:
            insts.append(R.viol(rid, keyq, fqf, stale[0].lineno,
                                f"'{unparse(stale[0])}' copies the time-keyed tempo list BEFORE bpm_changes_snap() has sorted it in place: the copy "
                                f"keeps the caller's order and is then paired index by index with the sorted position list (a map built from an "
                                f"unsorted list answers with another change's tempo on its first query)",
                                construct=f"{meth}: copy of the tempo list taken before it is sorted"))
        else:
            insts.append(R.ok(rid, keyq, fqf, fq.node.lineno, idiom="the tempo list is read after (or through an alias of) the list that is sorted in place"))
    for q, w, g in ((T.RESEAT, None, None),):
        gg, ww = T.callee_sorts_param(ctx, q, "bcs_s", "snap")
        if not gg:
            fq = M.fn(q)
            insts.append(R.adv(rid, "reseat-direct-call", M.mods[fq.mod].rel, fq.node.lineno,
                               f"{ww}; only the direct public call TimingMap.reseat_bpm_changes_snap depends on it"))
    return insts


# --------------------------------------------------------------------------- R3
def rule_r3(ctx) -> List[R.Inst]:
    M = ctx.M
    rid = "C10.R3"
    cls = M.cls(SNAP)
    file = M.mods[cls.mod].rel
    lt = M.fn(SNAP + ".__lt__")
    eq = M.fn(SNAP + ".__eq__")
    insts = []
    # evaluate both predicates over the 9 sign patterns of (measure, beat) comparison

    def ev(e, sm, sb, other):
        """sm, sb in {-1,0,1}: sign of self.x - other.x"""
        if isinstance(e, ast.BoolOp):
            vals = [ev(v, sm, sb, other) for v in e.values]
            if None in vals:
                return None
            return all(vals) if isinstance(e.op, ast.And) else any(vals)
        if isinstance(e, ast.UnaryOp) and isinstance(e.op, ast.Not):
            v = ev(e.operand, sm, sb, other)
            return None if v is None else not v
        if isinstance(e, ast.Compare) and len(e.ops) == 1:
            l, r = unparse(e.left), unparse(e.comparators[0])
            for fld, s in (("measure", sm), ("beat", sb)):
                if l == f"self.{fld}" and r == f"{other}.{fld}":
                    sign = s
                elif r == f"self.{fld}" and l == f"{other}.{fld}":
                    sign = -s
                else:
                    continue
                op = type(e.ops[0])
                return {ast.Lt: sign < 0, ast.LtE: sign <= 0, ast.Gt: sign > 0, ast.GtE: sign >= 0, ast.Eq: sign == 0,
                        ast.NotEq: sign != 0}.get(op)
        return None
    for fn, name, spec in ((lt, "__lt__", lambda sm, sb: sm < 0 or (sm == 0 and sb < 0)),
                           (eq, "__eq__", lambda sm, sb: sm == 0 and sb == 0)):
        rets = [n for n in walk_no_nested(fn.node) if isinstance(n, ast.Return)]
        other = [p for p in params_of(fn.node) if p != "self"][0]
        if len(rets) != 1:
            insts.append(R.undec(rid, f"Snap.{name}", file, fn.node.lineno, "single return expression expected"))
            continue
        bad = []
        und = False
        for sm in (-1, 0, 1):
            for sb in (-1, 0, 1):
                v = ev(rets[0].value, sm, sb, other)
                if v is None:
                    und = True
                elif v != spec(sm, sb):
                    bad.append((sm, sb))
        if und:
            insts.append(R.undec(rid, f"Snap.{name}", file, rets[0].lineno, "predicate uses something other than field comparisons"))
        elif bad:
            insts.append(R.viol(rid, f"Snap.{name}", file, rets[0].lineno,
                                f"not the lexicographic order on (measure, beat): wrong for sign patterns {bad} of (measure, beat) "
                                f"differences", construct=unparse(rets[0].value)))
        else:
            insts.append(R.ok(rid, f"Snap.{name}", file, rets[0].lineno, idiom="truth table over the 9 sign patterns = lexicographic order"))
    decos = [unparse(d) for d in cls.node.decorator_list]
    insts.append(R.ok(rid, "Snap.total_ordering", file, cls.node.lineno, idiom="@total_ordering derives the other comparisons")
                 if any("total_ordering" in d for d in decos) else
                 R.viol(rid, "Snap.total_ordering", file, cls.node.lineno,
                        "without @total_ordering '>', '<=', '>=' are not defined: the tempo sweeps compare with '>'",
                        construct="Snap lacks total_ordering"))
    return insts


# --------------------------------------------------------------------------- R4
def _ret_expr(fn) -> Optional[ast.AST]:
    r = [n for n in walk_no_nested(fn.node) if isinstance(n, ast.Return) and n.value is not None]
    return r[0].value if len(r) == 1 else None


def rule_r4(ctx) -> List[R.Inst]:
    """shapes of the integration: beat length, measure length, snap offset, segment steps"""
    M = ctx.M
    rid = "C10.R4"
    insts = []

    def check(key, file, node, expr, spec, leaf, msg):
        if expr is None:
            insts.append(R.undec(rid, key, file, node.lineno, "expression not found"))
            return
        r = sym.canon(expr, leaf)
        sp = sym.parse(spec)
        if r.same(sp):
            insts.append(R.ok(rid, key, file, expr.lineno, idiom=spec))
        elif r.symbols() <= sp.symbols():
            insts.append(R.viol(rid, key, file, expr.lineno, msg, construct=unparse(expr)))
        else:
            extra = sorted(r.symbols() - sp.symbols())
            # a clamp / rounding / truncation wrapped around a quantity of the formula changes its value on part of the
            # domain: that is a different formula, not an unknown one
            lossy = [x for x in extra if x.split("(")[0] in ("max", "min", "round", "int", "abs", "floor", "ceil", "trunc", "clip",
                                                             "FloorDiv", "Mod")]
            if lossy and len(lossy) == len(extra):
                insts.append(R.viol(rid, key, file, expr.lineno,
                                    f"{msg}; the expression passes a quantity through {lossy[0]}, which changes it on part of the domain",
                                    construct=unparse(expr)))
            else:
                insts.append(R.undec(rid, key, file, expr.lineno, f"not in modelled arithmetic: {extra}"))

    def attr_leaf(mapping):
        def leaf(n):
            return mapping.get(unparse(n))
        return leaf
    bl = M.fn(BCBASE + ".beat_length")
    ml = M.fn(BCBASE + ".measure_length")
    f = M.mods[bl.mod].rel
    mm = None
    try:
        mm = M.class_const("reamber.base.RAConst.RAConst", "MIN_TO_MSEC")
    except AnalysisError:
        pass
    check("beat_length", f, bl.node, _ret_expr(bl), "K / bpm", attr_leaf({"RAConst.MIN_TO_MSEC": "K", "self.bpm": "bpm"}),
          "a beat lasts (ms per minute) / bpm")
    if mm != 60000:
        insts.append(R.viol(rid, "MIN_TO_MSEC", "reamber/base/RAConst.py", 0, f"a minute is 60000 ms, not {mm}", construct=f"MIN_TO_MSEC={mm}"))
    else:
        insts.append(R.ok(rid, "MIN_TO_MSEC", "reamber/base/RAConst.py", 0, idiom="60000"))
    check("measure_length", f, ml.node, _ret_expr(ml), "beat * metronome",
          attr_leaf({"self.beat_length": "beat", "self.metronome": "metronome"}), "a measure lasts beat length * beats per measure")
    so = M.fn(SNAP + ".offset")
    p = [x for x in params_of(so.node) if x != "self"][0]
    check("Snap.offset", M.mods[so.mod].rel, so.node, _ret_expr(so), "ML * measure + BL * beat",
          attr_leaf({f"{p}.measure_length": "ML", f"{p}.beat_length": "BL", "self.measure": "measure", "self.beat": "beat"}),
          "elapsed time of a position difference = measures * measure length + beats * beat length")
    # Snap.__sub__ / __add__ component-wise
    for name, op in (("__sub__", "-"), ("__add__", "+")):
        fn = M.fn(f"{SNAP}.{name}")
        e = _ret_expr(fn)
        o = [x for x in params_of(fn.node) if x != "self"][0]
        key = f"Snap.{name}"
        ff = M.mods[fn.mod].rel
        if isinstance(e, ast.Call) and call_name(e) == "Snap" and len(e.args) >= 2:
            ok_ = True
            for arg, fld in zip(e.args[:2], ("measure", "beat")):
                lf = attr_leaf({f"self.{fld}": "a", f"{o}.{fld}": "b"})
                if not sym.canon(arg, lf).same(sym.parse(f"a {op} b")):
                    ok_ = False
            insts.append(R.ok(rid, key, ff, e.lineno, idiom=f"component-wise self {op} other") if ok_ else
                         R.viol(rid, key, ff, e.lineno, f"position arithmetic must be component-wise self {op} other", construct=unparse(e)))
        else:
            insts.append(R.undec(rid, key, ff, fn.node.lineno, "Snap(...) return not found"))
    # from_bpm_changes_snap: offset += (child.snap - parent.snap).offset(parent)
    fs = M.nfn(T.FROM_SNAP)
    ff = M.mods[fs.mod].rel
    loops = [n for n in walk_no_nested(fs.node) if isinstance(n, ast.For) and isinstance(n.iter, ast.Call) and call_name(n.iter) == "zip"]
    done = False
    for lp in loops:
        a0, a1 = lp.iter.args[:2]
        if isinstance(lp.target, ast.Tuple) and len(lp.target.elts) == 2 and unparse(a0).endswith("[:-1]") and unparse(a1).endswith("[1:]"):
            parent, child = (t.id for t in lp.target.elts)
            diff = [n for n in ast.walk(lp) if isinstance(n, ast.Assign) and isinstance(n.value, ast.BinOp) and
                    isinstance(n.value.op, ast.Sub) and unparse(n.value.left) == f"{child}.snap" and unparse(n.value.right) == f"{parent}.snap"]
            step = [n for n in ast.walk(lp) if isinstance(n, ast.AugAssign) and isinstance(n.op, ast.Add) and
                    isinstance(n.value, ast.Call) and call_name(n.value) == "offset"]
            done = True
            inline_diff = len(step) == 1 and not diff and isinstance(step[0].value.func, ast.Attribute) and isinstance(step[0].value.func.value, ast.BinOp) and \
                isinstance(step[0].value.func.value.op, ast.Sub) and unparse(step[0].value.func.value.left) == f"{child}.snap" and \
                unparse(step[0].value.func.value.right) == f"{parent}.snap"
            if len(step) == 1 and step[0].value.args and unparse(step[0].value.args[0]) == parent and \
                    (inline_diff or (len(diff) == 1 and unparse(step[0].value.func.value) == unparse(diff[0].targets[0]))):
                insts.append(R.ok(rid, "from_bpm_changes_snap:segment", ff, step[0].lineno,
                                  idiom="offset += (child.snap - parent.snap).offset(parent): each segment at its own tempo"))
                app = [c for c in ast.walk(lp) if isinstance(c, ast.Call) and call_name(c) == "BpmChangeOffset"]
                if app and [unparse(a) for a in app[0].args] == [f"{child}.bpm", f"{child}.metronome", unparse(step[0].target)]:
                    insts.append(R.ok(rid, "from_bpm_changes_snap:change", ff, app[0].lineno, idiom="change = (child bpm, child metronome, accumulated offset)"))
                else:
                    insts.append(R.viol(rid, "from_bpm_changes_snap:change", ff, lp.lineno,
                                        "each tempo change must carry its own bpm and metronome at the accumulated time",
                                        construct=unparse(app[0]) if app else "no BpmChangeOffset"))
                # the running time starts at the caller's initial offset itself (no rounding / truncation on the way in)
                acc = unparse(step[0].target)
                ip = next((p_ for p_ in params_of(fs.node) if "offset" in p_), None)
                inits_ = [n for n in fs.node.body if isinstance(n, ast.Assign) and len(n.targets) == 1 and unparse(n.targets[0]) == acc and n.lineno < lp.lineno]
                if ip is None or len(inits_) != 1:
                    insts.append(R.undec(rid, "from_bpm_changes_snap:start", ff, lp.lineno, f"initial value of the running time '{acc}' not found"))
                elif unparse(inits_[0].value) == ip:
                    insts.append(R.ok(rid, "from_bpm_changes_snap:start", ff, inits_[0].lineno, idiom=f"{acc} = {ip}: the first change is at the given time"))
                else:
                    insts.append(R.viol(rid, "from_bpm_changes_snap:start", ff, inits_[0].lineno,
                                        f"the running time starts at '{unparse(inits_[0].value)}', not at the caller's '{ip}': every time the map "
                                        f"returns is shifted by the difference", construct=f"{acc} = {unparse(inits_[0].value)}"))
            else:
                insts.append(R.viol(rid, "from_bpm_changes_snap:segment", ff, lp.lineno,
                                    "the time between two changes is the position difference integrated at the EARLIER change's tempo",
                                    construct="; ".join(unparse(x) for x in diff + step)))
    if not done:
        rt = _running_total_form(fs)
        if rt is not None:
            e = rt["elt"]
            seg_ok = isinstance(e, ast.Call) and call_name(e) == "offset" and isinstance(e.func.value, ast.BinOp) and \
                isinstance(e.func.value.op, ast.Sub) and unparse(e.func.value.left) == f"{rt['child']}.snap" and \
                unparse(e.func.value.right) == f"{rt['parent']}.snap" and len(e.args) == 1 and unparse(e.args[0]) == rt["parent"]
            insts.append(R.ok(rid, "from_bpm_changes_snap:segment", ff, e.lineno,
                              idiom="running total of (child.snap - parent.snap).offset(parent): each segment at its own tempo") if seg_ok else
                         R.viol(rid, "from_bpm_changes_snap:segment", ff, e.lineno,
                                "the time between two changes is the position difference integrated at the EARLIER change's tempo",
                                construct=unparse(e)[:160]))
            app = rt["comp"].elt
            ch_ok = [unparse(a) for a in app.args] == [f"{rt['cvar']}.bpm", f"{rt['cvar']}.metronome", rt["tvar"]] and not app.keywords
            insts.append(R.ok(rid, "from_bpm_changes_snap:change", ff, app.lineno, idiom="change = (own bpm, own metronome, its running total)") if ch_ok else
                         R.viol(rid, "from_bpm_changes_snap:change", ff, app.lineno,
                                "each tempo change must carry its own bpm and metronome at the accumulated time", construct=unparse(app)[:160]))
            done = True
    if not done:
        insts.append(R.undec(rid, "from_bpm_changes_snap:segment", ff, fs.node.lineno, "consecutive-pair loop not found"))
    # TimingMap.offsets: change[i].offset + (snap - change_snap[i].snap).offset(change_snap[i]) with one index
    fo = _rfn(ctx, T.TIMINGMAP + ".offsets", subst="alias")
    ff = M.mods[fo.mod].rel
    # (the expression is looked for wherever it is computed — appended, stored at an index, element of a comprehension — and read
    # with the locals it mentions resolved: diff_snap, bcs, an alias of self.bpm_changes_offset)
    import copy as _copy

    def _res(e, depth=0):
        class T(ast.NodeTransformer):
            def visit_Name(self, n):
                if not isinstance(n.ctx, ast.Load) or depth > 3:
                    return n
                ds = [x.value for x in ast.walk(fo.node) if isinstance(x, ast.Assign) and len(x.targets) == 1 and
                      isinstance(x.targets[0], ast.Name) and x.targets[0].id == n.id]
                if len(ds) == 1 and isinstance(ds[0], (ast.BinOp, ast.Subscript, ast.Attribute, ast.Call)) and not (
                        isinstance(ds[0], ast.Call) and call_name(ds[0]) not in ("bpm_changes_snap",)):
                    return _res(ds[0], depth + 1)
                return n
        return T().visit(_copy.deepcopy(e))
    cands = [n for n in ast.walk(fo.node) if isinstance(n, ast.BinOp) and isinstance(n.op, ast.Add) and
             any(isinstance(x, ast.Call) and call_name(x) == "offset" for x in (n.left, n.right)) and
             any(isinstance(x, ast.Attribute) and x.attr == "offset" for x in (n.left, n.right))]
    if len(cands) == 1:
        e = cands[0]
        r = _res(e)
        att, call = (r.left, r.right) if isinstance(r.left, ast.Attribute) else (r.right, r.left)
        good = False
        if isinstance(att, ast.Attribute) and isinstance(att.value, ast.Subscript) and isinstance(call, ast.Call) and len(call.args) == 1 and \
                isinstance(call.func, ast.Attribute) and isinstance(call.func.value, ast.BinOp) and isinstance(call.func.value.op, ast.Sub):
            ix = unparse(att.value.slice)
            times = unparse(att.value.value)
            b = call.args[0]
            d = call.func.value
            good = times in ("self.bpm_changes_offset",) and isinstance(b, ast.Subscript) and unparse(b.slice) == ix and \
                unparse(b.value) in ("self.bpm_changes_snap()",) and unparse(d.right) == unparse(b) + ".snap" and \
                "bpm_changes" not in unparse(d.left)       # the minuend is the query (a loop variable or an element of the queries)
        insts.append(R.ok(rid, "TimingMap.offsets:formula", ff, e.lineno,
                          idiom="time of the active change + (query - its position) at its tempo, one index for both tables")
                     if good else
                     R.viol(rid, "TimingMap.offsets:formula", ff, e.lineno,
                            "a query's time is the active change's time plus the position difference at that same change's tempo",
                            construct=unparse(r)[:200]))
    else:
        insts.append(R.undec(rid, "TimingMap.offsets:formula", ff, fo.node.lineno, "offset formula not recognised"))
    # Snap.from_offset shape
    fr = _rfn(ctx, SNAP + ".from_offset")
    ff = M.mods[fr.mod].rel
    body = {unparse(n.targets[0]) if isinstance(n, ast.Assign) else unparse(n.target): n for n in walk_no_nested(fr.node)
            if isinstance(n, (ast.Assign, ast.AugAssign))}
    ret = _ret_expr(fr)
    try:
        a = [n for n in walk_no_nested(fr.node) if isinstance(n, ast.Assign) and unparse(n.targets[0]) == "offset_del"][0]
        m = [n for n in walk_no_nested(fr.node) if isinstance(n, ast.Assign) and unparse(n.targets[0]) == "measure"][0]
        d = [n for n in walk_no_nested(fr.node) if isinstance(n, ast.AugAssign) and unparse(n.target) == "offset_del"][0]
        b = [n for n in walk_no_nested(fr.node) if isinstance(n, ast.Assign) and unparse(n.targets[0]) == "beat"][0]
        lf = attr_leaf({"bco.offset": "O", "bco.measure_length": "ML", "bco.beat_length": "BL"})
        good = sym.canon(a.value, lf).same(sym.parse("offset - O")) and \
            unparse(m.value) == "int(offset_del // bco.measure_length)" and isinstance(d.op, ast.Sub) and \
            sym.canon(d.value, lf).same(sym.parse("measure * ML")) and isinstance(b.value, ast.Call) and call_name(b.value) == "snap" and \
            sym.canon(b.value.args[0], lf).same(sym.parse("offset_del / BL")) and isinstance(ret, ast.Call) and \
            [unparse(x) for x in ret.args] == ["measure + bcs.snap.measure", "beat + bcs.snap.beat", "bco.metronome"]
        insts.append(R.ok(rid, "Snap.from_offset", ff, fr.node.lineno,
                          idiom="whole measures by floor division, remainder / beat length snapped, added to the change's position")
                     if good else
                     R.viol(rid, "Snap.from_offset", ff, fr.node.lineno,
                            "ms -> position must split the elapsed time into whole measures and a snapped beat remainder relative "
                            "to the active change", construct="; ".join(unparse(x) for x in (a, m, d, b, ret))[:300]))
    except IndexError:
        insts.append(R.undec(rid, "Snap.from_offset", ff, fr.node.lineno, "shape not recognised"))
    return insts


# --------------------------------------------------------------------------- R5
def rule_r5(ctx) -> List[R.Inst]:
    """nearest-fraction choice in Snapper.snap"""
    M = ctx.M
    rid = "C10.R5"
    fn = _rfn(ctx, SNAPPER + ".snap")
    file = M.mods[fn.mod].rel
    insts = []
    # the step to the left neighbour: `if <left distance> < <right distance>: ix -= 1` — the distances named first
    # (left_diff, right_diff = ..) or written in the test itself, the test possibly conjoined with `ix != 0`
    named = {}
    for n in walk_no_nested(fn.node):
        if isinstance(n, ast.Assign) and isinstance(n.targets[0], ast.Tuple) and isinstance(n.value, ast.Tuple) and \
                len(n.targets[0].elts) == len(n.value.elts):
            for t_, v_ in zip(n.targets[0].elts, n.value.elts):
                if isinstance(t_, ast.Name):
                    named.setdefault(t_.id, []).append(v_)
        elif isinstance(n, ast.Assign) and isinstance(n.targets[0], ast.Name):
            named.setdefault(n.targets[0].id, []).append(n.value)

    def _val(e):
        return named[e.id][0] if isinstance(e, ast.Name) and len(named.get(e.id, [])) == 1 else e
    steps = []
    for n in walk_no_nested(fn.node):
        if isinstance(n, ast.If) and any(isinstance(s_, ast.AugAssign) and unparse(s_.target) == "ix" and isinstance(s_.op, ast.Sub) and
                                         unparse(s_.value) == "1" for s_ in n.body):
            conj = n.test.values if isinstance(n.test, ast.BoolOp) and isinstance(n.test.op, ast.And) else [n.test]
            cmps = [c for c in conj if isinstance(c, ast.Compare) and len(c.ops) == 1 and isinstance(c.ops[0], (ast.Lt, ast.LtE, ast.Gt, ast.GtE))]
            if len(cmps) == 1:
                steps.append((n, cmps[0]))
    if len(steps) != 1:
        return [R.undec(rid, "Snapper.snap", file, fn.node.lineno, "left/right distance computation not recognised")]
    ifn, cmp_ = steps[0]
    lf = lambda n: {"self.val[ix - 1]": "L", "self.val[ix]": "Rr", "rem": "x"}.get(unparse(n))   # noqa: E731
    a_, b_ = sym.canon(_val(cmp_.left), lf), sym.canon(_val(cmp_.comparators[0]), lf)
    L_, R_ = sym.parse("x - L"), sym.parse("Rr - x")
    smaller_first = isinstance(cmp_.ops[0], (ast.Lt, ast.LtE))
    if (a_.same(L_) and b_.same(R_)) or (a_.same(R_) and b_.same(L_)):
        insts.append(R.ok(rid, "Snapper.snap:distances", file, cmp_.lineno, idiom="left = x - val[ix-1], right = val[ix] - x"))
        left_smaller = (a_.same(L_) and smaller_first) or (a_.same(R_) and not smaller_first)
        if left_smaller:
            insts.append(R.ok(rid, "Snapper.snap:choice", file, ifn.lineno, idiom="step to the left neighbour iff it is nearer"))
        else:
            insts.append(R.viol(rid, "Snapper.snap:choice", file, ifn.lineno,
                                "the left neighbour must be chosen exactly when it is the nearer one", construct=unparse(cmp_)))
    else:
        insts.append(R.viol(rid, "Snapper.snap:distances", file, cmp_.lineno,
                            "the distances to the two neighbouring fractions must be x - left neighbour and right neighbour - x",
                            construct=f"{unparse(_val(cmp_.left))} ; {unparse(_val(cmp_.comparators[0]))}"))
        insts.append(R.undec(rid, "Snapper.snap:choice", file, ifn.lineno, "nearest-neighbour choice not decided: the distances are not the expected ones"))
    # bisect over the sorted value table; table sorted at construction
    init = M.fn(SNAPPER + ".__init__")
    srt = [n for n in walk_no_nested(init.node) if isinstance(n, ast.Call) and call_name(n) == "argsort"]
    bis = [n for n in walk_no_nested(fn.node) if isinstance(n, ast.Call) and call_name(n) in ("bisect_left", "bisect")]
    srt = srt or [n for n in walk_no_nested(init.node) if isinstance(n, ast.Call) and call_name(n) in ("sort", "sorted", "unique", "lexsort")]
    triangle = any(isinstance(n, ast.Call) and call_name(n) == "indices" for n in walk_no_nested(init.node))
    if srt and bis and unparse(bis[0].args[0]) == "self.val":
        insts.append(R.ok(rid, "Snapper:sorted-table", file, bis[0].lineno, idiom="bisect over the table sorted at construction"))
    elif bis and not srt and not triangle:
        # the table is generated in another way (e.g. term by term): whether it comes out sorted is not read off a sort call
        insts.append(R.undec(rid, "Snapper:sorted-table", file, init.node.lineno,
                             "the fraction table is not built from the index triangle and no sort is applied: its order is not decided here"))
    else:
        insts.append(R.viol(rid, "Snapper:sorted-table", file, fn.node.lineno,
                            "bisect requires the fraction table sorted by value", construct="Snapper table / bisect"))
    insts.extend(_snapper_table_complete(M, init, rid, file))
    return insts


def _snapper_table_complete(M, init, rid, file) -> List[R.Inst]:
    """the table holds EVERY fraction num/den with den up to the maximum: cells may be blanked only because they are outside the
    triangle (num >= den), repeat 0, or repeat an earlier value — `np.triu_indices(n, 1)`, `[1:, 0]`, the visited-set loop, or
    the mask `gcd(num, den) != 1` over the index arrays (a fraction repeats an earlier one exactly when it is not in lowest terms).
    Any wider mask removes a grid position: an object exactly on it is written a neighbour's distance off."""
    key = "Snapper:table-complete"
    node = init.node
    blanks = [n for n in walk_no_nested(node) if isinstance(n, ast.Assign) and len(n.targets) == 1 and isinstance(n.targets[0], ast.Subscript) and
              isinstance(n.targets[0].value, ast.Name) and unparse(n.value) in ("np.nan", "nan", "numpy.nan", "float('nan')", "math.nan")]
    idx = {}     # names of the index arrays: den, num = np.indices(..); den += 1
    for n in walk_no_nested(node):
        if isinstance(n, ast.Assign) and isinstance(n.targets[0], ast.Tuple) and len(n.targets[0].elts) == 2 and isinstance(n.value, ast.Call) and \
                call_name(n.value) == "indices" and all(isinstance(t, ast.Name) for t in n.targets[0].elts):
            idx = {"den": n.targets[0].elts[0].id, "num": n.targets[0].elts[1].id}
    if not blanks and idx:
        # selection form: keep = (num > 0) & (num < den); keep[0, 0] = True; num, den = num[keep], den[keep]; unique(num / den) —
        # the mask may only drop what lies outside the triangle (num >= den; 1 is appended afterwards) and the zero column (0/1 kept)
        nu, de = idx["num"], idx["den"]
        sel = {}
        for n in walk_no_nested(node):
            pairs_ = []
            if isinstance(n, ast.Assign) and isinstance(n.targets[0], ast.Tuple) and isinstance(n.value, ast.Tuple) and len(n.targets[0].elts) == len(n.value.elts):
                pairs_ = list(zip(n.targets[0].elts, n.value.elts))
            elif isinstance(n, ast.Assign) and len(n.targets) == 1:
                pairs_ = [(n.targets[0], n.value)]
            for t_, v_ in pairs_:
                if isinstance(t_, ast.Name) and t_.id in (nu, de) and isinstance(v_, ast.Subscript) and isinstance(v_.value, ast.Name) and \
                        v_.value.id == t_.id and isinstance(v_.slice, ast.Name):
                    sel[t_.id] = (v_.slice.id, n)
        if set(sel) == {nu, de} and len({m for m, _ in sel.values()}) == 1:
            mname = sel[nu][0]
            mdefs = [n for n in walk_no_nested(node) if isinstance(n, ast.Assign) and len(n.targets) == 1 and isinstance(n.targets[0], ast.Name) and
                     n.targets[0].id == mname]
            uq = [n for n in walk_no_nested(node) if isinstance(n, ast.Call) and call_name(n) == "unique"]
            uniq = bool(uq)
            # what unique() compares must be the fractions themselves: through a rounding / cast, distinct fractions of a fine grid
            # (1/191 and 1/192 to four decimals) count as repeats and one of them is dropped
            for u_ in uq:
                a0 = u_.args[0] if u_.args else None
                if isinstance(a0, ast.Name):
                    ds_ = [x.value for x in walk_no_nested(node) if isinstance(x, ast.Assign) and len(x.targets) == 1 and isinstance(x.targets[0], ast.Name) and
                           x.targets[0].id == a0.id]
                    a0 = ds_[0] if len(ds_) == 1 else a0
                lossy = [c for c in ast.walk(a0) if isinstance(c, ast.Call) and call_name(c) in ("round", "around", "astype", "floor", "ceil", "trunc", "rint", "float32", "float16")] \
                    if a0 is not None else []
                if lossy:
                    return [R.viol(rid, key, file, u_.lineno,
                                   f"repeated fractions are pruned on '{unparse(u_.args[0])[:60]}', i.e. after '{unparse(lossy[0])[:40]}': fractions "
                                   f"that differ by less than that precision count as one and a position of the snap grid disappears "
                                   f"(an object exactly on it is moved to a neighbouring fraction)",
                                   construct=f"Snapper table: unique over {unparse(u_.args[0])[:60]}")]
                if a0 is None or not (isinstance(a0, ast.BinOp) and isinstance(a0.op, ast.Div) and unparse(a0.left) == nu and unparse(a0.right) == de):
                    return [R.undec(rid, key, file, u_.lineno, f"what unique() compares ('{unparse(u_.args[0])[:60] if u_.args else ''}') is not the quotient {nu} / {de}")]
            if len(mdefs) == 1 and uniq:
                def conj(e):
                    return conj(e.left) + conj(e.right) if isinstance(e, ast.BinOp) and isinstance(e.op, ast.BitAnd) else [e]
                zero_col = {f"{nu}>0", f"0<{nu}", f"{nu}!=0", f"{nu}>=1"}
                triangle = {f"{nu}<{de}", f"{de}>{nu}"}
                cs = [unparse(c).replace(" ", "") for c in conj(mdefs[0].value)]
                other = [c for c in cs if c not in zero_col | triangle]
                readd = any(isinstance(n, ast.Assign) and unparse(n.targets[0]).replace(" ", "") == f"{mname}[0,0]" and unparse(n.value) == "True"
                            for n in walk_no_nested(node))
                if other:
                    import re as _re

                    def _drops(c):
                        # a conjunct that demonstrably removes a proper fraction: num > K / num >= K+1 / den > K / den >= K+1 (K >= 1), x != K
                        m = _re.fullmatch(rf"({nu}|{de})(>=|>|!=)(\d+)", c)
                        if not m:
                            return False
                        k = int(m.group(3))
                        return (m.group(2) == ">" and k >= 1) or (m.group(2) == ">=" and k >= 2) or (m.group(2) == "!=" and k >= 1)
                    wide = [c for c in other if _drops(c)]
                    if wide:
                        return [R.viol(rid, key, file, mdefs[0].lineno,
                                       f"the mask '{unparse(mdefs[0].value)[:70]}' keeps fewer cells than the proper fractions ('{wide[0]}'): a position "
                                       f"of the snap grid disappears, and an object exactly on it is moved to a neighbouring fraction",
                                       construct=f"Snapper table: {unparse(mdefs[0])[:100]}")]
                    return [R.undec(rid, key, file, mdefs[0].lineno, f"mask conjunct '{other[0]}' not recognised")]
                if any(c in zero_col for c in cs) and not readd:
                    return [R.viol(rid, key, file, mdefs[0].lineno,
                                   "the mask drops the whole zero column and 0/1 is not put back: position 0 of the grid disappears",
                                   construct=f"Snapper table: {unparse(mdefs[0])[:100]}")]
                return [R.ok(rid, key, file, mdefs[0].lineno,
                             idiom="the mask keeps every proper fraction and 0/1; unique() drops repeated values only")]
    if not blanks:
        return [R.undec(rid, key, file, node.lineno, "construction of the fraction table not recognised")]
    bad, und = [], []
    for b in blanks:
        sl = b.targets[0].slice
        t = unparse(b.targets[0]).replace(" ", "")
        t = t[t.index("[") + 1:-1]
        in_loop = any(isinstance(l, ast.For) and any(x is b for x in ast.walk(l)) for l in walk_no_nested(node))
        if in_loop:
            # visited-set form: blank only under `if <cell> in visited`
            guard = next((i for i in ast.walk(node) if isinstance(i, ast.If) and any(x is b for x in i.body)), None)
            ok_ = guard is not None and isinstance(guard.test, ast.Compare) and isinstance(guard.test.ops[0], ast.In) and \
                unparse(guard.test.left) == unparse(b.targets[0]) and \
                any(isinstance(x, ast.Call) and call_name(x) == "add" and unparse(x.args[0]) == unparse(b.targets[0]) for o in guard.orelse for x in ast.walk(o))
            if not ok_ and guard is not None and isinstance(guard.test, ast.BoolOp) and isinstance(guard.test.op, ast.Or) and any(
                    isinstance(x, ast.Compare) and isinstance(x.ops[0], ast.In) and unparse(x.left) == unparse(b.targets[0]) for x in guard.test.values):
                bad.append((b, f"'{unparse(guard.test)[:70]}' blanks a cell also when its value has NOT been seen before"))
            elif not ok_:
                und.append(b)
            continue
        if isinstance(sl, ast.Call) and call_name(sl) == "triu_indices" and len(sl.args) == 2 and unparse(sl.args[1]) == "1":
            continue
        if t == "1:,0":
            continue
        if isinstance(sl, ast.Compare) and len(sl.ops) == 1 and isinstance(sl.left, ast.Call) and call_name(sl.left) == "gcd" and \
                len(sl.left.args) == 2 and idx:
            a = sorted(unparse(x) for x in sl.left.args)
            right = unparse(sl.comparators[0])
            if a == sorted(idx.values()) and ((isinstance(sl.ops[0], ast.NotEq) and right == "1") or (isinstance(sl.ops[0], ast.Gt) and right == "1")):
                continue
            if a == sorted(idx.values()):
                bad.append((b, f"blanks the cells with gcd {type(sl.ops[0]).__name__} {right}"))
            else:
                und.append(b)
            continue
        if isinstance(sl, ast.BinOp) and isinstance(sl.op, ast.BitOr):
            bad.append((b, f"the mask '{unparse(sl)[:70]}' blanks more than the repeated fractions"))
            continue
        und.append(b)
    if bad:
        b, why = bad[0]
        return [R.viol(rid, key, file, b.lineno,
                       f"{why}: a position of the snap grid disappears, and an object exactly on it is moved to a neighbouring fraction "
                       f"(positions on the grid must be exact)", construct=f"Snapper table: {unparse(b)[:100]}")]
    if und:
        return [R.undec(rid, key, file, und[0].lineno, f"blanking '{unparse(und[0])[:80]}' is not one of: outside the triangle / zero column / repeated value")]
    return [R.ok(rid, key, file, blanks[0].lineno, idiom="only cells outside the triangle, repeated zeros and repeated values are blanked")]


def rule_r6(ctx) -> List[R.Inst]:
    """conversions are functions of their arguments: no hidden state is written (history-independence)"""
    M, E = ctx.M, ctx.E
    rid = "C10.R6"
    insts = []
    for q, allowed in ((SNAPPER + ".snap", set()), (SNAP + ".from_offset", set()), (SNAP + ".offset", set()),
                       (T.TIMINGMAP + ".offsets", {"bpm_changes_offset"}), (T.TIMINGMAP + ".snaps", {"bpm_changes_offset"}),
                       (T.TIMINGMAP + ".beats", {"bpm_changes_offset"}), (T.TIMINGMAP + ".bpm_changes_snap", {"bpm_changes_offset"})):
        fn = M.fn(q)
        file = M.mods[fn.mod].rel
        s = E.summary(q)
        key = ".".join(q.rsplit(".", 2)[-2:])
        bad = [(root, sites) for root, sites in s.mut.items() if root[1] not in allowed]
        # an exact-key memo (store under a key that is the argument itself, no rounding) is history-independent
        def lossy_or_plain(site) -> bool:
            try:
                st = ast.parse(site.text).body[0]
            except SyntaxError:
                return True
            if isinstance(st, ast.Assign) and isinstance(st.targets[0], ast.Subscript):
                k = st.targets[0].slice
                if isinstance(k, ast.Name):
                    ds = local_defs(fn.node, k.id)
                    k = ds[0] if len(ds) == 1 else k
                return any(isinstance(x, ast.Call) and call_name(x) in ("round", "int", "floor", "trunc", "format", "str")
                           for x in ast.walk(k)) or any(isinstance(x, ast.BinOp) and isinstance(x.op, (ast.FloorDiv, ast.Mod))
                                                        for x in ast.walk(k))
            return True
        direct = [(root, [st for st in sites if not (st.via or "").startswith("via ") or "setter" in (st.via or "")])
                  for root, sites in bad]
        direct = [(r, ss) for r, ss in direct if ss]
        if bad and not direct:
            insts.append(R.ok(rid, key, file, fn.node.lineno, idiom="writes state only through the callees checked on their own"))
            continue
        bad = [(r, ss) for r, ss in direct if any(lossy_or_plain(x) for x in ss)]
        if direct and not bad:
            insts.append(R.ok(rid, key, file, fn.node.lineno, idiom="exact-key memo only (history-independent)"))
            continue
        if bad:
            (p, f), sites = bad[0]
            insts.append(R.viol(rid, key, file, sites[0].line,
                                f"{key} writes '{p}.{f}' ({sites[0].text}): its result then depends on the calls made before "
                                f"(a cache keyed on a rounded value returns a neighbour's answer), so 'nearest', idempotence and the "
                                f"on-grid round trip no longer hold for every call history", construct=f"{key} mutates {p}.{f}: {sites[0].text}"))
        else:
            why = "Mut = {}" if not s.mut else "only the idempotent in-place sort of its own tempo list (C10.R2)"
            insts.append(R.ok(rid, key, file, fn.node.lineno, idiom=why))
    return insts


def rule_r7(ctx) -> List[R.Inst]:
    """BpmList.to_timing_map: one tempo change per tempo row, its fields taken from that row"""
    from ..flow import Flow, SeqV, show, ctor_kwargs
    M = ctx.M
    rid = "C10.R7"
    q = "reamber.base.lists.BpmList.BpmList.to_timing_map"
    fn = M.fn(q)
    file = M.mods[fn.mod].rel
    comps = [n for n in walk_no_nested(fn.node) if isinstance(n, ast.ListComp) and any(
        isinstance(x, ast.Call) and call_name(x) == "BpmChangeOffset" for x in ast.walk(n.elt))]
    if len(comps) != 1:
        return [R.undec(rid, "to_timing_map", file, fn.node.lineno, "BpmChangeOffset comprehension not found")]
    lc = comps[0]
    insts = []
    F = Flow()
    for st in fn.node.body:
        if isinstance(st, ast.Assign):
            F.assign(st, seq_only=False)
    v = F.eval(lc)
    kw = ctor_kwargs(v.elem) if isinstance(v, SeqV) else None
    order = ["bpm", "metronome", "offset"]
    got = {}
    if kw:
        for i, f in enumerate(order):
            a = kw.get(f, kw.get(f"#{i}"))
            got[f] = show(a).replace(" ", "") if a is not None else None
    want = {f: f"@elem(self.{f})" for f in order}
    if kw and got == want and not lc.generators[0].ifs:
        insts.append(R.ok(rid, "to_timing_map:rows", file, lc.lineno, idiom="BpmChangeOffset(bpm, metronome, offset) of every row, no filter"))
    elif kw and (lc.generators[0].ifs or any(g is not None and "[" in g for g in got.values()) or
                 any(g is not None and g.startswith("@elem(") and not g.startswith("@elem(self.") for g in got.values())):
        insts.append(R.viol(rid, "to_timing_map:rows", file, lc.lineno,
                            f"the timing map is not built from every tempo row as it stands ({got}): a tempo point that repeats the "
                            f"previous bpm can still change the metronome (or restart the measure), so dropping or re-ordering rows here "
                            f"changes position <-> ms", construct=f"to_timing_map: {got}"))
    elif kw and got != want:
        insts.append(R.viol(rid, "to_timing_map:rows", file, lc.lineno,
                            f"tempo change fields are fed from other columns: {got}, expected {want}", construct=f"to_timing_map: {got}"))
    else:
        insts.append(R.undec(rid, "to_timing_map:rows", file, lc.lineno, "element provenance not resolved"))
    return insts


def rule_r8(ctx) -> List[R.Inst]:
    """unit helpers of RAConst are the exact scalings their names state (sa/props/units.py)"""
    from .units import unit_insts
    return unit_insts(ctx, "C10.R8")


def _append_paths(stmts, name: str):
    """number of `<name>.append(...)` calls along each path through stmts (a `continue` / `break` ends a path) -> set of
    counts; other writes to <name> -> list"""
    other = []

    def walk(stmts_, counts):
        """counts: set of append counts of the paths that reach this point; returns (fallthrough counts, finished counts)"""
        done = set()
        for s_ in stmts_:
            if not counts:
                break
            if isinstance(s_, ast.If):
                a, da = walk(s_.body, set(counts))
                b, db = walk(s_.orelse, set(counts))
                done |= da | db
                counts = a | b
                continue
            if isinstance(s_, (ast.Continue, ast.Break)):
                done |= counts
                counts = set()
                continue
            if isinstance(s_, (ast.For, ast.While, ast.Try, ast.With)):
                other.append(s_)
                continue
            n_app = 0
            for n in ast.walk(s_):
                if isinstance(n, ast.Call) and isinstance(n.func, ast.Attribute) and isinstance(n.func.value, ast.Name) and \
                        n.func.value.id == name:
                    if n.func.attr == "append":
                        n_app += 1
                    elif n.func.attr in ("pop", "insert", "extend", "remove", "clear"):
                        other.append(n)
                if isinstance(n, (ast.Assign, ast.AugAssign, ast.Delete)):
                    ts = n.targets if isinstance(n, (ast.Assign, ast.Delete)) else [n.target]
                    for t in ts:
                        if isinstance(t, ast.Subscript) and isinstance(t.value, ast.Name) and t.value.id == name:
                            other.append(n)
            counts = {x + n_app for x in counts}
        return counts, done
    fall, done = walk(stmts, {0})
    return fall | done, other


def rule_r9(ctx) -> List[R.Inst]:
    """the time list and the position list of a timing map are parallel: bpm_changes_offset_to_snap yields exactly one
    position entry per tempo change and from_bpm_changes_snap exactly one time entry per tempo change (TimingMap.offsets /
    snaps / beats index the two lists with the same index)"""
    M = ctx.M
    rid = "C10.R9"
    insts = []
    for q, key, what in (
            ("reamber.algorithms.timing.utils.bpm_changes_offset_to_snap.bpm_changes_offset_to_snap", "one-per-change", "position"),
            ("reamber.algorithms.timing.utils.from_bpm_changes_snap.from_bpm_changes_snap", "one-time-per-change", "time")):
        fn = M.nfn(q)
        file = M.mods[fn.mod].rel
        loops = [n for n in fn.node.body if isinstance(n, ast.For)]
        # the list that is built: returned by name, or handed to TimingMap(bpm_changes_offset=<name>)
        out = None
        for n in walk_no_nested(fn.node):
            if isinstance(n, ast.Return) and isinstance(n.value, ast.Name) and any(
                    isinstance(x, ast.Call) and call_name(x) == "append" and unparse(x.func.value) == n.value.id for lp in loops for x in ast.walk(lp)):
                out = n.value.id
            if isinstance(n, ast.Call) and call_name(n) == "TimingMap":
                for k in n.keywords:
                    if isinstance(k.value, ast.Name):
                        out = out or k.value.id
        inits = [n for n in fn.node.body if isinstance(n, (ast.Assign, ast.AnnAssign)) and
                 isinstance(n.targets[0] if isinstance(n, ast.Assign) else n.target, ast.Name) and
                 (n.targets[0] if isinstance(n, ast.Assign) else n.target).id == out]
        if out is None or len(inits) != 1 or len(loops) != 1 or not isinstance(inits[0].value, ast.List):
            rt = _running_total_form(fn)
            if rt is not None:
                # zip(X, accumulate(<one duration per consecutive pair of X>, initial=..)): n - 1 durations + the initial value = n
                # running totals, zipped with the n changes: exactly one entry per change
                insts.append(R.ok(rid, key, file, rt["comp"].lineno,
                                  idiom=f"one entry per tempo change: zip(changes, running totals with an initial value) ({what} list)"))
                continue
            insts.append(R.undec(rid, key, file, fn.node.lineno, "initial list / pairing loop not found"))
            continue
        n0 = len(inits[0].value.elts)
        it = unparse(loops[0].iter).replace(" ", "")
        pairs = it.startswith("zip(") and "[:-1]" in it and "[1:]" in it      # n-1 consecutive pairs
        # other iterables with n-1 items: the changes after the first (X[1:], islice(X, 1, None)), pairwise(X), index ranges
        import re as _re
        pairs = pairs or bool(_re.fullmatch(r"(\w+)\[1:\]|islice\((\w+),1,None\)|(itertools\.)?pairwise\((\w+)\)|zip\((\w+),\5\[1:\]\)|"
                                            r"range\(1,len\((\w+)\)\)|range\(len\((\w+)\)-1\)|enumerate\((\w+)\[1:\](,1|,start=1)?\)", it))
        counts, other = _append_paths(loops[0].body, out)
        probs = []
        if not pairs:
            probs.append(f"the loop does not run over the n-1 consecutive pairs ({it[:60]})")
        if n0 != 1:
            probs.append(f"the list starts with {n0} entries for the first tempo change")
        if counts != {1}:
            probs.append(f"an iteration appends {sorted(counts)} entries depending on the path (a skipped or doubled tempo change), not exactly one")
        if other:
            probs.append(f"entries of '{out}' are replaced / removed inside the loop ({unparse(other[0])[:60]})")
        if probs:
            insts.append(R.viol(rid, key, file, loops[0].lineno,
                                f"the {what} list no longer has one entry per tempo change: " + "; ".join(probs) +
                                " — TimingMap indexes the time list and the position list with the same index",
                                construct="; ".join(probs)[:200]))
        else:
            insts.append(R.ok(rid, key, file, loops[0].lineno, idiom=f"1 initial entry + exactly one append per consecutive pair ({what} list)"))
    return insts


def rule_r11(ctx) -> List[R.Inst]:
    """the fraction table contains exactly the fractions whose denominator is one of the requested divisions: the `divisions`
    argument must constrain the table, not only size it"""
    M = ctx.M
    rid = "C10.R11"
    fn = M.fn(SNAPPER + ".__init__")
    file = M.mods[fn.mod].rel
    p = [a.arg for a in fn.node.args.args if a.arg != "self"]
    if not p:
        return [R.undec(rid, "Snapper.divisions", file, fn.node.lineno, "no divisions parameter")]
    d = p[0]
    aliases = {d}
    uses = []
    parents = {}
    for n in ast.walk(fn.node):
        for ch in ast.iter_child_nodes(n):
            parents[id(ch)] = n
    for n in ast.walk(fn.node):
        if isinstance(n, ast.Name) and n.id in aliases and isinstance(n.ctx, ast.Load):
            par = parents.get(id(n))
            if isinstance(par, ast.Call) and call_name(par) in ("asarray", "array", "list", "tuple", "sorted", "set") and \
                    isinstance(parents.get(id(par)), ast.Assign) and unparse(parents[id(par)].targets[0]) in aliases:
                continue                      # re-binding of the same name
            uses.append((n, par))
    sizing = [u for u in uses if isinstance(u[1], ast.Call) and call_name(u[1]) in ("max", "len", "min")]
    filtering = [u for u in uses if u not in sizing]
    if filtering:
        return [R.ok(rid, "Snapper.divisions", file, filtering[0][0].lineno,
                     idiom=f"'{d}' takes part in building the table ({unparse(filtering[0][1])[:50]})")]
    return [R.viol(rid, "Snapper.divisions", file, (sizing[0][0] if sizing else fn.node).lineno,
                   f"'{d}' is only used as max({d}): the table holds every fraction with a denominator up to that maximum, so a snapper "
                   f"built for (1, 2, 4) returns thirds, and the default one returns elevenths or 95ths although 11 and 95 are not "
                   f"allowed divisions — 'nearest ALLOWED fraction' does not hold",
                   construct=f"Snapper.__init__: {d} used only through max()")]


def rule_r13(ctx) -> List[R.Inst]:
    """an argument the timing engine accepts is used: a parameter of a conversion that is never read (the caller's Snapper replaced
    by `self.snapper`, a rate taken from a default) makes the call ignore what the caller asked for — every caller in the library
    passes the default, so nothing notices"""
    M = ctx.M
    rid = "C10.R13"
    insts = []
    n_fn = 0
    for q, f in sorted(M.funcs.items()):
        if not q.startswith("reamber.algorithms.timing.") or f.outer_fn is not None:
            continue
        n_fn += 1
        ps = [a.arg for a in f.node.args.posonlyargs + f.node.args.args + f.node.args.kwonlyargs if a.arg not in ("self", "cls")]
        loads = {x.id for x in ast.walk(f.node) if isinstance(x, ast.Name) and isinstance(x.ctx, ast.Load)}
        body = [b for b in f.node.body if not (isinstance(b, ast.Expr) and isinstance(b.value, ast.Constant))]
        if len(body) == 1 and isinstance(body[0], (ast.Pass, ast.Raise)) or any(unparse(d).endswith("abstractmethod") or unparse(d).endswith("overload")
                                                                               for d in f.node.decorator_list):
            continue
        for p_ in ps:
            if p_ not in loads and not p_.startswith("_"):
                other = sorted({unparse(x) for x in ast.walk(f.node) if isinstance(x, ast.Attribute) and isinstance(x.value, ast.Name) and
                                x.value.id == "self" and x.attr == p_})
                insts.append(R.viol(rid, f"{short(q)}:{p_}", M.mods[f.mod].rel, f.node.lineno,
                                    f"the parameter '{p_}' of {f.name} is never read" + (f" ('{other[0]}' is used instead)" if other else "") +
                                    ": the conversion ignores what the caller passes — with a Snapper other than the default one the nearest "
                                    "ALLOWED fraction is not returned", construct=f"{f.name}: parameter {p_} unused"))
    if not insts:
        insts.append(R.ok(rid, "timing:parameters-used", "reamber/algorithms/timing", 0, idiom=f"every parameter of the {n_fn} functions of the timing package is read"))
    return insts


def rule_r12(ctx) -> List[R.Inst]:
    """an empty query is a query: offsets / snaps / beats may not index the query (or anything derived from it) with a
    constant outside a loop over it"""
    M = ctx.M
    rid = "C10.R12"
    insts = []
    for meth in ("offsets", "snaps", "beats"):
        q = T.TIMINGMAP + "." + meth
        fn = M.fn(q)
        file = M.mods[fn.mod].rel
        params = [a.arg for a in fn.node.args.args if a.arg != "self"]
        if not params:
            continue
        derived = {params[0]}
        for _ in range(4):
            for n in walk_no_nested(fn.node):
                if isinstance(n, ast.Assign) and isinstance(n.targets[0], ast.Name) and any(
                        isinstance(x, ast.Name) and x.id in derived for x in ast.walk(n.value)) and not any(
                        isinstance(x, ast.Call) and call_name(x) in ("len",) for x in ast.walk(n.value)):
                    derived.add(n.targets[0].id)
        # subscripts with a constant index on a derived name, outside for/while bodies
        in_loop = set()
        for n in ast.walk(fn.node):
            if isinstance(n, (ast.For, ast.While)):
                for st in n.body:
                    in_loop |= {id(x) for x in ast.walk(st)}
        bad = []
        for n in ast.walk(fn.node):
            if isinstance(n, ast.Subscript) and id(n) not in in_loop and isinstance(n.ctx, ast.Load):
                base = n.value
                while isinstance(base, ast.Subscript):
                    base = base.value
                idx = n.slice
                const = isinstance(idx, ast.Constant) and isinstance(idx.value, int) or (
                    isinstance(idx, ast.UnaryOp) and isinstance(idx.operand, ast.Constant))
                inner_const = isinstance(idx, ast.Subscript) and isinstance(idx.slice, ast.Constant)
                if isinstance(base, ast.Name) and base.id in derived and (const or inner_const):
                    bad.append(n)
        key = f"TimingMap.{meth}:empty-query"
        # an up-front emptiness guard that returns makes the later fixed-index accesses safe
        guard_line = None
        for st in fn.node.body:
            if isinstance(st, ast.If) and any(isinstance(x, ast.Return) for x in st.body):
                t = unparse(st.test).replace(" ", "")
                if any(t in (f"len({d})==0", f"notlen({d})", f"not{d}", f"len({d})<1", f"{d}.size==0") for d in derived):
                    guard_line = st.lineno
                    break
        if guard_line is not None:
            bad = [b for b in bad if b.lineno < guard_line]
        if bad:
            insts.append(R.viol(rid, key, file, bad[0].lineno,
                                f"'{unparse(bad[0])}' takes a fixed element of the query: an empty query (a legal multiset) raises IndexError "
                                f"instead of returning an empty result", construct=f"{meth}: {unparse(bad[0])}"))
        else:
            insts.append(R.ok(rid, key, file, fn.node.lineno, idiom="the query is only iterated / indexed by its own permutation"))
    return insts


def rule_dep(ctx):
    """obligations inherited from shared code the timing operations reach (list accessors under BpmList.to_timing_map,
    hidden state, copy hooks); the timing group itself is decided by the rules above"""
    from .deps import dep_insts
    entries = [T.TIMINGMAP + "." + m for m in ("offsets", "snaps", "beats", "from_bpm_changes_offset", "from_bpm_changes_snap")] + \
              ["reamber.base.lists.BpmList.BpmList.to_timing_map", SNAPPER + ".snap", SNAPPER + ".__init__",
               SNAP + ".from_offset", SNAP + ".offset"]
    return dep_insts(ctx, "C10", entries, skip_groups=("timing",))


SPECS = [
    RuleSpec("C10.R1", rule_r1, 5, "A6", "results are returned in query order (permutation algebra); descending sweep for a decrementing cursor"),
    RuleSpec("C10.R2", rule_r2, 2, "A5", "tempo changes are sorted by the integration key before consecutive pairing; the map's own list is the one sorted (in place) before it is read by position"),
    RuleSpec("C10.R3", rule_r3, 3, "A7", "Snap order is lexicographic on (measure, beat): truth table over 9 sign patterns"),
    RuleSpec("C10.R4", rule_r4, 10, "A7", "integration shapes: beat/measure length, position difference at the earlier change's tempo, ms->position split"),
    RuleSpec("C10.R5", rule_r5, 3, "A7", "snapping chooses the nearer neighbour of a sorted table"),
    RuleSpec("C10.R7", rule_r7, 1, "A5", "a list's timing map has one change per tempo row, fields from the same row"),
    RuleSpec("C10.R8", rule_r8, 24, "A7", "RAConst unit helpers: exact scaling named by the function, python float result"),
    RuleSpec("C10.R9", rule_r9, 2, "A8", "one position entry per tempo change (parallel lists)"),
    RuleSpec("C10.R11", rule_r11, 1, "A7", "the requested divisions constrain the fraction table"),
    RuleSpec("C10.R12", rule_r12, 3, "A8", "an empty query returns an empty result (no fixed-index access to the query)"),
    RuleSpec("C10.R13", rule_r13, 1, "A8", "no parameter of a timing-engine function is accepted and ignored"),
    RuleSpec("C10.D", rule_dep, 1, "M0", "rules of the shared code (list classes and their generated accessors, hidden state) that the timing operations reach"),
    RuleSpec("C10.R6", rule_r6, 7, "A3", "snapping and the position/time conversions write no hidden state"),
]

META = dict(
    explanation=(
        "Timing engine: a symbolic permutation algebra (argsort, reversal, inverse) shows that offsets/snaps/beats "
        "return results in the order of the queries and that the decrementing tempo cursor is swept in descending "
        "order; the four constructors sort the changes by the key they integrate over before pairing consecutive "
        "changes; Snap's comparisons are evaluated over the nine sign patterns of (measure, beat) and equal the "
        "lexicographic order; the formulas of the piecewise-linear integration (beat length, measure length, "
        "position difference integrated at the earlier change's tempo, one index into both change tables, the "
        "ms->position split) are compared in rational-function canonical form; and the snapper steps to the left "
        "neighbour of a sorted table exactly when it is nearer. RAConst's unit helpers are the exact scalings their names state and return Python floats (R8; required because item_props' setter casts numpy scalars to the field's current dtype); bpm_changes_offset_to_snap yields exactly one position entry per tempo change (R9); a clamp or rounding wrapped around an operand of a formula is a violation, not an unknown. The tempo list the queries index by position is the one that is sorted in place (a sorted copy leaves a directly built map unsorted, R2)."),
    not_decided="numeric values: the 1/192 round-trip bound, idempotence of snapping, exact beat monotonicity (arithmetic over runtime tempos)",
)
