"""Demo for C08 refactoring 1 (ConvertBase.cast as a lazily resolved column stream).

Runs all 16 converters (+ O2JToSM.convert_merge) over many source charts with many
histories, plus direct calls of ConvertBase.cast with unusual mappings, and prints one
sha256 digest over a canonical dump of everything observable.
"""
import hashlib
import logging
import random
import warnings

import numpy as np
import pandas as pd

warnings.filterwarnings("ignore")
logging.disable(logging.CRITICAL)

from reamber.algorithms.convert import *  # noqa: E402
from reamber.algorithms.convert.ConvertBase import ConvertBase  # noqa: E402
from reamber.base.lists.TimedList import TimedList  # noqa: E402
from reamber.bms import BMSHit, BMSHold, BMSBpm  # noqa: E402
from reamber.bms.BMSMap import BMSMap  # noqa: E402
from reamber.bms.lists import BMSBpmList  # noqa: E402
from reamber.bms.lists.notes import BMSHitList, BMSHoldList  # noqa: E402
from reamber.o2jam import O2JHit, O2JHold, O2JBpm, O2JMapSet, O2JMap  # noqa: E402
from reamber.o2jam.lists import O2JBpmList  # noqa: E402
from reamber.o2jam.lists.notes import O2JHitList, O2JHoldList  # noqa: E402
from reamber.osu import OsuHit, OsuHold, OsuBpm, OsuSv, OsuMap  # noqa: E402
from reamber.osu.lists import OsuBpmList, OsuSvList  # noqa: E402
from reamber.osu.lists.notes import OsuHitList, OsuHoldList  # noqa: E402
from reamber.quaver import QuaHit, QuaHold, QuaBpm, QuaSv, QuaMap  # noqa: E402
from reamber.quaver.QuaMapMeta import QuaMapMode  # noqa: E402
from reamber.quaver.lists import QuaBpmList, QuaSvList  # noqa: E402
from reamber.quaver.lists.notes import QuaHitList, QuaHoldList  # noqa: E402
from reamber.sm import SMHit, SMHold, SMBpm, SMMapSet, SMMap  # noqa: E402
from reamber.sm.SMMapMeta import SMMapChartTypes  # noqa: E402
from reamber.sm.lists import SMBpmList  # noqa: E402
from reamber.sm.lists.notes import SMHitList, SMHoldList  # noqa: E402

OUT = []


def emit(*parts):
    OUT.append(" ".join(str(p) for p in parts))


# ------------------------------------------------------------------ canonical dump
def cell(v):
    if isinstance(v, (float, np.floating)):
        return "f:" + repr(float(v))
    if isinstance(v, (bool, np.bool_)):
        return "b:" + repr(bool(v))
    if isinstance(v, (int, np.integer)):
        return "i:" + repr(int(v))
    return type(v).__name__ + ":" + repr(v)


def dump_df(df: pd.DataFrame):
    lines = [
        "cols=" + repr(list(df.columns)),
        "dtypes=" + repr([str(t) for t in df.dtypes]),
        "index=" + type(df.index).__name__ + repr(list(df.index)),
    ]
    for row in df.itertuples(index=False, name=None):
        lines.append("|".join(cell(v) for v in row))
    return lines


def dump_tl(tl):
    return [type(tl).__name__] + dump_df(tl.df)


def dump_val(v):
    if isinstance(v, TimedList):
        return "TL<" + ";".join(dump_tl(v)) + ">"
    if isinstance(v, list):
        return "[" + ",".join(dump_val(i) for i in v) + "]"
    return cell(v)


def dump_map(m):
    lines = ["MAP " + type(m).__name__]
    for k, v in m.objs.items():
        lines.append("obj " + k)
        lines.extend(dump_tl(v))
    for k in sorted(vars(m)):
        if k != "objs":
            lines.append(f"meta {k}={dump_val(vars(m)[k])}")
    return lines


def dump_any(x):
    if isinstance(x, list):
        lines = [f"LIST {len(x)}"]
        for i in x:
            lines.extend(dump_any(i))
        return lines
    if hasattr(x, "maps"):
        lines = ["SET " + type(x).__name__ + f" n={len(x.maps)}"]
        for m in x.maps:
            lines.extend(dump_map(m))
        for k in sorted(vars(x)):
            if k != "maps":
                lines.append(f"setmeta {k}={dump_val(vars(x)[k])}")
        return lines
    return dump_map(x)


# ------------------------------------------------------------------ source generation
GAMES = {
    "osu": (OsuHit, OsuHold, OsuBpm, OsuHitList, OsuHoldList, OsuBpmList),
    "qua": (QuaHit, QuaHold, QuaBpm, QuaHitList, QuaHoldList, QuaBpmList),
    "sm": (SMHit, SMHold, SMBpm, SMHitList, SMHoldList, SMBpmList),
    "bms": (BMSHit, BMSHold, BMSBpm, BMSHitList, BMSHoldList, BMSBpmList),
    "o2j": (O2JHit, O2JHold, O2JBpm, O2JHitList, O2JHoldList, O2JBpmList),
}


def rnd_offsets(rng, n):
    kind = rng.choice(["sorted", "unsorted", "ties", "negative", "float"])
    if kind == "sorted":
        return sorted(float(rng.randrange(0, 20000)) for _ in range(n))
    if kind == "unsorted":
        return [float(rng.randrange(0, 20000)) for _ in range(n)]
    if kind == "ties":
        return [float(rng.choice([0, 500, 500, 1000])) for _ in range(n)]
    if kind == "negative":
        return [float(rng.randrange(-5000, 5000)) for _ in range(n)]
    return [rng.uniform(-10, 10000) for _ in range(n)]


def gen_lists(rng, game, keys, nh, nl, nb):
    Hit, Hold, Bpm, HitL, HoldL, BpmL = GAMES[game]
    extra_h, extra_l = {}, {}
    if game == "qua":
        extra_h = extra_l = dict(keysounds=[])
    ho, lo, bo = rnd_offsets(rng, nh), rnd_offsets(rng, nl), rnd_offsets(rng, nb)
    hits, holds = [], []
    for o in ho:
        kw = dict(extra_h)
        if game == "qua":
            kw = dict(keysounds=[f"k{rng.randrange(3)}"] if rng.random() < 0.3 else [])
        if game == "bms":
            kw = dict(sample=rng.choice([b"", b"a.wav", b"kick.ogg"]))
        hits.append(Hit(offset=o, column=rng.randrange(keys), **kw))
    for o in lo:
        kw = dict(extra_l)
        if game == "qua":
            kw = dict(keysounds=[])
        if game == "bms":
            kw = dict(sample=rng.choice([b"", b"b.wav"]))
        holds.append(
            Hold(
                offset=o,
                column=rng.randrange(keys),
                length=float(rng.choice([0, 1, 50, 250.5, 1000])),
                **kw,
            )
        )
    bpms = [Bpm(offset=o, bpm=float(rng.choice([60, 120, 175.5, 300, 0.5]))) for o in bo]
    return HitL(hits), HoldL(holds), BpmL(bpms)


def gen_single(rng, game, keys, nh, nl, nb, tag):
    hl, ll, bl = gen_lists(rng, game, keys, nh, nl, nb)
    if game == "osu":
        m = OsuMap()
        m.circle_size = float(keys)
        m.title, m.title_unicode = f"T{tag}", f"TU{tag}"
        m.artist, m.artist_unicode = f"A{tag}", f"AU{tag}"
        m.creator, m.version = f"C{tag}", f"V{tag}"
        m.tags = ["x", "y"] if rng.random() < 0.5 else []
        m.audio_file_name, m.background_file_name = "a.mp3", "bg.png"
        m.preview_time = rng.choice([-1, 0, 1234])
        n_sv = rng.randrange(0, 5)
        m.svs = OsuSvList(
            [OsuSv(offset=o, multiplier=rng.choice([0.5, 1.0, 2.0])) for o in rnd_offsets(rng, n_sv)]
        )
    elif game == "qua":
        m = QuaMap()
        m.mode = QuaMapMode.get_mode(keys) or QuaMapMode.KEYS_4
        m.title, m.artist, m.creator = f"T{tag}", f"A{tag}", f"C{tag}"
        m.difficulty_name = f"D{tag}"
        m.tags = ["q"] if rng.random() < 0.5 else []
        m.audio_file, m.background_file = "a.mp3", "bg.png"
        m.song_preview_time = rng.choice([0, 4321])
        n_sv = rng.randrange(0, 5)
        m.svs = QuaSvList(
            [QuaSv(offset=o, multiplier=rng.choice([0.5, 1.0, 2.0])) for o in rnd_offsets(rng, n_sv)]
        )
    elif game == "bms":
        m = BMSMap()
        m.title, m.artist, m.version = f"T{tag}".encode(), f"A{tag}".encode(), f"V{tag}".encode()
    elif game == "sm":
        m = SMMap()
        m.chart_type = SMMapChartTypes.get_type(keys) or SMMapChartTypes.DANCE_SINGLE
        m.difficulty, m.difficulty_val = rng.choice(["Easy", "Hard"]), rng.randrange(1, 20)
        m.description = f"D{tag}"
    else:
        m = O2JMap()
    m.hits, m.holds, m.bpms = hl, ll, bl
    return m


def gen_source(rng, game, tag):
    keys = rng.choice([1, 4, 4, 5, 6, 7, 7, 8, 9, 10])
    if game == "o2j":
        keys = 7
    shape = rng.choice(["normal", "normal", "normal", "nohits", "noholds", "empty", "nobpm", "one"])
    nh, nl, nb = rng.randrange(1, 25), rng.randrange(1, 10), rng.randrange(1, 4)
    if shape == "nohits":
        nh = 0
    elif shape == "noholds":
        nl = 0
    elif shape == "empty":
        nh = nl = 0
    elif shape == "nobpm":
        nb = 0
    elif shape == "one":
        nh, nl, nb = 1, 0, 1
    if game == "sm":
        ms = SMMapSet()
        ms.maps = [gen_single(rng, game, keys, nh, nl, nb, f"{tag}.{i}") for i in range(rng.choice([0, 1, 1, 2, 3]))]
        ms.title, ms.title_translit = f"T{tag}", f"TT{tag}"
        ms.artist, ms.artist_translit = f"A{tag}", f"AT{tag}"
        ms.credit, ms.music, ms.background = f"C{tag}", "m.ogg", "bg.png"
        ms.sample_start, ms.offset = rng.choice([0.0, 12.5]), rng.choice([0.0, -5.0])
        return ms
    if game == "o2j":
        ms = O2JMapSet()
        n = rng.choice([0, 1, 2, 3, 3])
        ms.maps = [gen_single(rng, game, keys, nh, nl, nb, f"{tag}.{i}") for i in range(n)]
        ms.level = [rng.randrange(1, 60) for _ in range(rng.choice([n, n, n, 4, max(n - 1, 0)]))]
        ms.title, ms.artist, ms.creator = f"T{tag}", f"A{tag}", f"C{tag}"
        return ms
    return gen_single(rng, game, keys, nh, nl, nb, tag)


# ------------------------------------------------------------------ histories
def hist_map(m, kind, rng):
    """Returns a chart with the given history applied (may mutate / replace m)."""
    if kind == "fresh":
        return m
    if kind == "deepcopy":
        return m.deepcopy()
    if kind == "filtered":
        m.hits = m.hits.between(rng.choice([-100, 0, 500]), rng.choice([1000, 8000, 1e9]))
        m.holds = m.holds.after(rng.choice([-1e9, 300, 2000]), include_end=True)
        m.bpms = m.bpms[1:] if len(m.bpms) > 1 and rng.random() < 0.5 else m.bpms
        return m
    if kind == "sorted":
        rev = rng.random() < 0.5
        m.hits, m.holds, m.bpms = m.hits.sorted(rev), m.holds.sorted(rev), m.bpms.sorted(not rev)
        return m
    if kind == "appended":
        if len(m.hits):
            m.hits = m.hits.append(m.hits[0], sort=rng.random() < 0.5)
        if len(m.holds):
            m.holds = m.holds.append(m.holds[:2])
        if len(m.bpms):
            m.bpms = m.bpms.append(m.bpms[len(m.bpms) - 1])
        return m
    if kind == "stacked":
        try:
            s = m.stack()
            s.offset += rng.choice([0, 100, -250.5])
            s.loc[s.offset > 1000, "offset"] *= 2
            if len(m.holds):
                s.length = s.length * 2
        except Exception as e:  # e.g. nothing to stack
            emit("hist-exc", type(e).__name__)
        return m
    if kind == "rate":
        return m.rate(rng.choice([0.5, 1.25, 2.0]))
    if kind == "combo":
        for k in rng.sample(["filtered", "sorted", "appended", "stacked", "rate", "deepcopy"], 3):
            m = hist_map(m, k, rng)
        return m
    raise AssertionError(kind)


def hist(src, kind, rng):
    if hasattr(src, "maps"):
        if kind == "deepcopy":
            return src.deepcopy()
        if kind == "rate" and len(src.maps):
            return src.rate(rng.choice([0.5, 1.25, 2.0]))
        if kind == "rate":
            return src
        maps = [hist_map(m, kind, rng) for m in src.maps]
        src.maps[:] = maps
        return src
    return hist_map(src, kind, rng)


HISTS = ["fresh", "deepcopy", "filtered", "sorted", "appended", "stacked", "rate", "combo"]

CONVERTERS = {
    "osu": [(OsuToBMS, {}), (OsuToBMS, dict(move_right_by=1)), (OsuToQua, {}),
            (OsuToQua, dict(raise_bad_mode=False)), (OsuToSM, {}), (OsuToSM, dict(raise_bad_mode=False))],
    "qua": [(QuaToBMS, {}), (QuaToBMS, dict(move_right_by=2)), (QuaToOsu, {}), (QuaToSM, {})],
    "sm": [(SMToBMS, {}), (SMToOsu, {}), (SMToQua, {}), (SMToQua, dict(raise_bad_mode=False))],
    "bms": [(BMSToOsu, {}), (BMSToQua, {}), (BMSToQua, dict(raise_bad_mode=False)), (BMSToSM, {})],
    "o2j": [(O2JToBMS, {}), (O2JToBMS, dict(move_right_by=0)), (O2JToOsu, {}), (O2JToQua, {}),
            (O2JToSM, {}), ("merge", {})],
}


def run_conversions(game, src, label):
    before = dump_any(src)
    for conv, kw in CONVERTERS[game]:
        name = "O2JToSM.convert_merge" if conv == "merge" else conv.__name__
        fn = O2JToSM.convert_merge if conv == "merge" else conv.convert
        emit("CASE", label, name, sorted(kw.items()))
        try:
            res = fn(src, **kw)
            for line in dump_any(res):
                emit(line)
        except Exception as e:
            emit("EXC", type(e).__name__, str(e))
        after = dump_any(src)
        emit("SRC-UNCHANGED", after == before)
        emit("SRC-AFTER", hashlib.sha256("\n".join(after).encode()).hexdigest())


def fixtures():
    yield "osu", "fx-Gravity", lambda: OsuMap.read_file("rsc/maps/osu/Gravity.osu")
    yield "osu", "fx-Escapes", lambda: OsuMap.read_file("rsc/maps/osu/Escapes.osu")
    yield "qua", "fx-Neuro", lambda: QuaMap.read_file("rsc/maps/qua/NeuroCloud.qua")
    yield "sm", "fx-Escapes", lambda: SMMapSet.read_file("rsc/maps/sm/Escapes.sm")
    yield "o2j", "fx-178", lambda: O2JMapSet.read_file("rsc/maps/o2jam/o2ma178.ojn")
    yield "bms", "fx-cold", lambda: BMSMap.read_file("rsc/maps/bms/coldBreath.bme")


def main_conversions(seed):
    rng = random.Random(seed)
    # generated sources: every game x every history x 2 random charts
    for game in GAMES:
        for hi, kind in enumerate(HISTS):
            for rep in range(2):
                tag = f"{game}{hi}{rep}"
                try:
                    src = hist(gen_source(rng, game, tag), kind, rng)
                except Exception as e:
                    emit("GEN-EXC", tag, kind, type(e).__name__, str(e))
                    continue
                run_conversions(game, src, f"gen-{tag}-{kind}")
    # freshly read fixtures with a few histories
    for game, label, read in fixtures():
        for kind in ["fresh", "stacked", "rate", "combo"]:
            try:
                src = hist(read(), kind, rng)
            except Exception as e:
                emit("FX-EXC", label, kind, type(e).__name__, str(e))
                continue
            run_conversions(game, src, f"{label}-{kind}")


# ------------------------------------------------------------------ direct cast calls
def main_cast(seed):
    rng = random.Random(seed)
    for i in range(40):
        game = rng.choice(list(GAMES))
        hl, ll, bl = gen_lists(rng, game, 7, rng.randrange(0, 8), rng.randrange(0, 6), rng.randrange(0, 4))
        src = rng.choice([hl, ll, bl])
        if rng.random() < 0.5 and len(src):
            src = src.sorted(True)  # reversed row labels
        if rng.random() < 0.3 and len(src) > 1:
            src = src[1:]  # labels start at 1
        target = rng.choice([OsuHitList, OsuHoldList, QuaHoldList, BMSHitList, SMBpmList, O2JHoldList, QuaSvList])
        n = len(src)
        mappings = [
            dict(offset="offset"),
            dict(offset="offset", column="column"),
            dict(offset="offset", column="column", length="length"),
            dict(offset="offset", bpm="bpm"),
            dict(column="offset", offset="column"),
            dict(offset="offset", column=3),
            dict(offset="offset", column=list(range(n))),
            dict(offset="offset", column=np.arange(n) * 2),
            dict(offset="offset", column=pd.Series(range(n), index=range(100, 100 + n))),
            dict(offset=pd.Series(np.arange(n, dtype=float), index=list(range(n))[::-1]), column="column"),
            dict(offset="offset", hitsound_file=pd.Series(["x"] * n, dtype=object)),
            dict(offset="offset", no_such_field="offset"),
            dict(offset="no_such_attr", column="column"),
            dict(column="column", offset="no_such_attr"),
            dict(offset="offset", column=list(range(n + 1))),
            dict(offset=list(range(n + 2)), column="nope"),
            dict(offset="offset", column=None),
            dict(),
        ]
        mapping = rng.choice(mappings)
        emit("CAST", i, type(src).__name__, target.__name__, repr(sorted(mapping, key=str)))
        before = dump_tl(src)
        try:
            res = ConvertBase.cast(src, target, mapping)
            for line in dump_tl(res):
                emit(line)
            extra = sorted(k for k in vars(res) if k != "_df")
            emit("extra-attrs", extra, [dump_val(vars(res)[k]) if not isinstance(vars(res)[k], (pd.Series, np.ndarray)) else list(vars(res)[k]) for k in extra])
        except Exception as e:
            emit("EXC", type(e).__name__, str(e))
        emit("SRC-UNCHANGED", dump_tl(src) == before)


if __name__ == "__main__":
    random.seed(8)
    np.random.seed(8)
    main_conversions(20250801)
    main_cast(808)
    text = "\n".join(OUT)
    import os

    if os.environ.get("C08_DUMP"):
        with open(os.environ["C08_DUMP"], "w") as f:
            f.write(text)
    print("DIGEST", hashlib.sha256(text.encode()).hexdigest())
