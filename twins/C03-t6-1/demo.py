"""Behaviour digest for property C03 (StepMania writing).

Run as:
    cd /tmp/wt7/C03 && PYTHONPATH=/tmp/wt7/C03 /venv/bin/python demo.py

Prints exactly one line on stdout: ``DIGEST <sha256 hex>``.
(Some statistics go to stderr.)

The digest covers, for several dozen generated / read / converted / rated
mapsets:
  * the text returned by SMMapSet.write() (and SMMap.write(), _write_metadata()),
  * the complete in-memory state of the mapset AFTER writing (non-mutation),
  * everything obtained by reading the text back (all lists: values, dtypes,
    column order, row labels; all header fields),
  * the second-generation text (write(read(write(ms)))) and third generation,
  * direct calls of TimingMap.beats / snaps / offsets, Snapper.snap and
    BpmList.to_timing_map on edge-case inputs,
  * the type of every exception raised.
"""
from __future__ import annotations

import hashlib
import logging
import os
import random
import sys
import warnings
from fractions import Fraction
from pathlib import Path

import numpy as np
import pandas as pd

import reamber
from reamber.algorithms.timing.TimingMap import TimingMap
from reamber.algorithms.timing.utils.BpmChangeOffset import BpmChangeOffset
from reamber.algorithms.timing.utils.Snapper import Snapper
from reamber.sm import (
    SMBpm,
    SMFake,
    SMHit,
    SMHold,
    SMKeySound,
    SMLift,
    SMMap,
    SMMapSet,
    SMMine,
    SMRoll,
    SMStop,
)
from reamber.sm.SMMapMeta import SMMapChartTypes, SMMapDifficulty
from reamber.sm.lists.SMBpmList import SMBpmList
from reamber.sm.lists.SMStopList import SMStopList
from reamber.sm.lists.notes import (
    SMFakeList,
    SMHitList,
    SMHoldList,
    SMKeySoundList,
    SMLiftList,
    SMMineList,
    SMRollList,
)

warnings.filterwarnings("ignore")


class _LogToDigest(logging.Handler):
    """Log messages of the library are observable behaviour too."""

    def emit(self, record):
        OUT.append(f"LOG | {record.levelname} | {record.getMessage()}")


logging.getLogger().addHandler(_LogToDigest())
logging.getLogger().setLevel(logging.DEBUG)

ROOT = Path(reamber.__file__).resolve().parent.parent
RSC = ROOT / "rsc" / "maps"

OUT: list[str] = []
STATS = dict(records=0, exceptions=0)


def emit(*parts):
    OUT.append(" | ".join(str(p) for p in parts))
    STATS["records"] += 1


# --------------------------------------------------------------------------
# canonical dumps
# --------------------------------------------------------------------------
def dump_value(x):
    return f"{type(x).__module__}.{type(x).__qualname__}:{x!r}"


def dump_df(tag, df: pd.DataFrame):
    emit(tag, "columns", list(df.columns), "index", [repr(i) for i in df.index])
    for c in df.columns:
        emit(tag, "col", c, str(df[c].dtype), [dump_value(v) for v in df[c].tolist()])


META_FIELDS = [
    "title", "subtitle", "artist", "title_translit", "subtitle_translit",
    "artist_translit", "genre", "credit", "banner", "background",
    "lyrics_path", "cd_title", "music", "offset", "sample_start",
    "sample_length", "display_bpm", "selectable", "bg_changes", "fg_changes",
]
MAP_FIELDS = ["chart_type", "description", "difficulty", "difficulty_val",
              "groove_radar"]


def dump_mapset(tag, ms: SMMapSet):
    for f in META_FIELDS:
        emit(tag, "meta", f, dump_value(getattr(ms, f)))
    emit(tag, "n_maps", len(ms.maps))
    for i, m in enumerate(ms.maps):
        for f in MAP_FIELDS:
            emit(tag, i, "mapmeta", f, dump_value(getattr(m, f)))
        emit(tag, i, "objs-keys", list(m.objs.keys()))
        for k, lst in m.objs.items():
            emit(tag, i, k, type(lst).__name__)
            dump_df(f"{tag}/{i}/{k}", lst.df)


def guarded(tag, fn):
    try:
        return fn()
    except Exception as e:  # noqa
        STATS["exceptions"] += 1
        emit(tag, "EXC", type(e).__name__)
        if os.environ.get("DEMO_DEBUG"):
            print("EXC", tag, type(e).__name__, e, file=sys.stderr)
        return None


def exercise(tag, ms: SMMapSet, generations=3):
    """write -> read -> write -> read ..., dumping everything."""
    dump_mapset(tag + "/before", ms)
    # pieces first (also exercised through write())
    guarded(tag + "/_write_metadata",
            lambda: emit(tag, "metadata-lines", repr(ms._write_metadata())))
    for i, m in enumerate(ms.maps):
        guarded(f"{tag}/map{i}.write",
                lambda m=m: emit(tag, i, "map-lines", repr(m.write())))
    cur = ms
    for g in range(generations):
        text = guarded(f"{tag}/gen{g}/write", cur.write)
        if text is None:
            break
        emit(tag, f"gen{g}", "type", type(text).__name__, "text", repr(text))
        dump_mapset(f"{tag}/gen{g}/after-write", cur)
        nxt = guarded(f"{tag}/gen{g}/read", lambda: SMMapSet.read(text))
        if nxt is None:
            break
        dump_mapset(f"{tag}/gen{g}/read-back", nxt)
        # reading via a list of lines must give the same thing
        nxt2 = guarded(f"{tag}/gen{g}/read-lines",
                       lambda: SMMapSet.read(text.split("\n")))
        if nxt2 is not None:
            emit(tag, f"gen{g}", "read-lines-rewrite",
                 repr(guarded(f"{tag}/gen{g}/rw", nxt2.write)))
        cur = nxt


# --------------------------------------------------------------------------
# generated in-memory mapsets
# --------------------------------------------------------------------------
CHARTS = [
    (SMMapChartTypes.DANCE_SINGLE, 4),
    (SMMapChartTypes.DANCE_DOUBLE, 8),
    (SMMapChartTypes.DANCE_SOLO, 6),
    (SMMapChartTypes.DANCE_COUPLE, 4),
    (SMMapChartTypes.DANCE_THREEPANEL, 3),
    (SMMapChartTypes.DANCE_ROUTINE, 8),
    (SMMapChartTypes.KB7_SINGLE, 7),
]
DIFFS = [SMMapDifficulty.BEGINNER, SMMapDifficulty.EASY, SMMapDifficulty.MEDIUM,
         SMMapDifficulty.HARD, SMMapDifficulty.CHALLENGE, SMMapDifficulty.EDIT]
BPM_CHOICES = [60, 90, 120, 120.5, 150, 174, 180, 200, 240, 333.33, 75.0, 100]
OFFSET_CHOICES = [0.0, 100.0, -250.0, 635.0, 12.5, 1000, -3.75]
WORDS = ["", "Escapes", "Gravity", "a b", "x-y_z", "Foo (bar)", "名前", "0", "#1"]


class Tempo:
    """Piecewise tempo: list of (beat, bpm) with exact beat positions."""

    def __init__(self, first_offset, changes):
        self.changes = changes  # [(Fraction beat, bpm)], beat[0] == 0
        self.offsets = [float(first_offset)]
        for (b0, bpm0), (b1, _) in zip(changes[:-1], changes[1:]):
            self.offsets.append(self.offsets[-1] + float(b1 - b0) * 60000.0 / bpm0)

    def offset_of(self, beat: Fraction) -> float:
        ix = 0
        for i, (b, _) in enumerate(self.changes):
            if b <= beat:
                ix = i
        b, bpm = self.changes[ix]
        return self.offsets[ix] + float(beat - b) * 60000.0 / bpm


def gen_tempo(rng, on_measure: bool, n_bpms: int):
    beat = Fraction(0)
    changes = [(beat, rng.choice(BPM_CHOICES))]
    for _ in range(n_bpms - 1):
        if on_measure:
            beat += 4 * rng.randint(1, 4)
        else:
            beat += rng.choice([Fraction(1), Fraction(1, 2), Fraction(5, 2),
                                Fraction(3), Fraction(7, 4), Fraction(13, 3),
                                Fraction(6), Fraction(9, 2)])
        changes.append((beat, rng.choice(BPM_CHOICES)))
    return Tempo(rng.choice(OFFSET_CHOICES), changes)


def gen_beats(rng, n, start_beat, span, dens):
    out = []
    for _ in range(n):
        den = rng.choice(dens)
        whole = rng.randrange(int(span))
        out.append(Fraction(start_beat) + whole + Fraction(rng.randrange(den), den))
    return out


def gen_map(rng, tempo: Tempo, chart, keys, *, dens, n_each, start_beat, span,
            shuffle, kinds, avoid_collisions=True):
    m = SMMap()
    m.chart_type = chart
    m.description = rng.choice(WORDS)
    m.difficulty = rng.choice(DIFFS)
    m.difficulty_val = rng.randint(0, 25)
    m.groove_radar = [round(rng.random(), 3) for _ in range(5)]
    m.bpms = SMBpmList([SMBpm(o, bpm) for o, (_, bpm) in
                        zip(tempo.offsets, tempo.changes)])

    taken = [[] for _ in range(keys)]  # per column: closed beat intervals

    def place(lo, hi):
        """Pick a column where [lo, hi] is free (None when there is none)."""
        cols = list(range(keys))
        rng.shuffle(cols)
        for c in cols:
            if avoid_collisions and any(a <= hi and lo <= b for a, b in taken[c]):
                continue
            taken[c].append((lo, hi))
            return c
        return None

    def simple(cls):
        objs = []
        for b in gen_beats(rng, n_each, start_beat, span, dens):
            c = place(b, b)
            if c is not None:
                objs.append(cls(tempo.offset_of(b), c))
        if shuffle:
            rng.shuffle(objs)
        return objs

    def long(cls):
        objs = []
        for b in gen_beats(rng, n_each, start_beat, span, dens):
            length_beats = Fraction(rng.randint(1, 16), rng.choice([1, 2, 4]))
            c = place(b, b + length_beats)
            if c is None:
                continue
            h = tempo.offset_of(b)
            t = tempo.offset_of(b + length_beats)
            objs.append(cls(h, c, t - h))
        if shuffle:
            rng.shuffle(objs)
        return objs

    if "hits" in kinds:
        m.hits = SMHitList(simple(SMHit))
    if "holds" in kinds:
        m.holds = SMHoldList(long(SMHold))
    if "rolls" in kinds:
        m.rolls = SMRollList(long(SMRoll))
    if "fakes" in kinds:
        m.fakes = SMFakeList(simple(SMFake))
    if "keysounds" in kinds:
        m.keysounds = SMKeySoundList(simple(SMKeySound))
    if "lifts" in kinds:
        m.lifts = SMLiftList(simple(SMLift))
    if "mines" in kinds:
        m.mines = SMMineList(simple(SMMine))
    return m


ALL_KINDS = ["hits", "holds", "rolls", "fakes", "keysounds", "lifts", "mines"]


def gen_mapset(rng, case: int) -> SMMapSet:
    on_measure = case % 2 == 0
    n_bpms = 1 + case % 4
    tempo = gen_tempo(rng, on_measure, n_bpms)
    last_beat = tempo.changes[-1][0]
    dens_sets = [
        [1, 2, 4],
        [1, 2, 3, 4, 6, 8],
        [1, 2, 3, 4, 6, 8, 12, 16],
        [4, 16, 32, 64, 96],
        [5, 7, 9],  # LCM of the written measure exceeds 384 rows -> capped
        [3, 5, 7, 9, 32, 64, 96],
        [1],
    ]
    dens = dens_sets[case % len(dens_sets)]
    n_maps = 1 + (case % 3 == 2) + (case % 7 == 6)
    kinds_choices = [ALL_KINDS, ["hits"], ["hits", "holds"], ["holds"],
                     ["mines", "lifts"], [], ALL_KINDS, ["rolls", "fakes"]]
    ms = SMMapSet()
    maps = []
    for k in range(n_maps):
        chart, keys = CHARTS[(case + k) % len(CHARTS)]
        start_beat = [0, 0, 4 * rng.randint(1, 5), 9, 0][(case + k) % 5]  # empty measures
        span = max(4, int(last_beat) + rng.randint(1, 12) - int(start_beat))
        maps.append(gen_map(
            rng, tempo, chart, keys, dens=dens,
            n_each=[0, 1, 3, 8, 20][(case + 2 * k) % 5],
            start_beat=start_beat, span=span, shuffle=case % 3 != 0,
            kinds=kinds_choices[(case + k) % len(kinds_choices)],
            avoid_collisions=case % 8 != 7))
    # stops live in the first map (that is what gets written)
    if case % 5 == 3:
        stops = [SMStop(tempo.offset_of(Fraction(rng.randint(0, int(last_beat) + 8))),
                        rng.choice([100.0, 250.0, 500.0]))
                 for _ in range(rng.randint(1, 3))]
        maps[0].stops = SMStopList(stops)
    ms.maps = maps
    ms.offset = tempo.offsets[0]
    ms.title = rng.choice(WORDS)
    ms.subtitle = rng.choice(WORDS)
    ms.artist = rng.choice(WORDS)
    ms.title_translit = rng.choice(WORDS)
    ms.subtitle_translit = rng.choice(WORDS)
    ms.artist_translit = rng.choice(WORDS)
    ms.genre = rng.choice(WORDS)
    ms.credit = rng.choice(WORDS)
    ms.banner = rng.choice(WORDS)
    ms.background = rng.choice(WORDS)
    ms.lyrics_path = rng.choice(WORDS)
    ms.cd_title = rng.choice(WORDS)
    ms.music = rng.choice(WORDS)
    ms.sample_start = rng.choice([0.0, 1500.0, 68502.0, 12.5])
    ms.sample_length = rng.choice([10.0, 26000.0, 0.0, 1234.5])
    ms.display_bpm = rng.choice(["", "120", "120-180", "*"])
    ms.selectable = case % 4 != 1
    ms.bg_changes = rng.choice(["", "0.000=bg.png=1.000=0=0=1"])
    ms.fg_changes = rng.choice(["", "1.000=fg.png"])
    return ms


def section_generated():
    rng = random.Random(20240303)
    for case in range(56):
        ms = guarded(f"gen{case}/build", lambda: gen_mapset(rng, case))
        if ms is None:
            continue
        exercise(f"gen{case}", ms, generations=2)
        if case % 6 == 1:
            for by in (1.5, 0.8):
                rated = guarded(f"gen{case}/rate{by}", lambda: ms.rate(by))
                if rated is not None:
                    exercise(f"gen{case}/rate{by}", rated, generations=2)
                    dump_mapset(f"gen{case}/after-rate{by}-original", ms)


# --------------------------------------------------------------------------
# hand-made edge cases
# --------------------------------------------------------------------------
def section_edge():
    # completely empty map
    ms = SMMapSet()
    m = SMMap()
    m.bpms = SMBpmList([SMBpm(0, 120)])
    ms.maps = [m]
    ms.offset = 0.0
    exercise("edge/empty", ms, generations=2)

    # no bpm at all / no maps at all -> whatever exception
    ms = SMMapSet()
    ms.maps = [SMMap()]
    ms.offset = 0.0
    exercise("edge/no-bpm", ms, generations=1)
    ms = SMMapSet()
    exercise("edge/no-maps", ms, generations=1)

    # single note far away: many leading empty measures
    for keys_chart in CHARTS:
        ms = SMMapSet()
        m = SMMap()
        m.chart_type = keys_chart[0]
        m.bpms = SMBpmList([SMBpm(50, 100)])
        m.hits = SMHitList([SMHit(50 + 600 * (4 * 7 + 1.5), keys_chart[1] - 1)])
        ms.maps = [m]
        ms.offset = 50.0
        exercise(f"edge/far-{keys_chart[0]}", ms, generations=2)

    # ties: everything on the same instant in different columns + same cell
    ms = SMMapSet()
    m = SMMap()
    m.bpms = SMBpmList([SMBpm(0, 60), SMBpm(8000, 120)])
    m.hits = SMHitList([SMHit(1000, 0), SMHit(1000, 1), SMHit(1000, 1)])
    m.mines = SMMineList([SMMine(1000, 2), SMMine(1000, 0)])
    m.holds = SMHoldList([SMHold(1000, 3, 1000), SMHold(8000, 3, 250)])
    m.rolls = SMRollList([SMRoll(8000, 0, 125), SMRoll(8000, 1, 0)])
    m.lifts = SMLiftList([SMLift(8000, 2)])
    m.fakes = SMFakeList([SMFake(7999.99, 2), SMFake(0, 0)])
    m.keysounds = SMKeySoundList([SMKeySound(8125, 2)])
    ms.maps = [m]
    ms.offset = 0
    ms.selectable = False
    exercise("edge/ties", ms, generations=3)

    # unsupported chart type (keys None), column beyond the key count,
    # object before the first bpm
    for name, chart, col, off in [
        ("pump", SMMapChartTypes.PUMP_SINGLE, 0, 500.0),
        ("bad-col", SMMapChartTypes.DANCE_THREEPANEL, 3, 500.0),
        ("neg-col", SMMapChartTypes.DANCE_SINGLE, -1, 500.0),
        ("before-bpm", SMMapChartTypes.DANCE_SINGLE, 0, -500.0),
        ("unknown-chart", "nonsense", 0, 500.0),
    ]:
        ms = SMMapSet()
        m = SMMap()
        m.chart_type = chart
        m.bpms = SMBpmList([SMBpm(0, 120)])
        m.hits = SMHitList([SMHit(off, col)])
        ms.maps = [m]
        ms.offset = 0.0
        exercise(f"edge/{name}", ms, generations=1)

    # bpm list given unsorted, offset differing in int/float type
    ms = SMMapSet()
    m = SMMap()
    m.bpms = SMBpmList([SMBpm(4000, 90), SMBpm(0, 120), SMBpm(2000, 240)])
    m.hits = SMHitList([SMHit(o, i % 4) for i, o in
                        enumerate([4000, 0, 2000, 2125, 250, 4000 + 2000 / 3])])
    m.stops = SMStopList([SMStop(2000, 300), SMStop(500, 100)])
    ms.maps = [m]
    ms.offset = 0
    exercise("edge/unsorted-bpm", ms, generations=2)

    # #OFFSET never set (None), stops only / stops unsorted and tied
    ms = SMMapSet()
    m = SMMap()
    m.bpms = SMBpmList([SMBpm(0, 120)])
    m.hits = SMHitList([SMHit(500, 0)])
    ms.maps = [m]
    exercise("edge/offset-none", ms, generations=1)
    ms = SMMapSet()
    m = SMMap()
    m.bpms = SMBpmList([SMBpm(10, 125), SMBpm(10 + 480 * 8, 62.5)])
    m.stops = SMStopList([SMStop(10 + 480 * 9, 480), SMStop(10, 0), SMStop(250, 1e-3),
                          SMStop(250, 960), SMStop(10 + 480 * 8, 33.333)])
    ms.maps = [m]
    ms.offset = 10
    exercise("edge/stops-only", ms, generations=2)

    # a second map with a different tempo list (outside the domain, but the
    # behaviour must stay the same)
    ms = SMMapSet()
    a, b = SMMap(), SMMap()
    a.bpms = SMBpmList([SMBpm(0, 120)])
    b.bpms = SMBpmList([SMBpm(0, 180)])
    a.hits = SMHitList([SMHit(500, 0)])
    b.hits = SMHitList([SMHit(1000, 1)])
    ms.maps = [a, b]
    ms.offset = 0
    exercise("edge/two-tempi", ms, generations=2)


# --------------------------------------------------------------------------
# read / converted / rated mapsets
# --------------------------------------------------------------------------
def section_files():
    for name in ["Escapes", "Gravity", "ICFITU", "Caravan"]:
        ms = guarded(f"file/{name}/read",
                     lambda: SMMapSet.read_file(RSC / "sm" / f"{name}.sm"))
        if ms is None:
            continue
        exercise(f"file/{name}", ms, generations=2)
    ms = guarded("file/Escapes/read2",
                 lambda: SMMapSet.read_file(RSC / "sm" / "Escapes.sm"))
    if ms is not None:
        for by in (1.25, 0.5):
            rated = guarded(f"file/Escapes/rate{by}", lambda: ms.rate(by))
            if rated is not None:
                exercise(f"file/Escapes/rate{by}", rated, generations=1)
        dump_mapset("file/Escapes/after-rate-original", ms)


def section_convert():
    from reamber.algorithms.convert import OsuToSM, QuaToSM, BMSToSM, O2JToSM
    from reamber.osu.OsuMap import OsuMap
    from reamber.quaver.QuaMap import QuaMap
    from reamber.bms.BMSMap import BMSMap
    from reamber.o2jam.O2JMapSet import O2JMapSet

    for name in ["Gravity", "Caravan", "ICFITU", "Escapes", "LNDan14"]:
        def conv(name=name):
            return OsuToSM.convert(OsuMap.read_file(RSC / "osu" / f"{name}.osu"))
        ms = guarded(f"conv/osu/{name}", conv)
        if ms is not None:
            exercise(f"conv/osu/{name}", ms, generations=1)
            if name == "Gravity":
                rated = guarded("conv/osu/Gravity/rate", lambda: ms.rate(1.1))
                if rated is not None:
                    exercise("conv/osu/Gravity/rate1.1", rated, generations=1)
    for name in ["CarryMeAway", "NeuroCloud"]:
        def conv(name=name):
            return QuaToSM.convert(QuaMap.read_file(RSC / "qua" / f"{name}.qua"))
        ms = guarded(f"conv/qua/{name}", conv)
        if ms is not None:
            exercise(f"conv/qua/{name}", ms, generations=1)
    for name in ["searoad.bml", "nhelv.bme"]:
        def conv(name=name):
            return BMSToSM.convert(BMSMap.read_file(RSC / "bms" / name))
        ms = guarded(f"conv/bms/{name}", conv)
        if ms is not None:
            exercise(f"conv/bms/{name}", ms, generations=1)

    def conv_o2j():
        return O2JToSM.convert(O2JMapSet.read_file(RSC / "o2jam" / "o2ma178.ojn"))
    mss = guarded("conv/o2j", conv_o2j)
    if mss is not None:
        for i, ms in enumerate(mss if isinstance(mss, list) else [mss]):
            exercise(f"conv/o2j/{i}", ms, generations=1)


# --------------------------------------------------------------------------
# direct calls of the timing layer
# --------------------------------------------------------------------------
def dump_array(tag, a):
    emit(tag, type(a).__name__, getattr(a, "dtype", None), getattr(a, "shape", None),
         [dump_value(v) for v in list(a)])


def section_timing():
    rng = random.Random(777)
    snapper = Snapper()
    emit("snapper", [dump_value(v) for v in snapper.val[:50]],
         len(snapper.val), snapper.val.dtype, snapper.num.dtype, snapper.den.dtype)
    for v in [0, 0.0, 0.5, 0.3333, 1 / 3, 0.99999, 1.0, 3.25, 17.010416,
              1e-9, 2.5000001, 95 / 96, 1 / 96 / 2, np.float64(0.75), 7]:
        guarded(f"snap/{v!r}", lambda v=v: emit("snap", repr(v),
                                                dump_value(snapper.snap(v))))
    for divs in [(1, 2, 4), (1, 3), (4,), (1, 2, 3, 4, 6, 8, 12, 16)]:
        s = Snapper(divs)
        emit("snapper", divs, [dump_value(v) for v in s.val],
             [dump_value(v) for v in s.num], [dump_value(v) for v in s.den])
        for v in [0, 0.3, 0.49, 0.5, 0.74, 0.9, 5.126]:
            emit("snap", divs, v, dump_value(s.snap(v)))

    for case in range(40):
        tempo = gen_tempo(rng, case % 2 == 0, 1 + case % 5)
        metronomes = [rng.choice([4, 4, 4, 3, 5]) if case % 4 == 3 else 4
                      for _ in tempo.changes]
        bpms = SMBpmList([SMBpm(o, bpm, mt) for o, (_, bpm), mt in
                          zip(tempo.offsets, tempo.changes, metronomes)])
        tm = guarded(f"tm{case}/to_timing_map", bpms.to_timing_map)
        if tm is None:
            continue
        emit(f"tm{case}", "bco", repr(tm.bpm_changes_offset))
        guarded(f"tm{case}/bcs", lambda: emit(f"tm{case}", "bcs",
                                              repr(tm.bpm_changes_snap())))
        dump_df(f"tm{case}/bpms-after", bpms.df)
        last = tempo.changes[-1][0]
        beats = gen_beats(rng, [0, 1, 2, 5, 30][case % 5], 0, int(last) + 9,
                          [1, 2, 3, 4, 6, 8, 12, 16, 5, 7, 96])
        offs = [tempo.offset_of(b) for b in beats]
        variants = {
            "list": list(offs),
            "sorted": sorted(offs),
            "reversed": sorted(offs, reverse=True),
            "dup": list(offs) + list(offs[:3]),
            "array": np.array(offs, dtype=float),
            "series": pd.Series(offs, dtype=float),
            "tuple": tuple(offs),
            "bpm-points": list(tempo.offsets),
            "bpm-series": bpms.offset,
            "jitter": [o + rng.choice([-0.4, 0.3, 0.01]) for o in offs],
            "empty": [],
            "empty-array": np.array([]),
            "before-first": [tempo.offsets[0] - 1000.0] + list(offs),
            "ints": [int(o) for o in offs],
        }
        for vname, v in variants.items():
            before = repr(v)
            for mname in ("beats", "snaps"):
                tag = f"tm{case}/{mname}/{vname}"
                res = guarded(tag, lambda: getattr(tm, mname)(v, snapper))
                if res is not None:
                    dump_array(tag, res)
                    if mname == "snaps" and len(res):
                        r2 = guarded(tag + "/offsets", lambda: tm.offsets(list(res)))
                        if r2 is not None:
                            dump_array(tag + "/offsets", r2)
            emit(f"tm{case}/{vname}", "input-unchanged", before == repr(v))
        # beats with another snapper
        res = guarded(f"tm{case}/beats/coarse",
                      lambda: tm.beats(offs, Snapper((1, 2, 4))))
        if res is not None:
            dump_array(f"tm{case}/beats/coarse", res)


def main():
    random.seed(12345)
    np.random.seed(12345)
    section_timing()
    section_edge()
    section_generated()
    section_files()
    section_convert()
    text = "\n".join(OUT)
    print(f"records={STATS['records']} exceptions={STATS['exceptions']} "
          f"bytes={len(text)}", file=sys.stderr)
    print("DIGEST " + hashlib.sha256(text.encode("utf8")).hexdigest())


if __name__ == "__main__":
    main()
