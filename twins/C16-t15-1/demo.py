"""Demonstration for C16 / k=1: TimedList.append.

Exercises ``append`` through the public list classes of every game on a few
hundred generated inputs and prints ONE sha256 digest over a canonical text of
every result (class, columns, dtypes, row labels, cell values with their
python types), every exception type, every warning raised and the state of the
inputs (receiver and argument) after the call.

Run as:  cd <worktree> && PYTHONPATH=<worktree> /venv/bin/python demo.py
"""
import hashlib
import random
import sys
import warnings

import numpy as np
import pandas as pd

import reamber
from reamber.base.lists.TimedList import TimedList
from reamber.base.lists.BpmList import BpmList
from reamber.base.lists.notes.NoteList import NoteList
from reamber.base.lists.notes.HitList import HitList
from reamber.base.lists.notes.HoldList import HoldList
from reamber.osu.lists.OsuBpmList import OsuBpmList
from reamber.osu.lists.OsuSvList import OsuSvList
from reamber.osu.lists.OsuSampleList import OsuSampleList
from reamber.osu.lists.notes.OsuHitList import OsuHitList
from reamber.osu.lists.notes.OsuHoldList import OsuHoldList
from reamber.quaver.lists.QuaBpmList import QuaBpmList
from reamber.quaver.lists.QuaSvList import QuaSvList
from reamber.quaver.lists.notes.QuaHitList import QuaHitList
from reamber.quaver.lists.notes.QuaHoldList import QuaHoldList
from reamber.sm.lists.SMBpmList import SMBpmList
from reamber.sm.lists.SMStopList import SMStopList
from reamber.sm.lists.notes.SMHitList import SMHitList
from reamber.sm.lists.notes.SMHoldList import SMHoldList
from reamber.sm.lists.notes.SMRollList import SMRollList
from reamber.sm.lists.notes.SMMineList import SMMineList
from reamber.bms.lists.BMSBpmList import BMSBpmList
from reamber.bms.lists.notes.BMSHitList import BMSHitList
from reamber.bms.lists.notes.BMSHoldList import BMSHoldList
from reamber.o2jam.lists.O2JBpmList import O2JBpmList
from reamber.o2jam.lists.notes.O2JHitList import O2JHitList
from reamber.o2jam.lists.notes.O2JHoldList import O2JHoldList

print("reamber from:", reamber.__file__, file=sys.stderr)

CLASSES = [
    TimedList, BpmList, NoteList, HitList, HoldList,
    OsuBpmList, OsuSvList, OsuSampleList, OsuHitList, OsuHoldList,
    QuaBpmList, QuaSvList, QuaHitList, QuaHoldList,
    SMBpmList, SMStopList, SMHitList, SMHoldList, SMRollList, SMMineList,
    BMSBpmList, BMSHitList, BMSHoldList,
    O2JBpmList, O2JHitList, O2JHoldList,
]

rng = random.Random(1601)
OUT = []


def emit(*parts):
    OUT.append(" | ".join(str(p) for p in parts))


def cell(v):
    return f"{type(v).__name__}:{v!r}"


def canon_df(df):
    if not isinstance(df, pd.DataFrame):
        return f"<{type(df).__name__}:{df!r}>"
    lines = [
        "cols=" + repr([cell(c) for c in df.columns]),
        "dtypes=" + repr([str(t) for t in df.dtypes]),
        "index=" + type(df.index).__name__ + repr([cell(i) for i in df.index]),
    ]
    for pos in range(len(df)):
        lines.append(repr([cell(df.iloc[pos, j]) for j in range(df.shape[1])]))
    return "\n".join(lines)


def canon(v):
    if isinstance(v, TimedList):
        return f"{type(v).__name__}\n" + canon_df(v.df)
    if isinstance(v, pd.DataFrame):
        return "DataFrame\n" + canon_df(v)
    if isinstance(v, pd.Series):
        return (
            f"pd.Series name={v.name!r} dtype={v.dtype} "
            f"index={[cell(i) for i in v.index]} values={[cell(x) for x in v]}"
        )
    if hasattr(v, "data") and isinstance(getattr(v, "data"), pd.Series):
        return f"{type(v).__name__} item " + canon(v.data)
    if isinstance(v, list):
        return "list[" + ", ".join(canon(x) for x in v) + "]"
    return cell(v)


def rand_offset():
    kind = rng.randrange(6)
    if kind == 0:
        return float(rng.randrange(-3, 4) * 500)  # collisions / duplicates
    if kind == 1:
        return -rng.random() * 1000.0
    if kind == 2:
        return rng.randrange(0, 10) + 0.5
    if kind == 3:
        return 0.0
    return round(rng.uniform(-2000, 8000), 3)


def rand_value(col, dtype):
    if col == "offset":
        return rand_offset()
    if col == "length":
        return rng.choice([0.0, 0.0, 250.0, 0.25, 1000.0, -100.0, rand_offset()])
    if col == "column":
        return rng.randrange(0, 10)  # key counts other than 4
    if col == "keysounds":
        return [rng.randrange(5) for _ in range(rng.randrange(3))]
    if dtype == "bool":
        return bool(rng.randrange(2))
    if dtype.startswith("int"):
        return rng.randrange(0, 100)
    if dtype.startswith("float"):
        return rng.choice([1.0, 4.0, 0.5, 120.0, 222.22, -1.0])
    if col == "sample":
        return rng.choice([b"", b"a.wav", b"kick.ogg"])
    return rng.choice(["", "a.wav", "hit.ogg", "x y.wav"])


def make_list(cls, n):
    """A list of ``cls`` with ``n`` generated rows (declared columns / dtypes)."""
    lst = cls.empty(n)
    df = lst.df
    for col in list(df.columns):
        dtype = str(df[col].dtype)
        vals = [rand_value(col, dtype) for _ in range(n)]
        if dtype == "object":
            df[col] = pd.Series(vals, dtype=object, index=df.index)
        else:
            df[col] = pd.Series(vals, dtype=dtype, index=df.index)
    return cls(df)


def perturb(lst):
    """Brings the list into a 'used' state: unsorted / filtered / re-labelled."""
    kind = rng.randrange(6)
    if kind == 0 or len(lst) == 0:
        return lst
    if kind == 1:
        return lst.sorted(reverse=True)  # row labels permuted
    if kind == 2:
        return lst.after(lst.offset.median(), include_end=True)  # labels with gaps
    if kind == 3:
        return lst.sorted().before(lst.offset.max(), include_end=False)
    if kind == 4:
        return lst[::-2]
    return lst[lst.offset >= lst.offset.min()]


def make_arg(cls, other_cls, kind):
    if kind == "item":
        base = make_list(cls, rng.randrange(1, 5))
        src = perturb(base)
        if len(src) == 0:
            src = base
        return src[rng.randrange(len(src))]
    if kind == "pd_series":
        src = make_list(cls, rng.randrange(1, 5))
        return src[rng.randrange(len(src))].data
    if kind == "named_series":
        src = make_list(cls, 3)
        s = src[1].data.copy()
        s.name = rng.choice(["row", 7, -1])
        return s
    if kind == "partial_series":
        return pd.Series({"offset": rand_offset()})
    if kind == "list_same":
        return perturb(make_list(cls, rng.randrange(0, 6)))
    if kind == "list_empty":
        return cls([])
    if kind == "list_other":
        return perturb(make_list(other_cls, rng.randrange(1, 4)))
    if kind == "frame":
        return perturb(make_list(cls, rng.randrange(1, 5))).df
    if kind == "frame_empty":
        return make_list(cls, 3).df[:0]
    if kind == "int":
        return 5
    if kind == "none":
        return None
    if kind == "pylist":
        src = make_list(cls, 2)
        return [src[0], src[1]]
    if kind == "str":
        return "abc"
    raise AssertionError(kind)


ARG_KINDS = [
    "item", "pd_series", "named_series", "partial_series", "list_same",
    "list_empty", "list_other", "frame", "frame_empty", "int", "none",
    "pylist", "str",
]
SORTS = [False, True, 0, 1, None, "yes"]


def one_case(case_id, cls, other_cls, arg_kind, n_rows, sort, use_default_sort):
    recv = perturb(make_list(cls, n_rows))
    arg = make_arg(cls, other_cls, arg_kind)
    recv_df_id = id(recv.df)
    before_recv, before_arg = canon(recv), canon(arg)
    emit("CASE", case_id, cls.__name__, arg_kind, n_rows, repr(sort), use_default_sort)
    with warnings.catch_warnings(record=True) as caught:
        warnings.simplefilter("always")
        try:
            if use_default_sort:
                res = recv.append(arg)
            else:
                res = recv.append(arg, sort=sort)
            emit("RESULT", canon(res))
            emit("FRESH", res is not recv, res.df is not recv.df)
            # the result keeps behaving like a sequence of its rows
            emit("LEN", len(res), [canon(x) for x in res][:3])
            if len(res):
                emit("FIRSTLAST", canon(res[0]), canon(res[-1]),
                     cell(res.first_offset()), cell(res.last_offset()))
            # ... and a second append on top of it (operation sequences)
            res2 = res.append(arg, sort=not bool(sort)).append(res[0:1])
            emit("RESULT2", canon(res2))
        except Exception as e:  # noqa
            emit("EXC", type(e).__name__)
    emit("WARN", sorted((w.category.__name__, str(w.message)) for w in caught))
    emit("RECV_SAME", canon(recv) == before_recv, id(recv.df) == recv_df_id)
    emit("ARG_SAME", canon(arg) == before_arg)
    emit("RECV_AFTER", canon(recv))
    emit("ARG_AFTER", canon(arg))


def main():
    case_id = 0
    # systematic part: every class x every kind of argument
    for ci, cls in enumerate(CLASSES):
        other_cls = CLASSES[(ci + 7) % len(CLASSES)]
        for ki, kind in enumerate(ARG_KINDS):
            n_rows = [0, 1, 4, 7][(ci + ki) % 4]
            sort = SORTS[(ci + ki) % len(SORTS)]
            one_case(case_id, cls, other_cls, kind, n_rows, sort, (ci + ki) % 5 == 0)
            case_id += 1
    # random part
    for _ in range(150):
        cls = rng.choice(CLASSES)
        other_cls = rng.choice(CLASSES)
        one_case(case_id, cls, other_cls, rng.choice(ARG_KINDS),
                 rng.randrange(0, 9), rng.choice(SORTS), rng.random() < 0.2)
        case_id += 1
    print("cases:", case_id, "lines:", len(OUT), file=sys.stderr)
    text = "\n".join(OUT)
    print(hashlib.sha256(text.encode("utf-8", "backslashreplace")).hexdigest())


if __name__ == "__main__":
    main()
