"""F32–F35 (C06), pointed out by the round-4 seeding agent for C06 (HEAD_DEFECTS) and then decided by new rules:
  F32  C06.R5   a document that omits a whole section (SliderVelocities / TimingPoints / HitObjects) raises KeyError
  F33  C06.R10  optional per-note keys the model has no field for (HitSound, EditorLayer) become NaN columns: '.nan' is written
  F34  C06.R12  InitialScrollVelocity defaults to '' (declared float): every chart built in memory or converted writes a string
  F35  C06.R11  'Tags: 2020' / 'Tags:' crash the reader (str method on a raw YAML scalar)
Run:  cd /repo && /venv/bin/python /verif/triage/probes/F32_F35_qua_reader_defaults.py
"""
import warnings, yaml
warnings.simplefilter("ignore")
from reamber.quaver.QuaMap import QuaMap

BASE = "Mode: Keys4\nTimingPoints: []\nSliderVelocities: []\nHitObjects: []\n"
bad = []

def attempt(name, fn):
    try:
        r = fn()
        if r is not True:
            bad.append(name); print("FAIL", name, "->", r)
        else:
            print("ok  ", name)
    except Exception as e:  # noqa: BLE001
        bad.append(name); print("FAIL", name, "->", repr(e))

attempt("F32 omitted SliderVelocities", lambda: len(QuaMap.read("Mode: Keys4\nTimingPoints: []\nHitObjects: []\n").svs) == 0)
attempt("F32 omitted HitObjects", lambda: len(QuaMap.read("Mode: Keys4\nTimingPoints: []\nSliderVelocities: []\n").hits) == 0)
attempt("F32 null TimingPoints", lambda: len(QuaMap.read("Mode: Keys4\nTimingPoints:\nSliderVelocities: []\nHitObjects: []\n").bpms) == 0)

def f33():
    doc = ("Mode: Keys4\nTimingPoints: []\nSliderVelocities: []\nHitObjects:\n"
           "- {StartTime: 5, Lane: 1, HitSound: Clap}\n- {StartTime: 100, Lane: 2, EditorLayer: 1}\n"
           "- {StartTime: 5, Lane: 3, EndTime: 50, HitSound: Clap}\n- {StartTime: 100, Lane: 4, EndTime: 150}\n")
    out = yaml.safe_load(QuaMap.read(doc).write())
    vals = [v for o in out["HitObjects"] for v in o.values()]
    return True if not any(isinstance(v, float) and v != v for v in vals) else f"NaN written: {out['HitObjects']}"
attempt("F33 optional note keys", f33)
attempt("F34 InitialScrollVelocity default", lambda: True if isinstance(yaml.safe_load(QuaMap().write())["InitialScrollVelocity"], (int, float))
        else repr(yaml.safe_load(QuaMap().write())["InitialScrollVelocity"]))
attempt("F35 Tags: 2020", lambda: QuaMap.read("Tags: 2020\n" + BASE).tags == ["2020"])
attempt("F35 Tags: (null)", lambda: QuaMap.read("Tags:\n" + BASE).tags == [])
attempt("F35 Tags: a b", lambda: QuaMap.read("Tags: a b\n" + BASE).tags == ["a", "b"])
assert not bad, bad
print("ok")
