"""C13 — rate change scales time uniformly, composes, and survives a write (DESIGN §5 C13)."""
from __future__ import annotations

import ast
from typing import Dict, List, Optional, Tuple

from ..model import AnalysisError, walk_no_nested, params_of, MAP, MAPSET
from .. import report as R
from ..report import RuleSpec
from .. import codec as C
from .. import cmp as P
from .common import fn_loc, short, unparse, returns_of, attr_chain, concrete_classes, inline_locals
from . import rate_model as RM

RATES = ["reamber.base.Map.Map.rate", "reamber.base.MapSet.MapSet.rate", "reamber.osu.OsuMap.OsuMap.rate",
         "reamber.sm.SMMapSet.SMMapSet.rate"]
SM_META = "reamber.sm.SMMapSetMeta.SMMapSetMeta"


def _by(fn) -> str:
    ps = [p for p in params_of(fn.node) if p != "self"]
    if len(ps) != 1:
        raise AnalysisError(f"{fn.qual}: expected exactly one rate parameter")
    return ps[0]


def _rate_methods(ctx) -> Dict[str, List[str]]:
    """resolved rate method -> concrete classes that run it"""
    M = ctx.M
    out: Dict[str, List[str]] = {}
    for kind in ("chart", "mapset"):
        for c in concrete_classes(M, kind):
            m = M.method(c, "rate")
            if m is None:
                raise AnalysisError(f"{c} has no rate()")
            out.setdefault(m, []).append(c)
    return out


def rule_r1(ctx) -> List[R.Inst]:
    M, E = ctx.M, ctx.E
    insts = []
    for q, classes in sorted(_rate_methods(ctx).items()):
        fn = M.fn(q)
        file, line = fn_loc(M, q)
        s = E.summary(q)
        key = short(q)
        if s.mut:
            (p, f), sites = sorted(s.mut.items())[0]
            st = sites[0]
            insts.append(R.viol("C13.R1", key, file, st.line,
                                f"rate modifies its input '{p}' instead of a copy: {st.text} {('(' + st.via + ')') if st.via else ''}",
                                construct=st.text))
        elif s.ret.all():
            insts.append(R.viol("C13.R1", key, file, line,
                                "the returned chart shares storage with the input", construct=f"{key} returns alias"))
        else:
            insts.append(R.ok("C13.R1", key, file, line, idiom="every write is rooted in a deep copy; the copy is returned"))
    return insts


WANT = {"offset": "div", "length": "div", "bpm": "mul"}


def rule_r2(ctx) -> List[R.Inst]:
    M = ctx.M
    insts = []
    for chart in concrete_classes(M, "chart"):
        sc = RM.effective(ctx, chart)
        q = M.method(chart, "rate")
        file, line = fn_loc(M, q)
        cname = chart.rsplit(".", 1)[1]
        for n, where in sc.rebinds_by:
            insts.append(R.viol("C13.R2", f"{cname}:rate-parameter", file, n.lineno,
                                f"the rate parameter is modified before / between the scalings (in {where})", construct=unparse(n)))
        if sc.undecided:
            # an unmodelled statement that uses the rate may be the scaling itself: no verdict on this class
            insts.append(R.undec("C13.R2", f"{cname}:model", file, line, "; ".join(sorted(set(sc.undecided)))[:300]))
            continue
        slots = M.map_slots(chart)
        for col, want in WANT.items():
            key = f"{cname}:{col}"
            bad, good, node = [], 0, None
            for slot, lc in sorted(slots.items()):
                if col not in M.list_columns(lc):
                    continue
                ops = [(g, op, nd, wh) for (g, c, op, nd, wh) in sc.list_ops
                       if c in (col, "*") and (g is None or any(M.is_sub(lc, b) for b in g))]
                if len(ops) == 1 and ops[0][1] == want:
                    good += 1
                    node = ops[0][2]
                elif not ops:
                    bad.append(f"{slot} ({lc.rsplit('.', 1)[1]}) is never scaled")
                else:
                    node = ops[0][2]
                    bad.append(f"{slot} is scaled as {[o[1] for o in ops]}")
            if bad:
                insts.append(R.viol("C13.R2", key, file, getattr(node, "lineno", line),
                                    f"'{col}' must be {'divided' if want == 'div' else 'multiplied'} by the unmodified rate exactly once in "
                                    f"every list that has it; in {cname}: " + "; ".join(bad),
                                    construct=f"{cname}.{col}: " + "; ".join(bad)))
            elif good:
                insts.append(R.ok("C13.R2", key, file, getattr(node, "lineno", line),
                                  idiom=f"{col} {'/' if want == 'div' else '*'}= rate in all {good} list(s) declaring it"))
        others = sorted({c for (g, c, op, nd, wh) in sc.list_ops if c not in WANT and c != "*"})
        for c in others:
            nd = [x for x in sc.list_ops if x[1] == c][0][3]
            insts.append(R.viol("C13.R2", f"{cname}:{c}", file, nd.lineno,
                                f"rate also rewrites '{c}', which is neither a time nor a tempo", construct=unparse(nd)))
    return insts


def rule_r3(ctx) -> List[R.Inst]:
    M = ctx.M
    insts = []
    for ms in concrete_classes(M, "mapset"):
        sc = RM.effective(ctx, ms)
        q = M.method(ms, "rate")
        file, line = fn_loc(M, q)
        key = ms.rsplit(".", 1)[1]
        if sc.per_chart:
            insts.append(R.ok("C13.R3", key, file, line, idiom=sc.per_chart_why))
        elif sc.per_chart is None and sc.per_chart_unknown:
            insts.append(R.undec("C13.R3", key, file, line, f"charts are rated in a statement whose result is not followed to the returned "
                                                            f"set: {sc.per_chart_unknown}"))
        else:
            insts.append(R.viol("C13.R3", key, file, line,
                                sc.per_chart_why or "the effective rate() of this mapset class does not rate every chart",
                                construct=f"{key}: {sc.per_chart_why or 'no per-chart rate'}"))
    return insts


def sm_time_fields(ctx) -> List[str]:
    """SM header fields whose reader chain converts seconds to milliseconds."""
    M = ctx.M
    fn = M.fn(SM_META + "._read_metadata")
    out = []
    for n in walk_no_nested(fn.node):
        if isinstance(n, ast.Assign) and C.self_attr(n.targets[0]) and any(
                isinstance(x, ast.Attribute) and x.attr == "sec_to_msec" for x in ast.walk(n.value)):
            out.append(C.self_attr(n.targets[0]))
    return out


_NODEFAULT = object()


def _declared_default(ctx, cls: str, field: str):
    """literal default of a dataclass field anywhere in the MRO of cls (dotted paths like samples.offset have none)"""
    M = ctx.M
    if "." in field:
        return _NODEFAULT
    for k in M.mro(cls):
        if k not in M.classes:
            continue
        for st in M.classes[k].node.body:
            if isinstance(st, ast.AnnAssign) and isinstance(st.target, ast.Name) and st.target.id == field and st.value is not None:
                try:
                    return ast.literal_eval(st.value)
                except Exception:
                    return _NODEFAULT
    return _NODEFAULT


def _guard_truth(t: ast.AST, field: str, value):
    """truth of a guard at `<x>.field == value`: comparisons of the field with literals, `is (not) None`, bare truthiness, not / and / or;
    None when the test consults anything else"""
    import operator as op
    ops = {ast.Lt: op.lt, ast.LtE: op.le, ast.Gt: op.gt, ast.GtE: op.ge, ast.Eq: op.eq, ast.NotEq: op.ne, ast.Is: op.is_, ast.IsNot: op.is_not}
    unset = object()

    def val(e):
        if isinstance(e, ast.Attribute) and unparse(e).split(".", 1)[-1] == field:
            return value
        try:
            return ast.literal_eval(e)
        except Exception:
            return unset

    def go(e):
        if isinstance(e, ast.UnaryOp) and isinstance(e.op, ast.Not):
            r = go(e.operand)
            return None if r is None else not r
        if isinstance(e, ast.BoolOp):
            rs = [go(v) for v in e.values]
            if any(r is None for r in rs):
                return None
            return all(rs) if isinstance(e.op, ast.And) else any(rs)
        if isinstance(e, ast.Compare):
            vs = [val(x) for x in [e.left] + e.comparators]
            if any(v is unset for v in vs) or any(type(o) not in ops for o in e.ops):
                return None
            try:
                return all(ops[type(o)](a, b) for o, a, b in zip(e.ops, vs, vs[1:]))
            except TypeError:                      # None < 0: the guard itself raises at the sentinel — it does not stop it
                return True
        v = val(e)
        return None if v is unset else bool(v)
    return go(t)


def rule_r4(ctx) -> List[R.Inst]:
    M = ctx.M
    insts = []
    fields = sm_time_fields(ctx)
    if len(fields) < 3:
        raise AnalysisError(f"SM header time fields derived from the reader: {fields} (expected offset, sample_start, sample_length)")
    for cls, flds in (("reamber.osu.OsuMap.OsuMap", ["preview_time", "samples.offset"]),
                      ("reamber.sm.SMMapSet.SMMapSet", fields)):
        sc = RM.effective(ctx, cls)
        q = M.method(cls, "rate")
        file, line = fn_loc(M, q)
        cname = cls.rsplit(".", 1)[1]
        for f in flds:
            key = f"{cname}.rate:{f}"
            got = sc.field_ops.get(f)
            if got and got[0] == "div":
                gfile = M.mods[M.fn("reamber." + got[2]).mod].rel if ("reamber." + got[2]) in M.funcs else file
                insts.append(R.ok("C13.R4", key, gfile, got[1].lineno, idiom=f"{f} /= rate (in {got[2]})"))
                # a field whose declared default is a sentinel (-1 = "no preview point", None = "not set") is not a time while it
                # holds the sentinel: the scaling must be guarded, or 'unset' becomes a real time (-1 / 2 = -0.5, written as 0)
                dv = _declared_default(ctx, cls, f)
                if dv is not _NODEFAULT and (dv is None or (isinstance(dv, (int, float)) and not isinstance(dv, bool) and dv < 0)):
                    guarded = f in getattr(sc, "guarded", set())      # (a None-guard inside dataclasses.replace(..): rate_model)
                    wrong = None
                    if ("reamber." + got[2]) in M.funcs:
                        tree_ = getattr(sc, "nodes", {}).get(got[2]) or M.nfn("reamber." + got[2]).node      # (the tree the model interpreted)
                        for n in ast.walk(tree_):
                            if isinstance(n, ast.If) and any(x is got[1] for b in n.body for x in ast.walk(b)):
                                t = inline_locals(tree_, n.test, kinds=(ast.Compare, ast.BoolOp, ast.Attribute))
                                if f not in unparse(t):
                                    continue
                                # the guard is a comparison of the field with constants: its truth at the sentinel and at real times
                                # (finite table over the orderings; A7).  It must let every real time through and stop the sentinel.
                                real = [1, 10 ** 9] if dv is not None else [-5.0, 5.0]
                                at_s = _guard_truth(t, f, dv)
                                at_r = [_guard_truth(t, f, v) for v in real]
                                if at_s is None or any(a is None for a in at_r):
                                    raise AnalysisError(f"C13.R4: the guard '{unparse(n.test)[:80]}' around the scaling of {cname}.{f} is not a "
                                                        f"comparison of the field with constants: whether it separates {dv!r} from real times is not decided")
                                if at_s or not all(at_r):
                                    wrong = (n, at_s, [v for v, a in zip(real, at_r) if not a])
                                else:
                                    guarded = True
                    k2 = f"{cname}.rate:{f}:sentinel"
                    if wrong is not None:
                        n, at_s, missed = wrong
                        insts.append(R.viol("C13.R4", k2, gfile, n.lineno,
                                            f"'{f}' is divided by the rate under the guard '{unparse(n.test)[:80]}', which "
                                            + (f"lets the 'not set' value {dv!r} through" if at_s else "")
                                            + (" and " if at_s and missed else "")
                                            + (f"stops real times such as {missed[0]!r}: a set {f} keeps its old value while every note moves" if missed else ""),
                                            construct=f"{cname}.{f} /= rate under a guard of the wrong polarity"))
                    elif guarded:
                        insts.append(R.ok("C13.R4", k2, gfile, got[1].lineno, idiom=f"scaled only when it is not the sentinel {dv!r}"))
                    else:
                        insts.append(R.viol("C13.R4", k2, gfile, got[1].lineno,
                                            f"'{f}' defaults to {dv!r} — the format's value for 'not set' — and is divided by the rate "
                                            f"unconditionally: an unset {f} becomes {dv!r}/r (-0.5 for r = 2), the writer's int() turns that into "
                                            f"0, and the chart read back has a real {f} at 0 ms",
                                            construct=f"{cname}.{f} /= rate without a sentinel guard"))
            elif any(f.split(".")[-1] in u for u in sc.undecided):
                insts.append(R.undec("C13.R4", key, file, line, f"a statement that mentions '{f.split('.')[-1]}' and the rate is not modelled: "
                                                                f"{[u for u in sc.undecided if f.split('.')[-1] in u][0][:120]}"))
            else:
                chain = " -> ".join(short(m) for m in sc.methods)
                insts.append(R.viol("C13.R4", key, file, line,
                                    f"file-level time '{f}' is not divided by the rate in the code that actually runs for {cname} "
                                    f"({chain}): the written file no longer matches the rated chart",
                                    construct=f"{cname}.rate leaves {f}" + (": " + unparse(got[1]) if got else "")))
    return insts


def rule_dep(ctx):
    """obligations inherited from shared code reached through the call graph (sa/props/deps.py)"""
    from .deps import dep_insts
    return dep_insts(ctx, "C13", ["reamber.base.Map.Map.rate", "reamber.base.MapSet.MapSet.rate", "reamber.osu.OsuMap.OsuMap.rate", "reamber.sm.SMMapSet.SMMapSet.rate",
                                    # "writing the rated chart and reading it back gives the rated timeline": the file rules
                                    # of every writable game are obligations of this property too
                                    "reamber.osu.OsuMap.OsuMap.write", "reamber.quaver.QuaMap.QuaMap.write",
                                    "reamber.sm.SMMapSet.SMMapSet.write", "reamber.bms.BMSMap.BMSMap.write",
                                    "reamber.osu.OsuMap.OsuMap.read", "reamber.quaver.QuaMap.QuaMap.read",
                                    "reamber.sm.SMMapSet.SMMapSet.read", "reamber.bms.BMSMap.BMSMap.read"], skip_groups=())


SPECS = [
    RuleSpec("C13.R1", rule_r1, 4, "A3", "copy first: every mutation is rooted in a deep copy, the copy is returned"),
    RuleSpec("C13.R2", rule_r2, 18, "A7", "operator table: offset/length divided, bpm multiplied by the unmodified rate, on all lists"),
    RuleSpec("C13.R3", rule_r3, 3, "A8", "per-chart propagation with the same rate; overrides call the base"),
    RuleSpec("C13.R4", rule_r4, 5, "A1", "file-level time fields of osu and StepMania scale with the rate; a sentinel guard lets every real time through and stops the sentinel"),
    RuleSpec("C13.D", rule_dep, 1, "M0", "rules of the shared code (timing engine, list classes, stacker) that the operations of this property reach"),
]

META = dict(
    explanation=(
        "Rate change: the four rate functions mutate only a deep copy and return it (A3); Map.rate applies exactly the "
        "operator table {offset / by, length / by, bpm * by} through a stack over all lists with the unmodified "
        "parameter (so rate 1 is the identity and rate a then b equals a*b up to float rounding); MapSet.rate rates "
        "every chart with the same value and the overrides call the base; every file-level time field (osu preview "
        "and sample events; the StepMania header fields whose reader converts seconds to milliseconds) is divided by "
        "the rate."),
    not_decided="float rounding of composition",
)
