"""Demonstration for C06 / k=2: QuaHoldList.from_yaml and QuaHoldList.to_yaml
(also reached via QuaMap.read() / QuaMap.write()).

Prints ONE line: sha256 over a canonical text of all results, their types/dtypes,
exception types, and the state of the inputs afterwards.
Run:  cd /tmp/r15/C06 && PYTHONPATH=/tmp/r15/C06 /venv/bin/python demo.py
"""
import copy
import hashlib
import sys
import warnings

import numpy as np
import pandas as pd

import reamber
from reamber.quaver.QuaHit import QuaHit
from reamber.quaver.QuaHold import QuaHold
from reamber.quaver.QuaBpm import QuaBpm
from reamber.quaver.QuaSv import QuaSv
from reamber.quaver.QuaMap import QuaMap
from reamber.quaver.lists.notes.QuaHitList import QuaHitList
from reamber.quaver.lists.notes.QuaHoldList import QuaHoldList
from reamber.quaver.lists.QuaBpmList import QuaBpmList
from reamber.quaver.lists.QuaSvList import QuaSvList
from reamber.osu.OsuMap import OsuMap
from reamber.osu.OsuHit import OsuHit
from reamber.osu.OsuHold import OsuHold
from reamber.osu.OsuBpm import OsuBpm
from reamber.osu.lists.notes.OsuHitList import OsuHitList
from reamber.osu.lists.notes.OsuHoldList import OsuHoldList
from reamber.osu.lists.OsuBpmList import OsuBpmList
from reamber.sm.SMMapSet import SMMapSet
from reamber.sm.SMMap import SMMap
from reamber.sm.SMHit import SMHit
from reamber.sm.SMHold import SMHold
from reamber.sm.SMBpm import SMBpm
from reamber.sm.lists.notes.SMHitList import SMHitList
from reamber.sm.lists.notes.SMHoldList import SMHoldList
from reamber.sm.lists.SMBpmList import SMBpmList
from reamber.algorithms.convert.OsuToQua import OsuToQua
from reamber.algorithms.convert.SMToQua import SMToQua

print(reamber.__file__, file=sys.stderr)
warnings.simplefilter("ignore")

RNG = np.random.RandomState(20260615)
OUT = []


def emit(*parts):
    OUT.append(" | ".join(str(p) for p in parts))


def canon_value(v):
    return f"{type(v).__module__}.{type(v).__name__}:{v!r}"


def canon_records(recs):
    lines = [f"{type(recs).__name__} len={len(recs)}"]
    for r in recs:
        lines.append(
            type(r).__name__
            + "{"
            + ", ".join(f"{k!r}->{canon_value(v)}" for k, v in r.items())
            + "}"
        )
    return "\n".join(lines)


def canon_df(df):
    return "\n".join(
        [
            f"cols={list(df.columns)!r}",
            f"dtypes={[str(d) for d in df.dtypes]!r}",
            f"index={type(df.index).__name__}:{list(df.index)!r}",
            "rows=" + repr([[canon_value(v) for v in row] for row in df.to_numpy(dtype=object).tolist()]),
        ]
    )


def run_list(name, hl):
    """Calls to_yaml on a QuaHitList; records result, exceptions, input state."""
    df_obj = hl.df
    before = canon_df(df_obj)
    cells_before = (
        [id(v) for v in df_obj["keysounds"]] if "keysounds" in df_obj.columns else []
    )
    try:
        recs = hl.to_yaml()
        emit(name, "result", canon_records(recs))
        # are the KeySounds cells the very objects stored in the list's frame?
        if "keysounds" in df_obj.columns:
            shared = [
                id(r.get("KeySounds")) == c for r, c in zip(recs, cells_before)
            ]
            emit(name, "shared_cells", shared)
        # a second call gives an equal, independent answer
        recs2 = hl.to_yaml()
        emit(name, "repeat_equal", canon_records(recs2) == canon_records(recs), recs2 is recs)
    except Exception as e:  # noqa
        emit(name, "raised", type(e).__module__ + "." + type(e).__name__)
    emit(name, "same_df_object", hl.df is df_obj)
    emit(name, "input_unchanged", canon_df(hl.df) == before)
    emit(name, "input_after", canon_df(hl.df))


def run_map(name, m):
    before = {k: canon_df(v.df) for k, v in m.objs.items()}
    try:
        text = m.write()
        emit(name, "write", type(text).__name__, text)
        back = QuaMap.read(text)
        emit(name, "reread_hits", canon_df(back.hits.df))
        emit(name, "reread_holds", canon_df(back.holds.df))
        emit(name, "rewrite_equal", back.write() == text)
    except Exception as e:  # noqa
        emit(name, "raised", type(e).__module__ + "." + type(e).__name__)
    after = {k: canon_df(v.df) for k, v in m.objs.items()}
    emit(name, "inputs_unchanged", after == before)


def rand_keysounds():
    n = RNG.randint(0, 3)
    return [f"s{RNG.randint(0, 9)}.wav" for _ in range(n)]


def rand_hits(n, keys, fractional=False, negative=False):
    offs = RNG.uniform(-5000 if negative else 0, 60000, n)
    if not fractional:
        offs = np.round(offs)
    return [
        QuaHit(offset=float(o), column=int(RNG.randint(0, keys)), keysounds=rand_keysounds())
        for o in offs
    ]


# ---------------------------------------------------------------- from_yaml
case = 0


def nm(label):
    global case
    case += 1
    return f"L{case:02d}:{label}"


def canon_obj(o):
    if isinstance(o, dict):
        return "{" + ", ".join(f"{k!r}: {canon_obj(v)}" for k, v in o.items()) + "}"
    if isinstance(o, list):
        return "[" + ", ".join(canon_obj(v) for v in o) + "]"
    return canon_value(o)


def run_from_yaml(name, dicts):
    snapshot = canon_obj(dicts)
    try:
        hl = QuaHoldList.from_yaml(dicts)
        emit(name, "type", type(hl).__module__, type(hl).__name__)
        emit(name, "df", canon_df(hl.df))
        # keysounds cells: the very list of the input dict, or a fresh one?
        shared = [
            isinstance(d, dict) and cell is d.get("KeySounds")
            for d, cell in zip(dicts, hl.df["keysounds"])
        ]
        emit(name, "shared_cells", shared)
        cells = list(hl.df["keysounds"])
        emit(name, "distinct_fresh_cells",
             len({id(c) for c in cells}) == len(cells))
        hl2 = QuaHoldList.from_yaml(dicts)
        emit(name, "repeat_equal", canon_df(hl2.df) == canon_df(hl.df), hl2.df is hl.df)
        # and straight back out
        try:
            emit(name, "back", canon_records(hl.to_yaml()))
        except Exception as e:  # noqa
            emit(name, "back_raised", type(e).__module__ + "." + type(e).__name__)
    except Exception as e:  # noqa
        emit(name, "raised", type(e).__module__ + "." + type(e).__name__, str(e))
    emit(name, "input_unchanged", canon_obj(dicts) == snapshot)


def rand_hold_dict(keys, p_start=0.8, p_ks=0.6, p_extra=0.2, fractional=False):
    d = {}
    start = RNG.uniform(-3000, 60000)
    ln = float(RNG.choice([0.0, RNG.uniform(0, 4000)]))
    if not fractional:
        start, ln = int(round(start)), int(round(ln))
    order = list(RNG.permutation(4))
    for o in order:
        if o == 0 and RNG.rand() < p_start:
            d["StartTime"] = start
        elif o == 1:
            d["Lane"] = int(RNG.randint(1, keys + 1))
        elif o == 2:
            d["EndTime"] = start + ln
        elif o == 3 and RNG.rand() < p_ks:
            d["KeySounds"] = rand_keysounds()
    if RNG.rand() < p_extra:
        d["EditorLayer"] = int(RNG.randint(0, 3))
    return d


run_from_yaml(nm("empty_list"), [])
run_from_yaml(nm("one_empty_dict"), [{}])
run_from_yaml(nm("single_full"), [dict(StartTime=1000, EndTime=1500, Lane=1, KeySounds=[])])
run_from_yaml(nm("single_no_start"), [dict(EndTime=1500, Lane=2)])
run_from_yaml(nm("zero_length"), [dict(StartTime=7, EndTime=7, Lane=2, KeySounds=["a"])])
run_from_yaml(nm("negative_length"), [dict(StartTime=70, EndTime=7, Lane=2)])
for keys in (1, 4, 5, 7, 8, 10):
    for frac in (False, True):
        run_from_yaml(nm(f"rand_keys{keys}_frac{frac}"),
                      [rand_hold_dict(keys, fractional=frac) for _ in range(RNG.randint(1, 8))])
run_from_yaml(nm("no_start_anywhere"),
              [rand_hold_dict(4, p_start=0.0) for _ in range(4)])
run_from_yaml(nm("no_keysounds_anywhere"),
              [rand_hold_dict(4, p_ks=0.0) for _ in range(4)])
run_from_yaml(nm("all_extras"),
              [rand_hold_dict(7, p_extra=1.0, fractional=True) for _ in range(5)])
run_from_yaml(nm("no_lane_anywhere"), [dict(StartTime=1, EndTime=2), dict(EndTime=5)])
run_from_yaml(nm("lane_sometimes"), [dict(StartTime=1, EndTime=2, Lane=3), dict(EndTime=5)])
run_from_yaml(nm("no_end_anywhere"), [dict(StartTime=1, Lane=2), dict(Lane=5)])
run_from_yaml(nm("no_end_no_lane"), [dict(StartTime=1)])
run_from_yaml(nm("end_sometimes"), [dict(StartTime=1, EndTime=9, Lane=3), dict(StartTime=4, Lane=1)])
run_from_yaml(nm("null_values"), [dict(StartTime=None, EndTime=10, Lane=1, KeySounds=None),
                                  dict(StartTime=5, EndTime=None, Lane=None, KeySounds=["z"])])
run_from_yaml(nm("all_null_start"), [dict(StartTime=None, EndTime=10, Lane=1),
                                     dict(StartTime=None, EndTime=20, Lane=2)])
run_from_yaml(nm("all_null_end"), [dict(StartTime=3, EndTime=None, Lane=1)])
run_from_yaml(nm("float_mixed_int"), [dict(StartTime=1.5, EndTime=10, Lane=1),
                                      dict(StartTime=2, EndTime=20.25, Lane=2)])
run_from_yaml(nm("string_times"), [dict(StartTime="1", EndTime="5", Lane=1)])
run_from_yaml(nm("string_end_only"), [dict(StartTime=1, EndTime="5", Lane=1)])
run_from_yaml(nm("string_lane"), [dict(StartTime=1, EndTime=5, Lane="2")])
run_from_yaml(nm("bool_values"), [dict(StartTime=True, EndTime=5, Lane=True)])
run_from_yaml(nm("keysounds_not_list"), [dict(StartTime=1, EndTime=5, Lane=1, KeySounds="a.wav"),
                                         dict(StartTime=1, EndTime=5, Lane=1, KeySounds=dict(Sample=1)),
                                         dict(StartTime=1, EndTime=5, Lane=1, KeySounds=("t",)),
                                         dict(StartTime=1, EndTime=5, Lane=1, KeySounds=[dict(Sample=2, Volume=30)])])
run_from_yaml(nm("prop_named_key_offset"), [dict(StartTime=1, EndTime=5, Lane=1, offset=99)])
run_from_yaml(nm("prop_named_key_column"), [dict(StartTime=1, EndTime=5, Lane=1, column=99)])
run_from_yaml(nm("prop_named_key_length"), [dict(StartTime=1, EndTime=5, Lane=1, length=99)])
run_from_yaml(nm("huge"), [dict(StartTime=2 ** 53 + 1, EndTime=2 ** 53 + 3, Lane=1),
                           dict(EndTime=2 ** 40, Lane=2)])
run_from_yaml(nm("big_ints_all_present"), [dict(StartTime=2 ** 53 + 1, EndTime=2 ** 53 + 3, Lane=1)])
run_from_yaml(nm("not_dicts"), [1, 2])
run_from_yaml(nm("dict_not_list"), dict(StartTime=[1, 2], EndTime=[3, 5], Lane=[1, 2]))
run_from_yaml(nm("dict_of_scalars"), dict(StartTime=1, EndTime=3, Lane=1))

# ---------------------------------------------------------------- QuaMap.read on documents
def run_read(name, text, as_lines=False):
    try:
        m = QuaMap.read(text.split("\n") if as_lines else text)
        emit(name, "hits", canon_df(m.hits.df))
        emit(name, "holds", type(m.holds).__name__, canon_df(m.holds.df))
        emit(name, "bpms", canon_df(m.bpms.df))
        emit(name, "svs", canon_df(m.svs.df))
        emit(name, "meta", m.title, m.artist, m.mode, m.tags)
        out = m.write()
        emit(name, "write", out)
        emit(name, "fixpoint", QuaMap.read(out).write() == out)
    except Exception as e:  # noqa
        emit(name, "raised", type(e).__module__ + "." + type(e).__name__)


def doc(keys, n_hits, n_holds, frac, title="t"):
    import yaml as _y
    objs = []
    for _ in range(n_hits):
        d = rand_hold_dict(keys, fractional=frac)
        d.pop("EndTime")
        objs.append(d)
    for _ in range(n_holds):
        objs.append(rand_hold_dict(keys, fractional=frac))
    order = RNG.permutation(len(objs))
    objs = [objs[i] for i in order]
    body = dict(Title=title, Mode=f"Keys{keys}",
                TimingPoints=[dict(Bpm=120.0)] if RNG.rand() < .5 else [dict(StartTime=10, Bpm=99.5)],
                SliderVelocities=[] if RNG.rand() < .5 else [dict(StartTime=5)],
                HitObjects=objs)
    return _y.safe_dump(body, sort_keys=False, allow_unicode=True)


for i, (keys, nh, nl, frac, title) in enumerate([
        (4, 5, 4, False, "plain"), (7, 3, 6, True, "colon: in"), (4, 0, 5, False, "#hash"),
        (4, 5, 0, False, "'q'"), (8, 2, 2, True, "- dash"), (5, 1, 1, False, "ユニコード"),
        (4, 0, 0, False, "yes"), (1, 2, 3, True, "multi\nline")]):
    run_read(nm(f"doc_keys{keys}_h{nh}_l{nl}_frac{frac}"), doc(keys, nh, nl, frac, title), as_lines=bool(i % 2))
run_read(nm("doc_handwritten"), """Title: x
HitObjects:
- EndTime: 500
  Lane: 2
- StartTime: 250
  Lane: 1
- StartTime: 100
  EndTime: 100
  Lane: 4
  KeySounds: []
- Lane: 3
  EndTime: ~
TimingPoints:
- Bpm: 100
SliderVelocities: []
""")
run_read(nm("doc_empty_sections"), "Title: x\nHitObjects: []\nTimingPoints: []\nSliderVelocities: []\n")
run_read(nm("doc_no_sections"), "Title: x\n")
run_read(nm("doc_hold_without_lane"), "HitObjects:\n- EndTime: 5\n")

# ---------------------------------------------------------------- to_yaml on lists

def rand_holds(n, keys, fractional=False):
    out = []
    for _ in range(n):
        o = RNG.uniform(-2000, 60000)
        ln = RNG.choice([0.0, RNG.uniform(0, 3000)])
        if not fractional:
            o, ln = round(o), round(ln)
        out.append(QuaHold(offset=float(o), column=int(RNG.randint(0, keys)),
                           length=float(ln), keysounds=rand_keysounds()))
    return out


run_list(nm("empty"), QuaHoldList([]))
run_list(nm("single"), QuaHoldList(QuaHold(offset=1000, column=0, length=0, keysounds=[])))
for keys in (1, 4, 5, 7, 8, 10):
    run_list(nm(f"keys{keys}"), QuaHoldList(rand_holds(RNG.randint(2, 9), keys)))
for keys in (4, 7):
    run_list(nm(f"fractional_keys{keys}"), QuaHoldList(rand_holds(RNG.randint(3, 9), keys, fractional=True)))
base = QuaHoldList(rand_holds(8, 4, fractional=True))
run_list(nm("unsorted"), base)
run_list(nm("sorted"), base.sorted())
run_list(nm("sorted_reverse"), base.sorted(reverse=True))
run_list(nm("filtered_after"), base.after(20000))
run_list(nm("filtered_between"), base.between(5000, 50000))
run_list(nm("filtered_mask"), base[base.column >= 2])
run_list(nm("filtered_to_empty"), base[base.column >= 99])
run_list(nm("slice"), base[2:6])
run_list(nm("duplicate_labels"), QuaHoldList(pd.concat([base.df, base.df])))
run_list(nm("append"), base.append(QuaHold(offset=1.75, column=3, length=0.5, keysounds=["x.wav"])))
run_list(nm("int_dtypes"), QuaHoldList(pd.DataFrame(
    dict(offset=[3, 1, 2], column=[0, 1, 2], keysounds=[[], ["a"], []], length=[0, 5, 10]))))
run_list(nm("fraction_sum_carries"), QuaHoldList(pd.DataFrame(
    dict(offset=[0.6, -0.6, 1.5], column=[0.0, 1.0, 2.9], keysounds=[[], ["a"], []], length=[0.6, 0.3, -3.25]))))
run_list(nm("bool_column"), QuaHoldList(pd.DataFrame(
    dict(offset=[1.0, 2.0], column=[True, False], keysounds=[[], []], length=[True, False]))))
run_list(nm("object_dtypes"), QuaHoldList(pd.DataFrame(
    dict(offset=pd.Series([1, 2.5], dtype=object), column=pd.Series([1, 2], dtype=object),
         keysounds=[[], ["k"]], length=pd.Series([1, 0.75], dtype=object)))))
run_list(nm("string_offset_length"), QuaHoldList(pd.DataFrame(
    dict(offset=["12", "34"], column=[0, 1], keysounds=[[], []], length=["5", "6"]))))
run_list(nm("string_offset_num_length"), QuaHoldList(pd.DataFrame(
    dict(offset=["12", "34"], column=[0, 1], keysounds=[[], []], length=[5, 6]))))
run_list(nm("string_column"), QuaHoldList(pd.DataFrame(
    dict(offset=[1, 2], column=["0", "1"], keysounds=[[], []], length=[5, 6]))))
run_list(nm("reordered_cols"), QuaHoldList(pd.DataFrame(
    dict(length=[1.5, 0.0], keysounds=[["a"], []], column=[2, 3], offset=[10.0, 20.0]))))
run_list(nm("extra_index_col_nan_keysounds"), QuaHoldList(pd.DataFrame(
    dict(index=[5, 6], offset=[10.0, 20.0], column=[2, 3], length=[4.0, 0.0], keysounds=[np.nan, np.nan]))))
run_list(nm("extra_yaml_named_cols"), QuaHoldList(pd.DataFrame(
    dict(offset=[10.0], EndTime=["keep?"], column=[2], keysounds=[[]], length=[3.0], StartTime=[7], Lane=["z"]))))
run_list(nm("no_keysounds"), QuaHoldList(pd.DataFrame(dict(offset=[10.0], column=[2], length=[1.0]))))
run_list(nm("nan_offset"), QuaHoldList(pd.DataFrame(
    dict(offset=[np.nan, 1.0], column=[0, 1], keysounds=[[], []], length=[1.0, 1.0]))))
run_list(nm("nan_length"), QuaHoldList(pd.DataFrame(
    dict(offset=[0.0, 1.0], column=[0, 1], keysounds=[[], []], length=[np.nan, 1.0]))))
run_list(nm("nan_column"), QuaHoldList(pd.DataFrame(
    dict(offset=[0.0, 1.0], column=[np.nan, 1], keysounds=[[], []], length=[1.0, 1.0]))))
run_list(nm("inf_length"), QuaHoldList(pd.DataFrame(
    dict(offset=[0.0, 1.0], column=[0, 1], keysounds=[[], []], length=[np.inf, 1.0]))))
run_list(nm("missing_column"), QuaHoldList(pd.DataFrame(dict(offset=[0.0], keysounds=[[]], length=[1.0]))))
run_list(nm("missing_offset"), QuaHoldList(pd.DataFrame(dict(column=[0], keysounds=[[]], length=[1.0]))))
run_list(nm("missing_length"), QuaHoldList(pd.DataFrame(dict(offset=[0.0], column=[0], keysounds=[[]]))))
run_list(nm("missing_length_and_column"), QuaHoldList(pd.DataFrame(dict(offset=[0.0], keysounds=[[]]))))
run_list(nm("missing_offset_and_length"), QuaHoldList(pd.DataFrame(dict(column=[0], keysounds=[[]]))))
run_list(nm("missing_all"), QuaHoldList(pd.DataFrame(dict(keysounds=[[]]))))
run_list(nm("huge"), QuaHoldList(pd.DataFrame(
    dict(offset=[2.0 ** 40 + 0.5, -2.0 ** 40 - 0.5], column=[0, 1], keysounds=[[], []], length=[0.5, 2.0 ** 41]))))
run_list(nm("named_columns_axis"), QuaHoldList(pd.DataFrame(
    dict(offset=[1.5], column=[1], keysounds=[["q"]], length=[2.5])).rename_axis("props", axis=1)))
run_list(nm("string_row_labels"), QuaHoldList(pd.DataFrame(
    dict(offset=[1.5, 0.5], column=[1, 0], keysounds=[["q"], []], length=[0.0, 9.75]), index=["b", "a"])))
run_list(nm("empty_with_extra"), QuaHoldList(pd.DataFrame(
    dict(index=pd.Series([], dtype=int), offset=pd.Series([], dtype=float),
         column=pd.Series([], dtype=int), keysounds=pd.Series([], dtype=object),
         length=pd.Series([], dtype=float)))))
run_list(nm("from_dict"), QuaHoldList.from_dict(dict(offset=[5, 4.5], column=[1, 0], length=[0, 2.5])))
run_list(nm("empty_rows"), QuaHoldList.empty(3))
# the tail of a hold can be moved through the list's own setter first
moved = QuaHoldList(rand_holds(4, 4))
moved.length = moved.length * 0.5
moved.offset += 0.25
run_list(nm("after_setters"), moved)

# ---------------------------------------------------------------- whole charts
case = 0


def mm(label):
    global case
    case += 1
    return f"M{case:02d}:{label}"


def rand_qua(keys, n_hits, n_holds, fractional):
    m = QuaMap()
    m.hits = QuaHitList(rand_hits(n_hits, keys, fractional=fractional, negative=True))
    m.holds = QuaHoldList(rand_holds(n_holds, keys, fractional=fractional))
    m.bpms = QuaBpmList([QuaBpm(offset=0, bpm=float(RNG.randint(60, 240)))])
    m.svs = QuaSvList([QuaSv(offset=float(RNG.randint(0, 9999)), multiplier=1.5)] if RNG.rand() < .5 else [])
    m.title = str(RNG.choice(["plain", "colon: inside", "#hash", "'quoted'", "- dash", "multi\nline", "ユニコード", "yes", "123", ""]))
    m.artist = str(RNG.choice(["a", "[brackets]", "{braces}", "null", "~", "@at", "%pct", " lead", "trail "]))
    m.tags = [str(t) for t in RNG.choice(["x", "y: z", "#1", "true"], RNG.randint(0, 3))]
    return m


for keys, nh, nl, frac in [(4, 6, 3, False), (7, 5, 5, True), (4, 0, 4, False), (4, 5, 0, True),
                           (8, 3, 2, False), (5, 4, 1, True), (4, 0, 0, False), (1, 2, 2, True)]:
    run_map(mm(f"qua_keys{keys}_h{nh}_l{nl}_frac{frac}"), rand_qua(keys, nh, nl, frac))

# charts that reach the writer through a converter
for keys in (4, 7):
    osu = OsuMap()
    osu.circle_size = keys
    osu.title, osu.artist, osu.version, osu.creator = "t: x", "a#b", "v", "c"
    osu.hits = OsuHitList([OsuHit(offset=float(o), column=int(RNG.randint(0, keys)))
                           for o in RNG.uniform(0, 30000, 6)])
    osu.holds = OsuHoldList([OsuHold(offset=float(o), column=int(RNG.randint(0, keys)), length=float(l))
                             for o, l in zip(RNG.uniform(0, 30000, 4), [0.0, 10.5, 300.0, 999.9])])
    osu.bpms = OsuBpmList([OsuBpm(offset=0, bpm=150)])
    q = OsuToQua.convert(osu)
    run_list(mm(f"osu_to_qua_holds_keys{keys}"), q.holds)
    run_map(mm(f"osu_to_qua_keys{keys}"), q)
    # converted holds after a filter
    q.holds = q.holds.after(10000)
    run_map(mm(f"osu_to_qua_filtered_keys{keys}"), q)

sms = SMMapSet()
sms.title, sms.artist = "set: title", "art"
for i, keys in enumerate((4, 7)):
    sm = SMMap()
    sm.hits = SMHitList([SMHit(offset=float(o), column=int(RNG.randint(0, keys)))
                         for o in RNG.uniform(0, 20000, 5)])
    sm.holds = SMHoldList([SMHold(offset=float(o), column=int(RNG.randint(0, keys)), length=float(RNG.uniform(0, 500)))
                           for o in RNG.uniform(0, 20000, 3)])
    sm.bpms = SMBpmList([SMBpm(offset=0, bpm=120 + 30 * i)])
    sm.difficulty = f"diff{i}"
    sms.maps.append(sm)
try:
    quas = SMToQua.convert(sms)
    emit("SM", "n_maps", len(quas))
    for i, q in enumerate(quas):
        run_list(mm(f"sm_to_qua_holds_{i}"), q.holds)
        run_map(mm(f"sm_to_qua_{i}"), q)
except Exception as e:  # noqa
    emit("SM", "raised", type(e).__module__ + "." + type(e).__name__)

text = "\n".join(OUT)
print(f"cases={len({l.split(' | ')[0] for l in OUT if l[:1] in 'LM' and l[1:3].isdigit()})}", file=sys.stderr)
print(hashlib.sha256(text.encode("utf-8")).hexdigest())
if len(sys.argv) > 1:
    open(sys.argv[1], "w", encoding="utf-8").write(text)
