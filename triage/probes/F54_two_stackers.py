"""F54 (C12, known finding): the stacker writes back every column from its private snapshot.
Run:  cd /repo && /venv/bin/python /verif/triage/probes/F54_two_stackers.py   (fails on the pinned tree)"""
import warnings
warnings.simplefilter("ignore")
from reamber.base import Map, Hit, Bpm
from reamber.base.lists import BpmList
from reamber.base.lists.notes import HitList
m = Map(); m.hits = HitList([Hit(offset=o, column=c) for o, c in zip([0, 100, 200, 300], [0, 1, 2, 3])]); m.bpms = BpmList([Bpm(offset=0, bpm=120)])
s_all = m.stack(); s_hits = m.stack((HitList,))
s_hits.offset += 1000
s_all.column += 1
print(m.hits.offset.tolist())
assert m.hits.offset.tolist() == [1000, 1100, 1200, 1300], "the edit made through the other stacker was reverted"
