"""F57 (C05): a chart read from a BMS file without #LNOBJ has ln_end_channel == b""; a hold added afterwards is written with an EMPTY
tail value: the line has one slot fewer than its denominator says, there is no #LNOBJ header and no tail object.
Run: PYTHONPATH=<tree> /venv/bin/python F57_bms_hold_after_read_without_lnobj.py   (exit 1 = defect present)"""
import sys
from reamber.bms.BMSMap import BMSMap
from reamber.bms.BMSHold import BMSHold
from reamber.bms.lists.notes.BMSHoldList import BMSHoldList

src = ["#TITLE t", "#ARTIST a", "#BPM 120", "#PLAYLEVEL 1", "#WAV01 a.wav", "", "#00011:01000100"]
m = BMSMap.read(src)
print("ln_end_channel after read:", m.ln_end_channel)
m.holds = BMSHoldList([BMSHold(2000, 3, 500, b"a.wav")])
out = m.write()
text = out.decode("ascii", "replace")
print(text)
lines = [l for l in text.splitlines() if l.startswith("#001")]
bad = [l for l in lines if (len(l.split(":")[1]) % 2) or "LNOBJ" not in text]
print("lines of measure 1:", lines)
if "#LNOBJ" not in text or any(len(l.split(":")[1]) % 2 for l in lines):
    print("DEFECT: hold written without #LNOBJ header / with an empty tail value")
    sys.exit(1)
print("ok")
