"""Positive controls (DESIGN §2.3).

Rules whose expected number of findings is zero must prove on every run that they
can see the pattern at all.  The control modules below are analysed *together with*
/repo's current source (as additional in-memory modules under
``reamber/_sa_controls/``; nothing is written to disk, nothing replaces a
repository file) and each rule asserts that its control construct is flagged.
"""

CONTROL_PKG = "reamber._sa_controls"

CONTROLS = {
    "reamber/_sa_controls/__init__.py": "",
    # ---- A3: parameter-rooted mutation ------------------------------------
    "reamber/_sa_controls/effects.py": '''
from copy import deepcopy
import pandas as pd
from reamber.base.Map import Map
from reamber.base.lists.TimedList import TimedList


def mutates_frame_column(m: Map):
    df = m.bpms.df
    df["x"] = 1
    return df


def mutates_through_stack(m: Map, by: float):
    stack = m.stack()
    stack.offset /= by
    return m


def mutates_through_setter(tl: TimedList):
    tl.offset += 1
    return tl


def mutates_inplace_kw(tl: TimedList):
    tl.df.sort_values("offset", inplace=True)


def clean_copy_then_write(m: Map, by: float):
    c = m.deepcopy()
    s = c.stack()
    s.offset /= by
    df = c.bpms.df
    df["x"] = 1
    return c


def returns_alias(m: Map):
    return m.hits


def returns_fresh(m: Map):
    return deepcopy(m).hits
''',
}
