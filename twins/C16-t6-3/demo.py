import hashlib
import importlib
import inspect
import pkgutil
import random
import sys
import warnings

import numpy as np
import pandas as pd

import reamber
from reamber.base.Series import Series as RSeries
from reamber.base.lists.TimedList import TimedList
from reamber.base.lists.notes.HoldList import HoldList

OUT = []


def emit(*parts):
    OUT.append(" | ".join(str(p) for p in parts))


# ---------------------------------------------------------------- dumping --
def cell(v):
    """Canonical text of one scalar, with its python/numpy type."""
    if isinstance(v, float) or isinstance(v, np.floating):
        return f"{type(v).__name__}:{float(v)!r}"
    if isinstance(v, (list, tuple)):
        return f"{type(v).__name__}[{','.join(cell(i) for i in v)}]"
    return f"{type(v).__name__}:{v!r}"


def dump(x):
    if isinstance(x, BaseException):
        msg = str(x) if isinstance(x, AssertionError) else ""
        return f"EXC<{type(x).__name__}>{msg}"
    if isinstance(x, TimedList):
        try:
            df = x.df
        except AttributeError:
            return f"TL<{type(x).__name__}>NO_DF"
        return f"TL<{type(x).__name__}>{dump(df)}"
    if isinstance(x, RSeries):
        return f"ITEM<{type(x).__name__}>{dump(x.data)}"
    if isinstance(x, pd.DataFrame):
        cols = [cell(c) for c in x.columns]
        dts = [str(d) for d in x.dtypes]
        idx = [cell(i) for i in x.index]
        rows = [[cell(v) for v in x[c].tolist()] for c in x.columns] \
            if x.columns.is_unique else [[cell(v) for v in r] for r in x.to_numpy().tolist()]
        return f"DF(cols={cols},dtypes={dts},index={type(x.index).__name__}{idx},data={rows})"
    if isinstance(x, pd.Series):
        return (f"S(name={x.name!r},dtype={x.dtype},index={[cell(i) for i in x.index]},"
                f"data={[cell(v) for v in x.tolist()]})")
    if isinstance(x, np.ndarray):
        return f"ND(dtype={x.dtype},shape={x.shape},data={[cell(v) for v in x.ravel().tolist()]})"
    if isinstance(x, (list, tuple)):
        return f"{type(x).__name__}({','.join(dump(i) for i in x)})"
    return cell(x)


def run(label, fn, *watch):
    """Runs fn, records result / exception / warnings and the watched inputs after."""
    with warnings.catch_warnings(record=True) as w:
        warnings.simplefilter("always")
        try:
            res = fn()
            if inspect.isgenerator(res):
                res = list(res)
        except Exception as e:  # noqa
            res = e
    ws = [f"{i.category.__name__}:{str(i.message)[:60]}" for i in w]
    emit(label, dump(res), "WARN", ws, "INPUTS", [dump(i) for i in watch])
    return res


# ------------------------------------------------------------ discovery ----
def list_classes():
    seen = {}
    for m in pkgutil.walk_packages(reamber.__path__, "reamber."):
        if ".algorithms" in m.name:
            continue
        try:
            mod = importlib.import_module(m.name)
        except Exception:  # noqa
            continue
        for n, o in vars(mod).items():
            if (inspect.isclass(o) and issubclass(o, TimedList) and o.__module__ == m.name
                    and not inspect.isabstract(o)):
                seen[f"{o.__module__}.{n}"] = o
    return [seen[k] for k in sorted(seen)]


# ----------------------------------------------------------- generation ----
OFFSETS = [-1000.5, -3.0, -0.0, 0.0, 0.25, 1.0, 1.0, 2.5, 2.5, 100.0, 100.0, 99.75, 1e6]
LENGTHS = [0.0, 0.0, 0.25, 1.5, 1.5, 97.5, 100.0, 1000.5]
NEG_LENGTHS = LENGTHS + [-1.5, -97.5]


def rand_value(rng, name, dtype, neg_len):
    if name == "offset":
        return rng.choice(OFFSETS)
    if name == "length":
        return rng.choice(NEG_LENGTHS if neg_len else LENGTHS)
    if dtype == "float":
        return rng.choice([0.0, 0.5, 1.0, 4.0, 120.0, 200.25, -1.0])
    if dtype == "int":
        return rng.randrange(0, 9)
    if dtype == "bool":
        return rng.random() < 0.5
    if dtype == "str":
        return rng.choice(["", "a.wav", "b.ogg"])
    if name == "sample":
        return rng.choice([b"", b"k.wav", b"z"])
    if name == "keysounds":
        return rng.choice([[], ["x"], ["x", "y"]])
    return rng.choice(["", "h.wav"])


def rand_rows(rng, cls, n, neg_len=False):
    props = cls._item_class()._props
    return [{k: rand_value(rng, k, t, neg_len) for k, (t, _) in props.items()} for _ in range(n)]


def make_list(cls, rows):
    """List of cls with declared dtypes, from row dicts (goes through the DataFrame ctor)."""
    props = cls._item_class()._props
    if not rows:
        return cls([])
    return cls(pd.DataFrame({k: pd.Series([r[k] for r in rows], dtype=t) for k, (t, _) in props.items()}))


def make_item(cls, row):
    return cls._item_class()(**row)


def finish():
    text = "\n".join(OUT)
    if "--dump" in sys.argv:
        sys.stdout.write(text + "\n")
    print("DIGEST", hashlib.sha256(text.encode()).hexdigest())


# ================================================================ scenario ==
# Refactoring 3: TimedList.from_dict (list built from a dict has the declared fields).
def columns_of(rng, cls, mode):
    names = list(cls._item_class()._props)
    if mode == "all":
        return names
    if mode == "offset_only":
        return ["offset"]
    if mode == "no_offset":
        rest = [n for n in names if n != "offset"]
        return rng.sample(rest, rng.randint(1, len(rest))) if rest else ["offset"]
    if mode == "reversed":
        return names[::-1]
    return rng.sample(names, rng.randint(1, len(names)))


def exercise(tag, tl, cls):
    """The list built from a dict behaves like the sequence of its rows."""
    if not isinstance(tl, TimedList):
        return
    props = cls._item_class()._props
    run(f"{tag}.declared_fields", lambda: (sorted(tl.df.columns) == sorted(props), len(tl.df.columns)))
    run(f"{tag}.len", lambda: len(tl))
    run(f"{tag}.iter", lambda: list(tl), tl)
    run(f"{tag}.getitem", lambda: (tl[0], tl[-1], tl[np.int64(0)]), tl)
    run(f"{tag}.slice", lambda: (tl[1:], tl[::-1], tl[:0]), tl)
    run(f"{tag}.sorted", lambda: (tl.sorted(), tl.sorted(reverse=True)), tl)
    run(f"{tag}.first_last", lambda: (tl.first_offset(), tl.last_offset(), tl.first_last_offset()), tl)
    run(f"{tag}.filters", lambda: (tl.after(1.0), tl.after(1.0, True), tl.before(1.0), tl.before(1.0, True),
                                   tl.between(-3.0, 100.0), tl.between(-3.0, 100.0, True)), tl)
    run(f"{tag}.append_item", lambda: tl.append(make_item(cls, rand_rows(random.Random(5), cls, 1)[0]), sort=True), tl)
    run(f"{tag}.append_self", lambda: tl.append(tl), tl)
    for name, (_, default) in props.items():
        if isinstance(default, list) and len(tl) >= 2:
            col = tl.df[name]
            run(f"{tag}.{name}.own_copies", lambda: (col.iloc[0] is col.iloc[1], col.iloc[0] is default))


def main():
    rng = random.Random(160003)
    classes = list_classes()
    emit("CLASSES", [c.__name__ for c in classes])
    for cls in classes:
        props = cls._item_class()._props
        name = cls.__name__
        # nothing given
        for label, d in (("{}", {}), ("[]", []), ("None", None), ("()", ()), ("''", "")):
            tl = run(f"{name}.from_dict({label})", lambda: cls.from_dict(d))
            exercise(f"{name}.from_dict({label})", tl, cls)
        for n in (0, 1, 2, 5, 9):
            rows = rand_rows(rng, cls, n, neg_len=True)
            for mode in ("all", "offset_only", "no_offset", "reversed", "random", "random"):
                cols = columns_of(rng, cls, mode)
                tag = f"{name}[n={n},{mode}:{','.join(cols)}]"
                # dict of lists
                d1 = {c: [r[c] for r in rows] for c in cols}
                keep = {c: list(v) for c, v in d1.items()}
                tl = run(f"{tag}.dict_of_lists", lambda: cls.from_dict(d1), d1)
                run(f"{tag}.dict_of_lists.arg_untouched", lambda: d1 == keep and list(d1) == list(keep))
                if mode in ("offset_only", "random") or n in (0, 5):
                    exercise(f"{tag}.dict_of_lists", tl, cls)
                # list of row dicts
                d2 = [{c: r[c] for c in cols} for r in rows]
                tl = run(f"{tag}.list_of_rows", lambda: cls.from_dict(d2), d2)
                if mode == "no_offset":
                    exercise(f"{tag}.list_of_rows", tl, cls)
                # dict of arrays / Series (own row labels, possibly duplicated)
                if n:
                    labels = [rng.choice([7, -1, 3, 3, 10]) for _ in range(n)]
                    d3 = {c: pd.Series([r[c] for r in rows], index=range(n)) for c in cols}
                    run(f"{tag}.dict_of_series", lambda: cls.from_dict(d3), d3)
                    d4 = {c: pd.Series([r[c] for r in rows], index=labels) for c in cols[:1]}
                    tl = run(f"{tag}.dict_of_series_dup_labels{labels}", lambda: cls.from_dict(d4), d4)
                    if n == 5:
                        exercise(f"{tag}.dict_of_series_dup_labels", tl, cls)
                    d5 = {c: {f"r{i}": r[c] for i, r in enumerate(rows)} for c in cols}
                    run(f"{tag}.dict_of_dicts", lambda: cls.from_dict(d5), d5)
                    d6 = {c: np.array([r[c] for r in rows], dtype=object) for c in cols}
                    run(f"{tag}.dict_of_object_arrays", lambda: cls.from_dict(d6), d6)
                    # rows with different keys: holes become NaN, absent columns get defaults
                    d7 = [{c: r[c] for c in cols if rng.random() < 0.6} for r in rows]
                    run(f"{tag}.ragged_rows", lambda: cls.from_dict(d7), d7)
                # column names that are not declared
                bad = dict(d1)
                bad[rng.choice(["nope", "Offset", "index", 0, "offset "])] = [0] * n
                run(f"{tag}.undeclared_column", lambda: cls.from_dict(bad), bad)
                run(f"{tag}.undeclared_only", lambda: cls.from_dict({"index": list(range(n))}))
            # differently typed input for given columns is kept as given
            run(f"{name}[n={n}].int_offsets", lambda: cls.from_dict({"offset": list(range(n, 0, -1))}))
            run(f"{name}[n={n}].str_offsets", lambda: cls.from_dict({"offset": ["b", "a"][:n]}))
            run(f"{name}[n={n}].mismatched_lengths",
                lambda: cls.from_dict({"offset": [1.0] * n, list(props)[0]: [1] * (n + 1)}))
            run(f"{name}[n={n}].scalar_values", lambda: cls.from_dict({"offset": 1.0}))
        # the class defaults themselves are not touched
        run(f"{name}.props_after", lambda: [(k, v[0], cell(v[1])) for k, v in props.items()])
        run(f"{name}.empty_vs_from_dict", lambda: (cls.empty(2), cls.from_dict({"offset": [0.0, 0.0]})))
    finish()


main()
