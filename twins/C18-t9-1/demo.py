"""Demo for C18 / change 1: hitsound_copy (split, per-volume counts, slot lookup,
recombination).  Prints one line `DIGEST <hex>`.

Run as:  cd /tmp/wt7/C18 && PYTHONPATH=/tmp/wt7/C18 /venv/bin/python demo.py
"""
import hashlib
import logging
import random
import warnings

import numpy as np
import pandas as pd

from reamber.algorithms.osu.hitsound_copy import hitsound_copy
from reamber.osu.OsuMap import OsuMap
from reamber.osu.lists.OsuSampleList import OsuSampleList
from reamber.osu.lists.notes.OsuHitList import OsuHitList
from reamber.osu.lists.notes.OsuHoldList import OsuHoldList

warnings.simplefilter("ignore")
random.seed(1818)

OUT = []


def emit(*parts):
    OUT.append(" | ".join(str(p) for p in parts))


def dump_df(tag, df):
    emit(tag, "type", type(df).__name__, "shape", df.shape)
    emit(tag, "columns", list(df.columns))
    emit(tag, "dtypes", [str(t) for t in df.dtypes])
    emit(tag, "index", type(df.index).__name__, str(df.index.dtype), list(df.index))
    for row in df.itertuples(index=True, name=None):
        emit(tag, "row", [(type(v).__name__, repr(v)) for v in row])


def dump_map(tag, m):
    emit(tag, "class", type(m).__name__, type(m.hits).__name__,
         type(m.holds).__name__, type(m.samples).__name__)
    dump_df(tag + ".hits", m.hits.df)
    dump_df(tag + ".holds", m.holds.df)
    dump_df(tag + ".samples", m.samples.df)
    dump_df(tag + ".bpms", m.bpms.df)
    dump_df(tag + ".svs", m.svs.df)


# ----------------------------------------------------------------- generators
FILES = ["kick.wav", "snare.ogg", "hat.wav", "a b.wav", "clap2.wav", "x.ogg"]
NOTE_COLS = ["hitsound_set", "sample_set", "addition_set", "custom_set",
             "volume", "hitsound_file"]


def rand_sound(p_sound, p_file, hs_pool, vol_pool):
    d = dict(hitsound_set=0, sample_set=0, addition_set=0, custom_set=0,
             volume=random.choice(vol_pool), hitsound_file="")
    r = random.random()
    if r < p_sound:
        d["hitsound_set"] = random.choice(hs_pool)
        if random.random() < 0.3:
            d["sample_set"] = random.randint(0, 3)
        if random.random() < 0.3:
            d["addition_set"] = random.randint(0, 3)
        if random.random() < 0.2:
            d["custom_set"] = random.randint(0, 4)
    elif r < p_sound + p_file:
        d["hitsound_file"] = random.choice(FILES)
    return d


def rand_notes(times, n, keys, p_hold, p_sound, p_file, hs_pool, vol_pool,
               shuffle=True):
    hits, holds = [], []
    for _ in range(n):
        d = dict(offset=float(random.choice(times)),
                 column=random.randrange(keys))
        d.update(rand_sound(p_sound, p_file, hs_pool, vol_pool))
        if random.random() < p_hold:
            d["length"] = float(random.choice([50, 100, 250, 1000]))
            holds.append(d)
        else:
            hits.append(d)
    if shuffle:
        random.shuffle(hits)
        random.shuffle(holds)
    return hits, holds


def build_map(hits, holds, samples=(), index_shift=0):
    m = OsuMap()
    m.hits = OsuHitList.from_dict(hits)
    m.holds = OsuHoldList.from_dict(holds)
    if index_shift:
        # non-default row labels on the inputs
        for lst in (m.hits, m.holds):
            if len(lst.df):
                lst.df.index = list(lst.df.index * 3 + index_shift)
    if samples:
        m.samples = OsuSampleList.from_dict(list(samples))
    return m


def dict_(**kw):
    d = dict(hitsound_set=0, sample_set=0, addition_set=0, custom_set=0,
             volume=0, hitsound_file="")
    d.update(kw)
    return d


HS_ALL = [0, 2, 4, 8, 6, 10, 12, 14]
HS_WITH_NORMAL = HS_ALL + [1, 3, 5, 7, 9, 11, 13, 15]


def scenario(tag, src, tgt):
    import copy

    src_before, tgt_before = copy.deepcopy(src), copy.deepcopy(tgt)
    src_dfs = (src.hits.df, src.holds.df, src.samples.df)
    tgt_dfs = (tgt.hits.df, tgt.holds.df, tgt.samples.df)
    records = []
    handler = logging.Handler()
    handler.emit = lambda rec: records.append((rec.levelname, rec.getMessage()))
    lg = logging.getLogger("reamber.algorithms.osu.hitsound_copy")
    lg.addHandler(handler)
    lg.setLevel(logging.DEBUG)
    lg.propagate = False
    try:
        res = hitsound_copy(src, tgt)
    except Exception as e:  # noqa
        emit(tag, "RAISED", type(e).__name__)
        res = None
    finally:
        lg.removeHandler(handler)
    if res is not None:
        emit(tag, "result is tgt", res is tgt, "result is src", res is src)
        dump_map(tag + ".res", res)
    for r in records:
        emit(tag, "log", r)
    # inputs afterwards
    dump_map(tag + ".src_after", src)
    dump_map(tag + ".tgt_after", tgt)
    emit(tag, "src frames kept",
         src.hits.df is src_dfs[0], src.holds.df is src_dfs[1],
         src.samples.df is src_dfs[2])
    emit(tag, "tgt frames kept",
         tgt.hits.df is tgt_dfs[0], tgt.holds.df is tgt_dfs[1],
         tgt.samples.df is tgt_dfs[2])
    for name, a, b in (("src", src, src_before), ("tgt", tgt, tgt_before)):
        for part in ("hits", "holds", "samples"):
            x, y = getattr(a, part).df, getattr(b, part).df
            emit(tag, name, part, "unchanged",
                 x.equals(y) and list(x.dtypes) == list(y.dtypes)
                 and list(x.index) == list(y.index))


# ------------------------------------------------------------------ scenarios
n_case = 0


def run(src, tgt, label):
    global n_case
    n_case += 1
    scenario(f"case{n_case:03d}[{label}]", src, tgt)


# 1. random pairs, many shapes
for i in range(40):
    n_times = random.choice([1, 2, 3, 5, 8])
    times_src = random.sample(range(0, 4000, 125), n_times)
    overlap = random.choice(["same", "partial", "disjoint"])
    if overlap == "same":
        times_tgt = list(times_src)
    elif overlap == "partial":
        times_tgt = times_src[: max(1, n_times // 2)] + random.sample(
            range(5000, 9000, 125), 2)
    else:
        times_tgt = random.sample(range(5000, 9000, 125), n_times)
    keys = random.choice([4, 7])
    vol_pool = random.choice([[0], [30], [0, 20, 40], [10, 20, 30, 40, 100],
                              [-5, 0, 50]])
    hs_pool = random.choice([HS_ALL, HS_WITH_NORMAL, [2], [14], [2, 4, 8]])
    sh, sl = rand_notes(times_src, random.choice([1, 3, 8, 20]), keys,
                        random.choice([0, 0.3, 1]), 0.5, 0.3, hs_pool, vol_pool)
    th, tl = rand_notes(times_tgt, random.choice([1, 2, 6, 15]), keys,
                        random.choice([0, 0.3, 1]), 0.4, 0.2, hs_pool, vol_pool)
    src = build_map(sh, sl, index_shift=random.choice([0, 0, 5]))
    tgt = build_map(
        th, tl,
        samples=[dict(offset=100.0, sample_file="old.wav", volume=33)]
        if random.random() < 0.4 else (),
        index_shift=random.choice([0, 0, 7]),
    )
    run(src, tgt, f"rand{i}")

# 2. more sounds than target notes at one time, several volumes, named samples
for i in range(12):
    t = 1000.0
    n_src = random.choice([4, 6, 10])
    n_tgt = random.choice([1, 2, 3])
    sh, sl = rand_notes([t], n_src, 7, 0.3, 0.6, 0.4, HS_ALL[1:],
                        [20, 20, 30, 40])
    th, tl = rand_notes([t, t + 500], n_tgt, 7, 0.5, 0.5, 0.2, HS_ALL, [0, 60])
    run(build_map(sh, sl), build_map(th, tl), f"overflow{i}")

# 3. edge cases
silent_h, silent_l = rand_notes([0, 500, 1000], 6, 4, 0.4, 0.0, 0.0, [0], [0, 35])
loud_h, loud_l = rand_notes([0, 500, 1000], 9, 4, 0.4, 0.6, 0.4, HS_ALL[1:], [25, 45])
run(build_map(silent_h, silent_l), build_map(loud_h, loud_l), "silent source")
run(build_map(loud_h, loud_l), build_map(silent_h, silent_l), "silent target")
run(build_map(loud_h, loud_l), build_map(loud_h, loud_l), "same content")
m_same = build_map(loud_h, loud_l)
run(m_same, m_same, "same object")
run(build_map(loud_h, []), build_map(silent_h, []), "hits only")
run(build_map([], loud_l or [dict_(offset=0.0, column=0, length=10.0,
                                   hitsound_set=2, volume=5)]),
    build_map([], silent_l or [dict_(offset=0.0, column=1, length=20.0)]),
    "holds only")
run(build_map(loud_h, loud_l), build_map([], []), "empty target")
run(build_map([], []), build_map(loud_h, loud_l), "empty source")
run(build_map([], []), build_map([], []), "both empty")
run(build_map(loud_h, []), build_map([], silent_l), "hits -> holds")
run(build_map([], loud_l), build_map(silent_h, []), "holds -> hits")

# negative / zero / fractional times, ties, negative volumes, normal bit
hand_src = [
    dict_(offset=-250.0, column=0, hitsound_set=2, volume=-10),
    dict_(offset=-250.0, column=1, hitsound_set=2, volume=-10),
    dict_(offset=-250.0, column=2, hitsound_set=12, volume=0),
    dict_(offset=0.0, column=0, hitsound_set=1, volume=10),
    dict_(offset=0.0, column=1, hitsound_set=15, volume=10),
    dict_(offset=0.0, column=2, hitsound_file="z.wav", volume=10),
    dict_(offset=0.0, column=3, hitsound_file="a;b.wav", volume=10),
    dict_(offset=0.5, column=0, hitsound_set=8, volume=90),
    dict_(offset=0.5, column=1, hitsound_set=8, volume=90, hitsound_file="w.wav"),
    dict_(offset=333.3333, column=0, sample_set=2, volume=1),
    dict_(offset=333.3333, column=1, addition_set=3, custom_set=2, volume=2),
    dict_(offset=1e9, column=0, hitsound_set=6, volume=100),
]
hand_tgt = [
    dict_(offset=-250.0, column=3), dict_(offset=-250.0, column=2),
    dict_(offset=0.0, column=0), dict_(offset=0.0, column=0),
    dict_(offset=0.5, column=1, hitsound_set=4, hitsound_file="keep.wav",
         volume=44),
    dict_(offset=333.3333, column=2), dict_(offset=333.3333, column=3),
    dict_(offset=333.3333, column=1), dict_(offset=1e9, column=3),
    dict_(offset=-0.0, column=1),
]
run(build_map(hand_src, []), build_map(hand_tgt, []), "hand crafted")
run(build_map(hand_src, []),
    build_map(hand_tgt[:4], [dict(length=100.0, **d) for d in hand_tgt[4:]]),
    "hand crafted holds")
run(build_map(list(reversed(hand_src)), []),
    build_map(list(reversed(hand_tgt)), []), "hand crafted reversed")

# integer offsets on one side, float on the other
src_i = build_map(hand_src, [])
src_i.hits.df["offset"] = src_i.hits.df["offset"].round().astype(int)
run(src_i, build_map(hand_tgt, []), "int source offsets")
tgt_i = build_map(hand_tgt, [])
tgt_i.hits.df["offset"] = tgt_i.hits.df["offset"].round().astype(int)
run(build_map(hand_src, []), tgt_i, "int target offsets")

# NaN times / NaN volumes on either side
src_n = build_map(hand_src, [])
src_n.hits.df.loc[[1, 5], "offset"] = np.nan
run(src_n, build_map(hand_tgt, []), "nan source offsets")
tgt_n = build_map(hand_tgt, [])
tgt_n.hits.df.loc[[0, 3], "offset"] = np.nan
run(build_map(hand_src, []), tgt_n, "nan target offsets")
src_v = build_map(hand_src, [])
src_v.hits.df["volume"] = src_v.hits.df["volume"].astype(float)
src_v.hits.df.loc[[0, 4], "volume"] = np.nan
run(src_v, build_map(hand_tgt, []), "nan / float source volumes")

# float / bool hitsound_set in the source (astype(int) in the function)
src_f = build_map(hand_src, [])
src_f.hits.df["hitsound_set"] = src_f.hits.df["hitsound_set"].astype(float)
run(src_f, build_map(hand_tgt, []), "float hitsound_set")
src_neg = build_map(hand_src, [])
src_neg.hits.df.loc[[0, 7], "hitsound_set"] = [-1, -6]
run(src_neg, build_map(hand_tgt, []), "negative hitsound_set")
src_big = build_map(hand_src, [])
src_big.hits.df.loc[[0, 7], "hitsound_set"] = [2 + 16 + 256, 2 ** 40 + 12]
run(src_big, build_map(hand_tgt, []), "high bits in hitsound_set")

# source lacking a column the function needs -> exception type recorded
src_bad = build_map(hand_src, [])
src_bad.hits.df = src_bad.hits.df.drop(columns=["volume"])
run(src_bad, build_map(hand_tgt, []), "source without volume")
src_bad2 = build_map(hand_src, [])
src_bad2.hits.df = src_bad2.hits.df.drop(columns=["hitsound_set"])
run(src_bad2, build_map(hand_tgt, []), "source without hitsound_set")

# the shipped test charts
from pathlib import Path

d = Path("tests/algorithm_tests/osu/hitsound_copy")
if (d / "source.osu").exists():
    s = OsuMap.read_file(d / "source.osu")
    t = OsuMap.read_file(d / "target.osu")
    run(s, t, "shipped charts")
    run(t, s, "shipped charts swapped")
    emit("shipped write", hashlib.sha256(
        "\n".join(hitsound_copy(s, t).write()).encode()).hexdigest())

emit("cases", n_case)
text = "\n".join(OUT)
print("DIGEST", hashlib.sha256(text.encode("utf8")).hexdigest())
import os

if os.environ.get("C18_DUMP"):
    Path(os.environ["C18_DUMP"]).write_text(text)
