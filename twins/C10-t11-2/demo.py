"""Demo for change 2: from_bpm_changes_snap (TimingMap.from_bpm_changes_snap).

Prints one line `DIGEST <hex>`: sha256 over a canonical dump of every result.
"""
import hashlib
import logging
import random
from copy import deepcopy
from fractions import Fraction

import numpy as np

from reamber.algorithms.timing.TimingMap import TimingMap
from reamber.algorithms.timing.utils.BpmChangeSnap import BpmChangeSnap
from reamber.algorithms.timing.utils.Snapper import Snapper
from reamber.algorithms.timing.utils.from_bpm_changes_snap import from_bpm_changes_snap
from reamber.algorithms.timing.utils.snap import Snap

random.seed(20102)
OUT = []


class Capture(logging.Handler):
    def __init__(self):
        super().__init__()
        self.records = []

    def emit(self, record):
        self.records.append((record.levelname, record.getMessage()))


cap = Capture()
root = logging.getLogger()
root.handlers[:] = [cap]
root.setLevel(logging.WARNING)


def emit(*parts):
    OUT.append(" | ".join(str(p) for p in parts))


def t(v):
    return f"{type(v).__module__}.{type(v).__name__}:{v!r}"


def dump_snap(s):
    return f"Snap({t(s.measure)}, {t(s.beat)}, {t(s.metronome)})"


def dump_bcs(bcs_s):
    return "[" + "; ".join(f"{t(b.bpm)},{t(b.metronome)},{dump_snap(b.snap)}" for b in bcs_s) + "]"


def dump_bcos(bcos):
    return "[" + "; ".join(f"{t(b.bpm)},{t(b.metronome)},{t(b.offset)}" for b in bcos) + "]"


def dump_arr(a):
    items = [dump_snap(x) if isinstance(x, Snap) else t(x) for x in a]
    return f"ndarray dtype={a.dtype} shape={a.shape} [{'; '.join(items)}]"


BPMS = [60, 90, 120, 150, 174.5, 200, 222.22, 60000, 1, 0.5, 333, 100, 140, 180, 7.25,
        Fraction(355, 3), np.float64(128.0)]
INITS = [0, 0.0, -0.0, -1500.0, -37.5, 250, 1234.567, 100000.0, np.float64(12.5), Fraction(7, 2), -3]
snapper = Snapper()


def make_bcs(on_measure, const_metronome):
    n = random.randint(1, 7)
    metro = random.randint(1, 8)
    out = []
    measure = 0
    for i in range(n):
        m = metro if const_metronome else random.randint(1, 8)
        if i == 0:
            beat = 0
        elif on_measure:
            beat = 0
        else:
            beat = random.choice([0, 0, 1, Fraction(1, 2), Fraction(3, 4), Fraction(1, 3), m - 1, 2.5])
            if beat >= m:
                beat = 0
        out.append(BpmChangeSnap(random.choice(BPMS), m, Snap(measure, beat, m)))
        measure += random.choice([0, 1, 1, 2, 3, 7]) if i else random.choice([1, 2, 4])
    if random.random() < 0.2 and n > 1:
        # exact duplicate position (tie)
        src = random.choice(out[1:])
        out.append(BpmChangeSnap(random.choice(BPMS), src.metronome, deepcopy(src.snap)))
    random.shuffle(out)
    return out


def run(label, init, bcs_s, *args, **kwargs):
    before = dump_bcs(bcs_s)
    ids = [id(b) for b in bcs_s]
    cap.records.clear()
    emit("CALL", label, t(init), before, args, sorted(kwargs.items()))
    try:
        tm = TimingMap.from_bpm_changes_snap(init, bcs_s, *args, **kwargs)
    except Exception as e:  # noqa
        emit("EXC", type(e).__name__, str(e))
        tm = None
    emit("log", cap.records)
    emit("input after", "same" if dump_bcs(bcs_s) == before and ids == [id(b) for b in bcs_s] else "CHANGED",
         dump_bcs(bcs_s))
    if tm is None:
        return
    emit("type", type(tm).__name__, type(tm.bpm_changes_offset).__name__, t(tm.snapper is TimingMap.snapper))
    emit("bco", dump_bcos(tm.bpm_changes_offset))
    emit("shares input objects", any(b is x for b in tm.bpm_changes_offset for x in bcs_s))
    try:
        emit("bcs back", dump_bcs(tm.bpm_changes_snap()))
    except Exception as e:  # noqa
        emit("bcs back EXC", type(e).__name__)
    # convert a few positions to ms and back
    last = max(b.snap.measure for b in bcs_s)
    qs = [Snap(random.randint(0, int(last) + 3), Fraction(random.randint(0, 3), random.choice([1, 2, 3, 4])), 4)
          for _ in range(6)]
    qs += [deepcopy(b.snap) for b in bcs_s[:3]]
    random.shuffle(qs)
    try:
        offs = tm.offsets(qs)
        emit("offsets", dump_arr(offs))
        emit("snaps", dump_arr(tm.snaps(offs, snapper)))
    except Exception as e:  # noqa
        emit("roundtrip EXC", type(e).__name__)


for i in range(90):
    on_measure = i % 3 != 2
    const = i % 2 == 0
    bcs_s = make_bcs(on_measure, const)
    init = random.choice(INITS)
    mode = i % 4
    if mode == 0:
        run(f"{i} default", init, bcs_s)
    elif mode == 1:
        run(f"{i} reseat=False", init, bcs_s, False)
    elif mode == 2:
        run(f"{i} reseat kw True", init, bcs_s, reseat=True)
    else:
        run(f"{i} reseat kw False", init, bcs_s, reseat=False)
    # module level function, too
    cap.records.clear()
    try:
        tm = from_bpm_changes_snap(init, bcs_s, reseat=bool(i % 2))
        emit("fn", dump_bcos(tm.bpm_changes_offset), cap.records)
    except Exception as e:  # noqa
        emit("fn EXC", type(e).__name__, str(e), cap.records)

# --- fixed edge cases ---------------------------------------------------
run("empty", 0, [])
run("empty no reseat", 0, [], False)
run("single", -12.5, [BpmChangeSnap(120, 4, Snap(0, 0, 4))])
run("single int", 7, [BpmChangeSnap(120, 4, Snap(0, 0, 4))], False)
run("first not on 0 measure", 0, [BpmChangeSnap(120, 4, Snap(1, 0, 4)), BpmChangeSnap(60, 4, Snap(2, 0, 4))])
run("first not on 0 beat", 0, [BpmChangeSnap(120, 4, Snap(0, 1, 4)), BpmChangeSnap(60, 4, Snap(2, 0, 4))], False)
run("two on zero", 100, [BpmChangeSnap(120, 4, Snap(0, 0, 4)), BpmChangeSnap(60, 3, Snap(0, 0, 3)),
                         BpmChangeSnap(90, 5, Snap(0, 0, 5))])
run("unsorted", -500.25, [BpmChangeSnap(200, 3, Snap(6, 0, 3)), BpmChangeSnap(100, 8, Snap(2, 0, 8)),
                          BpmChangeSnap(50, 4, Snap(0, 0, 4)), BpmChangeSnap(400, 1, Snap(4, 0, 1))])
run("beat off, no reseat", 0, [BpmChangeSnap(120, 4, Snap(0, 0, 4)), BpmChangeSnap(60, 4, Snap(1, 2, 4)),
                               BpmChangeSnap(240, 4, Snap(3, Fraction(1, 2), 4))], False)
run("beat off, reseat", 0, [BpmChangeSnap(120, 4, Snap(0, 0, 4)), BpmChangeSnap(60, 4, Snap(1, 2, 4)),
                            BpmChangeSnap(240, 4, Snap(3, Fraction(1, 2), 4))])
run("tuple input", 0, (BpmChangeSnap(120, 4, Snap(0, 0, 4)),))
run("none offset", None, [BpmChangeSnap(120, 4, Snap(0, 0, 4))])
run("none offset 2", None, [BpmChangeSnap(120, 4, Snap(0, 0, 4)), BpmChangeSnap(60, 4, Snap(1, 0, 4))])
run("str offset", "0", [BpmChangeSnap(120, 4, Snap(0, 0, 4)), BpmChangeSnap(60, 4, Snap(1, 0, 4))])

# TimingMap.reseat() goes through from_bpm_changes_snap as well
tm = TimingMap.from_bpm_changes_snap(
    -100, [BpmChangeSnap(120, 4, Snap(0, 0, 4)), BpmChangeSnap(60, 4, Snap(1, 2, 4))], False
)
cap.records.clear()
emit("reseat()", dump_bcos(tm.reseat().bpm_changes_offset), cap.records, dump_bcos(tm.bpm_changes_offset))

print("DIGEST", hashlib.sha256("\n".join(OUT).encode()).hexdigest())
